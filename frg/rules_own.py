"""O/P/R — ownership, lifetime and accessor rules for the containers and holders (C13, C16, C17)."""
from .ir import path, canon, std_unwrap, AnalysisBroken
from . import flow
from . import rules_atomic as RA
from .rules_guard import write_of

ELEM = "wit::Elem"


def cls_fns(unit, recqn):
    return [f for f in unit.functions if f.owner_clsqn == recqn]


def recs_of(unit, cls):
    r = unit.record(cls)
    if not r:
        raise AnalysisBroken("anchor vanished: class %s not instantiated in unit %s" % (cls, unit.name))
    return r


# ---- loops ----------------------------------------------------------------

class Loop:
    """A counting loop seen through the CFG (natural loop + induction variable), independent of whether the
    source spells it `for`, `while` or `do`."""

    def __init__(self, fn, nl, var, info):
        self.fn, self.nl = fn, nl
        self.ivar = var
        self.start = info.get("init")
        b = info.get("bound") or (None, None)
        self.op, self.bound = b[0], b[1]
        self.steps = info.get("steps", [])
        self.header = nl.header

    def contains(self, n):
        return self.nl.contains(n)

    def bound_canon(self, env=None):
        return canon(self.bound, env) if self.bound is not None else None

    def start_canon(self, env=None):
        return canon(self.start, env) if self.start is not None else None

    def step_of(self):
        """(kind, operand node): ('+=', node) / ('++', None) / ('--', None) if the variable has exactly one step."""
        if len(self.steps) != 1:
            return None
        s = self.steps[0]
        if s.kind == "UnaryOperator":
            return (s.op, None)
        if s.kind == "CompoundAssignOperator":
            return (s.op, s.children[1])
        return ("=", s.children[1])


def for_loops(fn):
    """Counting loops of fn (kept under its historical name): one entry per (natural loop, induction variable)."""
    out = []
    for nl in flow.natural_loops(fn):
        for var, info in flow.induction(fn, nl).items():
            if info.get("steps"):
                out.append(Loop(fn, nl, var, info))
    return out


def in_cycle_blocks(fn):
    """Blocks that lie on a CFG cycle."""
    out = set()
    for b in fn.blocks:
        seen, st = set(), list(fn.blocks[b].live_succs())
        while st:
            x = st.pop()
            if x == b:
                out.add(b)
                break
            if x in seen:
                continue
            seen.add(x)
            st.extend(fn.blocks[x].live_succs())
    return out


def is_dtor_call(n):
    """Explicit destructor call element -> object expression node, else None."""
    if n.kind == "CXXMemberCallExpr" and n.callee and n.callee["kind"] == "dtor":
        return n.child("obj")
    if n.kind == "CallExpr" and not n.callee:
        f = n.child("fn")
        if f is not None and f.strip().kind == "CXXPseudoDestructorExpr":
            ch = f.strip().children
            return ch[0] if ch else None
    return None


def alloc_calls(fn):
    """Calls that obtain raw memory / a constructed object from an allocator."""
    out = []
    for n in fn.events():
        if n.kind == "CXXMemberCallExpr" and n.callee and n.callee["n"] == "allocate" and n.callee.get("cls") == "wit::Alloc":
            out.append(n)
        elif n.kind == "CallExpr" and n.callee and n.callee["uq"] in ("frg::construct", "frg::construct_n"):
            out.append(n)
    return out


def free_calls(fn):
    out = []
    for n in fn.events():
        if n.kind == "CXXMemberCallExpr" and n.callee and n.callee["n"] in ("free", "deallocate") and n.callee.get("cls") == "wit::Alloc":
            out.append(n)
        elif n.kind == "CallExpr" and n.callee and n.callee["uq"] in ("frg::destruct", "frg::destruct_n"):
            out.append(n)
    return out


# ---- P: emptiness polarity, front/back ----------------------------------------

def _size_field(unit, rec, fns):
    """The field whose zero-ness means 'empty': what size() returns, else a front pointer."""
    for f in fns:
        if f.name == "size" and not f.params():
            for r in f.return_nodes():
                v = r.child("val")
                p = path(v) if v is not None else None
                if p and len(p) == 2 and p[0] == "this":
                    return p[1]
    names = [x["n"] for x in rec["fields"]]
    for cand in ("_front", "_root"):
        if cand in names:
            return cand
    return None


def truth_when(fn, unit, n, field, zero, depth=0):
    """Truth value of boolean expression n when this-><field> is zero (zero=True) or non-zero."""
    n = n.strip()
    if depth > 8:
        return None
    k = n.kind
    p = path(n)
    if p == ("this", field):
        return not zero
    c = n.cv()
    if c is not None and k != "DeclRefExpr":
        return c != 0
    if k == "UnaryOperator" and n.op == "!":
        v = truth_when(fn, unit, n.children[0], field, zero, depth + 1)
        return None if v is None else (not v)
    if k == "BinaryOperator" and n.op in ("==", "!="):
        a, b = n.children
        for x, y in ((a, b), (b, a)):
            yc = y.strip().cv()
            if yc == 0 or y.strip().get("nullc") or y.strip().kind == "CXXNullPtrLiteralExpr":
                v = truth_when(fn, unit, x, field, zero, depth + 1)
                if v is None:
                    return None
                return (not v) if n.op == "==" else v
        return None
    if k in ("CXXMemberCallExpr",) and n.callee:
        t = unit.by_did.get(n.callee["did"])
        obj = n.child("obj")
        if t is not None and obj is not None and path(obj) == ("this",):
            rs = t.return_nodes()
            if len(rs) == 1 and rs[0].child("val") is not None:
                return truth_when(t, unit, rs[0].child("val"), field, zero, depth + 1)
    if k in ("ImplicitCastExpr",) and n.children:
        return truth_when(fn, unit, n.children[0], field, zero, depth + 1)
    return None


def check_empty(ctx, unit, classes, rule="P.empty"):
    ctx.rule(rule, "empty() is true exactly when the size field (what size() returns, or the front pointer) is zero", len(classes))
    for cls in classes:
        for rec in recs_of(unit, cls):
            fns = cls_fns(unit, rec["qn"])
            es = [f for f in fns if f.name == "empty"]
            if not es:
                raise AnalysisBroken("anchor vanished: %s::empty" % rec["qn"])
            field = _size_field(unit, rec, fns)
            for f in es:
                rs = f.return_nodes()
                if len(rs) != 1 or rs[0].child("val") is None:
                    ctx.broken("%s: empty() has an unexpected shape" % f.qn)
                    continue
                v = rs[0].child("val")
                # delegation to a member container's empty()
                vs = v.strip()
                if vs.kind == "CXXMemberCallExpr" and vs.callee and vs.callee["n"] == "empty" and path(vs.child("obj")) and len(path(vs.child("obj"))) == 2:
                    ctx.inst(rule, "%s::empty" % cls, True, f.loc, "delegates to %s" % vs.callee["uq"], f, nontrivial=False)
                    continue
                if field is None:
                    ctx.broken("%s: cannot determine the size field" % rec["qn"])
                    continue
                tz = truth_when(f, unit, v, field, True)
                tn = truth_when(f, unit, v, field, False)
                ok = tz is True and tn is False
                ctx.inst(rule, "%s::empty" % cls, ok, f.loc,
                         "returns %s; with %s == 0 -> %s, with %s != 0 -> %s (instantiation %s)" % (
                             canon(v), field, tz, field, tn, rec["qn"]), f)


def check_front_back(ctx, unit, classes, rule="P.front-back"):
    ctx.rule(rule, "front() subscripts element 0 and back() element size-1 of the container's buffer", len(classes))
    for cls in classes:
        for rec in recs_of(unit, cls):
            fns = cls_fns(unit, rec["qn"])
            field = _size_field(unit, rec, fns)
            for f in fns:
                if f.name not in ("front", "back") or f.params():
                    continue
                rs = f.return_nodes()
                if len(rs) != 1:
                    continue
                v = rs[0].child("val").strip()
                if v.kind == "CXXMemberCallExpr":
                    ctx.inst(rule, "%s::%s" % (cls, f.name), True, f.loc, "delegates to %s" % v.callee["uq"], f, nontrivial=False)
                    continue
                if v.kind != "ArraySubscriptExpr":
                    ctx.inst(rule, "%s::%s" % (cls, f.name), False, f.loc, "does not return a subscript of the buffer: %s" % canon(v), f)
                    continue
                idx = v.children[1].strip()
                ic = canon(idx)
                extent = None
                bp = path(v.children[0])
                if bp and len(bp) == 2:
                    for fl in rec["fields"]:
                        if fl["n"] == bp[1] and fl.get("extent"):
                            extent = int(fl["extent"])
                if f.name == "front":
                    ok = idx.cv() == 0
                    want = "0"
                elif extent is not None:
                    ok = idx.cv() == extent - 1
                    want = str(extent - 1)
                else:
                    ok = ic == "(- this.%s 1)" % field
                    want = "%s - 1" % field
                ctx.inst(rule, "%s::%s%s" % (cls, f.name, " const" if f.get("const") else ""), ok, f.loc,
                         "subscript is %s, expected %s (instantiation %s)" % (ic, want, rec["qn"]), f)


# ---- O5: relocation ranges ------------------------------------------------------

def check_relocation(ctx, unit, classes, rule="O5.relocate-range"):
    ctx.rule(rule, "in _ensure_capacity the range move-constructed into the new buffer equals the range destroyed in the "
             "old buffer equals the live range [0, size)", len(classes))
    for cls in classes:
        for rec in recs_of(unit, cls):
            fns = [f for f in cls_fns(unit, rec["qn"]) if f.name == "_ensure_capacity"]
            if not fns:
                raise AnalysisBroken("anchor vanished: %s::_ensure_capacity" % rec["qn"])
            sizef = _size_field(unit, rec, cls_fns(unit, rec["qn"]))
            for f in fns:
                loops = for_loops(f)
                moves, dtors = [], []
                for lp in loops:
                    for n in f.events():
                        if not lp.contains(n):
                            continue
                        if n.kind == "CXXNewExpr" and n.get("placement"):
                            moves.append(lp)
                        if is_dtor_call(n) is not None:
                            dtors.append(lp)
                if len(moves) != 1 or len(dtors) != 1:
                    ctx.inst(rule, "%s::_ensure_capacity" % cls, False, f.loc,
                             "expected one relocation loop and one destruction loop, found %d and %d" % (len(moves), len(dtors)), f)
                    continue
                mb, db = moves[0].bound_canon(), dtors[0].bound_canon()
                ms, ds = moves[0].start_canon(), dtors[0].start_canon()
                want = "this.%s" % sizef
                ok = mb == db == want and ms == ds == "0" and moves[0].op == dtors[0].op == "<"
                ctx.inst(rule, "%s::_ensure_capacity" % cls, ok, f.loc,
                         "relocates [%s, %s), destroys [%s, %s), live range is [0, %s) (instantiation %s)" % (ms, mb, ds, db, want, rec["qn"]), f)


# ---- R: forwarded pack consumed once -------------------------------------------------

def check_forward_once(ctx, unit, classes, rule="R.forward-once"):
    ctx.rule(rule, "an argument forwarded as an rvalue (std::forward<T> with non-reference T, std::move of a parameter) is "
             "consumed at most once per activation: never inside a loop body", 2)
    for cls in classes:
        for rec in recs_of(unit, cls):
            for f in cls_fns(unit, rec["qn"]):
                pids = {p["d"] for p in f.params()}
                cyc = None
                sites = []
                for n in f.events():
                    if n.kind == "CallExpr" and n.callee and n.callee["uq"] in ("std::forward", "std::move") and n.args:
                        a = n.args[0].strip()
                        if a.kind == "DeclRefExpr" and a.d["d"] in pids:
                            # xvalue result?
                            if n.callee["uq"] == "std::forward":
                                ta = n.callee.get("targs", "")
                                if ta.rstrip(">").rstrip().endswith("&") and not ta.rstrip(">").rstrip().endswith("&&"):
                                    continue   # forwarded as lvalue: copying is repeatable
                            sites.append(n)
                if not sites:
                    continue
                cyc = in_cycle_blocks(f)
                pos = f.positions()
                bad = [n for n in sites if pos[n.id][0] in cyc]
                ctx.inst(rule, "%s::%s<%s>" % (cls, f.name, f.get("targs", "").strip("<>")), not bad, (bad[0].loc if bad else f.loc),
                         ("%s of parameter inside a loop at %s: the second and later iterations receive a moved-from argument"
                          % (bad[0].callee["uq"], bad[0].loc)) if bad else "%d rvalue-forwarding sites, none in a loop" % len(sites), f)


# ---- O2: owners release, no implicit shallow copies ---------------------------------------

def check_owner_specials(ctx, unit, classes, rule="O2.owner-specials"):
    ctx.rule(rule, "a class that allocates has a user-provided destructor that releases, and its copy constructor and copy "
             "assignment are user-provided or deleted (an implicit member-wise copy of an owning pointer double-frees)", len(classes))
    for cls in classes:
        for rec in recs_of(unit, cls):
            fns = cls_fns(unit, rec["qn"])
            allocs = sum(len(alloc_calls(f)) for f in fns)
            sp = rec["special"]
            problems = []
            if allocs == 0:
                ctx.broken("%s no longer allocates: remove it from the owner table" % rec["qn"])
                continue
            dt = [f for f in fns if f.kind == "dtor"]
            if not sp["has_user_dtor"] or not dt:
                problems.append("no user-provided destructor: everything it allocates is leaked")
            else:
                rel = sum(len(free_calls(f)) for f in dt)
                if rel == 0:
                    # destructor may delegate (clear(), pop loop)
                    deleg = [n for f in dt for n in f.events() if n.kind == "CXXMemberCallExpr" and path(n.child("obj")) == ("this",)]
                    if not deleg:
                        problems.append("destructor releases nothing")
            if sp["simple_copy_ctor"]:
                problems.append("implicit member-wise copy constructor is available (shallow copy of the owning pointer)")
            if sp["simple_copy_assign"]:
                problems.append("implicit member-wise copy assignment is available (shallow copy of the owning pointer)")
            ctx.inst(rule, cls, not problems, rec["loc"],
                     "; ".join(problems) if problems else "%d allocation sites; destructor releases; copies user-provided or deleted (instantiation %s)"
                     % (allocs, rec["qn"]))


# ---- O4: destroy before free ----------------------------------------------------------------

def check_destroy_before_free(ctx, unit, classes, rule="O4.destroy-before-free"):
    ctx.rule(rule, "storage that holds constructed elements is given back only after their destructors ran: every free/"
             "deallocate of an element buffer is dominated by the destruction of its live elements", len(classes))
    for cls in classes:
        for rec in recs_of(unit, cls):
            n_sites = 0
            for f in cls_fns(unit, rec["qn"]):
                inits = RA.local_inits(f)
                loops = None
                for n in free_calls(f):
                    if not n.args and n.kind != "CXXMemberCallExpr":
                        continue
                    a = n.args[0] if n.kind == "CXXMemberCallExpr" else n.args[1]
                    if n.kind == "CallExpr":
                        continue   # frg::destruct runs the destructor itself
                    if (a.strip().get("prt") or a.get("prt")) != ELEM and ELEM not in (a.strip().get("t") or ""):
                        src = RA.resolve_local(f, a, inits)
                        if (src.get("prt") or "") != ELEM and ELEM not in (src.get("t") or ""):
                            continue
                    n_sites += 1
                    # what is freed: field path or a local copy of it
                    src = RA.resolve_local(f, a, inits)
                    tgt = path(src) or path(a)
                    ok = False
                    why = "no destructor call on the elements of %s dominates the release" % ".".join(tgt or ("?",))
                    loops = loops if loops is not None else for_loops(f)
                    for d in f.events():
                        obj = is_dtor_call(d)
                        if obj is None:
                            continue
                        op = path(obj)
                        osrc = None
                        if op and op[0].startswith("v:"):
                            # container = _get_container(): local alias of the buffer
                            osrc = "alias"
                        same = op is not None and tgt is not None and (op[:len(tgt)] == tgt or osrc == "alias"
                                                                         or (tgt[0].startswith("v:") and op[0] == tgt[0]))
                        if not same:
                            continue
                        lp = [l for l in loops if l.contains(d)]
                        if lp:
                            # loop header block dominates the free
                            cb = lp[0].header
                            if cb is not None and f.dominates_block(cb, f.positions()[n.id][0]):
                                ok, why = True, "destruction loop over [%s, %s) precedes the release" % (lp[0].start_canon(), lp[0].bound_canon())
                        elif f.dominates(d.id, n.id):
                            ok, why = True, "element destroyed at %s before the release" % d.loc
                    ctx.inst(rule, "%s::%s: release of %s" % (cls, f.name, ".".join(tgt or ("?",)).split("#")[0]), ok, n.loc,
                             why + " (instantiation %s)" % rec["qn"], f)
            if n_sites == 0:
                ctx.broken("%s: no release of an element buffer found (anchor vanished)" % rec["qn"])


# ---- O1: local allocation escapes or is freed --------------------------------------------------

NON_OWNING = {"memcpy", "memset", "memmove", "strlen", "__builtin_memcpy", "__builtin_memset"}


def check_local_allocs(ctx, unit, fns, rule="O1.alloc-escapes"):
    for f in fns:
        calls = alloc_calls(f)
        if not calls:
            continue
        calls.sort(key=lambda n: n.loc)
        for i, call in enumerate(calls):
            inst = "%s: allocation #%d" % (f.sig, i + 1)
            # how is the result bound?
            n = call
            p = f.parent(n)
            while p is not None and p.kind in ("ImplicitCastExpr", "ParenExpr", "CStyleCastExpr", "CXXStaticCastExpr",
                                               "CXXReinterpretCastExpr", "ExprWithCleanups", "CXXFunctionalCastExpr"):
                n, p = p, f.parent(p)
            did = None
            bind = None
            if p is None or p.kind == "DeclStmt":
                for x in f.all_nodes():
                    if x.kind == "DeclStmt":
                        for d in x.get("decls", []):
                            if d.get("init") == n.id:
                                did, bind = d["d"], x
            elif p.kind == "BinaryOperator" and p.op == "=" and p.children[1].id == n.id:
                lp = path(p.children[0])
                if lp and len(lp) > 1:
                    ctx.inst(rule, inst, True, call.loc, "stored directly into %s" % ".".join(lp), f)
                    continue
                l = p.children[0].strip()
                if l.kind == "DeclRefExpr":
                    did, bind = l.d["d"], p
            elif p.kind == "ReturnStmt":
                ctx.inst(rule, inst, True, call.loc, "returned to the caller", f)
                continue
            elif p.kind == "CXXNewExpr":
                # new (allocate(...)) T{...}: the new-expression's value carries the block
                q, pp = p, f.parent(p)
                while pp is not None and pp.kind in ("ImplicitCastExpr", "ParenExpr"):
                    q, pp = pp, f.parent(pp)
                if pp is not None and pp.kind == "ReturnStmt":
                    ctx.inst(rule, inst, True, call.loc, "constructed in place and returned", f)
                    continue
                for x in f.all_nodes():
                    if x.kind == "DeclStmt":
                        for d in x.get("decls", []):
                            if d.get("init") == q.id:
                                did, bind = d["d"], x
            elif p.kind == "CtorInit" or (p.kind == "InitListExpr"):
                ctx.inst(rule, inst, True, call.loc, "initialises a member", f)
                continue
            if did is None:
                ctx.inst(rule, inst, False, call.loc, "result of %s is not bound to anything that can own it" % canon(call)[:60], f)
                continue

            xs = {did}
            # y = new (x) T(...) : y designates the same block
            grew = True
            while grew:
                grew = False
                for x in f.all_nodes():
                    if x.kind == "DeclStmt":
                        for d in x.get("decls", []):
                            if "init" in d and d["d"] not in xs:
                                iv = f.node(d["init"]).strip()
                                if iv.kind == "CXXNewExpr" and iv.get("placement") and iv.get("pargs"):
                                    pa = std_unwrap(f.node(iv.get("pargs")[0]))
                                    if pa.kind == "DeclRefExpr" and pa.d["d"] in xs:
                                        xs.add(d["d"])
                                        grew = True
                                else:
                                    # y = x, or y = helper(...) where the (virtually inlined) helper returns x
                                    cp = std_unwrap(iv)
                                    if cp.kind == "DeclRefExpr" and cp.d["d"] in xs:
                                        xs.add(d["d"])
                                        grew = True

            def is_x(m):
                m = std_unwrap(m)
                if m.kind == "CXXNewExpr" and m.get("placement") and m.get("pargs"):
                    return is_x(f.node(m.get("pargs")[0]))
                return m.kind == "DeclRefExpr" and m.d["d"] in xs

            def transfer(m, s, did=did, bind=bind):
                if m.id == bind.id:
                    return ["held"]
                if s != "held":
                    return [s]
                w = write_of(m)
                if w and w[1] is not None and is_x(w[1]) and w[0] is not None and len(w[0]) > 1:
                    return ["escaped"]
                if w and w[1] is not None and is_x(w[1]) and w[0] is None:
                    return ["escaped"]
                if m.kind == "ReturnStmt":
                    v = m.child("val")
                    if v is not None and is_x(v.strip()):
                        return ["escaped"]
                if m.is_call() and m.callee:
                    nm = m.callee["n"]
                    if nm in NON_OWNING:
                        return [s]
                    if (m.callee["n"] in ("free", "deallocate") and m.callee.get("cls") == "wit::Alloc") or \
                            m.callee["uq"] in ("frg::destruct", "frg::destruct_n"):
                        if any(is_x(a) for a in m.args):
                            return ["freed"]
                    pts = m.callee.get("ptypes", [])
                    for a, t in zip(m.args, pts):
                        if is_x(a):
                            tt = t.replace(" ", "")
                            if tt.startswith("const") and tt.endswith("*"):
                                continue    # pointer to const: the callee cannot own or free it
                            if "*" in tt or tt.endswith("&"):
                                return ["escaped"]
                if m.kind == "CtorInit" and m.child("init") is not None and is_x(m.child("init")):
                    return ["escaped"]
                return [s]

            _, ex = flow.run(f, [None], transfer, None)
            leak = "held" in ex
            ctx.inst(rule, inst, not leak, call.loc,
                     "on some path the block is neither stored in an owning place, returned, handed to an owning "
                     "parameter nor freed (a pointer-to-const parameter does not take ownership)" if leak else
                     "escapes or is freed on every path", f)


# ---- O3: allocate / deallocate size agreement ----------------------------------------------------

def check_size_agreement(ctx, unit, classes, rule="O3.size-agreement"):
    ctx.rule(rule, "the size passed to deallocate for a buffer field is the size it was allocated with (allocation size "
             "expression with the capacity local replaced by the field it is stored in)", len(classes))
    for cls in classes:
        for rec in recs_of(unit, cls):
            fns = cls_fns(unit, rec["qn"])
            # allocation size expressions per buffer field, with locals replaced by the fields they end up in
            alloc_sz = {}
            for f in fns:
                inits = RA.local_inits(f)
                # local -> field it is assigned to (this.F = local)
                l2f = {}
                for n in f.events():
                    w = write_of(n)
                    if w and w[0] and len(w[0]) == 2 and w[0][0] == "this" and w[1] is not None:
                        v = w[1].strip()
                        if v.kind == "DeclRefExpr" and v.get("local"):
                            l2f[v.d["d"]] = "this.%s" % w[0][1]
                for n in f.events():
                    if n.kind == "CXXMemberCallExpr" and n.callee and n.callee["n"] == "allocate" and n.callee.get("cls") == "wit::Alloc":
                        # which field receives it?
                        p, c = f.parent(n), n
                        while p is not None and p.kind in ("ImplicitCastExpr", "ParenExpr", "CStyleCastExpr", "CXXReinterpretCastExpr", "CXXStaticCastExpr"):
                            c, p = p, f.parent(p)
                        fld = None
                        if p is not None and p.kind == "BinaryOperator" and p.op == "=":
                            lp = path(p.children[0])
                            if lp and len(lp) == 2 and lp[0] == "this":
                                fld = lp[1]
                        if fld is None:
                            for x in f.all_nodes():
                                if x.kind == "DeclStmt":
                                    for d in x.get("decls", []):
                                        if d.get("init") == c.id and d["d"] in l2f:
                                            fld = l2f[d["d"]].split(".", 1)[1]
                        if fld is None:
                            continue
                        alloc_sz.setdefault(fld, set()).add(canon(n.args[0], l2f))
            cnt = 0
            for f in fns:
                inits = RA.local_inits(f)
                for n in f.events():
                    if n.kind == "CXXMemberCallExpr" and n.callee and n.callee["n"] == "deallocate" and n.callee.get("cls") == "wit::Alloc":
                        a = RA.resolve_local(f, n.args[0], inits)
                        tp = path(a) or path(n.args[0])
                        fld = tp[1] if tp and len(tp) >= 2 and tp[0] == "this" else None
                        if fld is None:
                            # container = _get_container() style alias: attribute to the only buffer field
                            cands = [k for k in alloc_sz]
                            fld = cands[0] if len(cands) == 1 else None
                        if fld is None or fld not in alloc_sz:
                            continue
                        cnt += 1
                        sz = canon(n.args[1])
                        ok = sz in alloc_sz[fld]
                        ctx.inst(rule, "%s::%s: deallocate(%s) #%d" % (cls, f.name, fld, cnt), ok, n.loc,
                                 "deallocate size %s; allocation sizes recorded for %s: %s (instantiation %s)" % (
                                     sz, fld, sorted(alloc_sz[fld]), rec["qn"]), f)
            if cnt == 0:
                ctx.broken("%s: no deallocate site with a size found (anchor vanished)" % rec["qn"])


# ---- B1: constant subscripts of fixed-extent member arrays ------------------------------------------

def check_const_subscripts(ctx, unit, classes, rule="B1.const-subscript"):
    ctx.rule(rule, "every constant subscript of a fixed-extent member array is < extent (== extent only directly under &)", len(classes))
    for cls in classes:
        cls_cnt = 0
        for rec in recs_of(unit, cls):
            ext = {fl["n"]: int(fl["extent"]) for fl in rec["fields"] if fl.get("extent")}
            if not ext:
                raise AnalysisBroken("anchor vanished: %s has no fixed-extent member array" % rec["qn"])
            cnt = 0
            for f in cls_fns(unit, rec["qn"]):
                k = 0
                for n in sorted([x for x in f.events() if x.kind == "ArraySubscriptExpr"], key=lambda x: x.loc):
                    bp = path(n.children[0])
                    if not bp or bp[-1] not in ext or len(bp) != 2:
                        continue
                    c = n.children[1].strip().cv()
                    if c is None:
                        continue
                    k += 1
                    cnt += 1
                    par = f.parent(n)
                    under_addr = par is not None and par.kind == "UnaryOperator" and par.op == "&"
                    ok = 0 <= c < ext[bp[-1]] or (under_addr and c == ext[bp[-1]])
                    ctx.inst(rule, "%s::%s%s: %s[%d] #%d" % (cls, f.name, " const" if f.get("const") else "", bp[-1], c, k),
                             ok, n.loc, "index %d, extent %d%s (instantiation %s)" % (c, ext[bp[-1]], ", address only" if under_addr else "", rec["qn"]), f)
            cls_cnt += cnt        # implicit (partial) instantiations may have none of the accessors with constant subscripts
        if cls_cnt == 0:
            ctx.broken("%s: no constant subscripts found in any instantiation" % cls)


# ---- small_vector: inline / heap selection ---------------------------------------------------------

def check_small_vector_selection(ctx, unit, cls="frg::small_vector", rule="E.inline-heap-predicate"):
    """Name-free and spelling-free: the capacity field is the integer field the default constructor initialises
    with the inline extent N, the heap field is the pointer-typed field; the branch decisions dominating each
    site (direct comparisons or calls of one-line bool member predicates, which are evaluated through their
    return expression) are evaluated under every valuation cap,other in {N-1, N, N+1}: the heap pointer may be
    returned / deallocated only when every consistent valuation has cap > N, the inline buffer only when every
    consistent valuation has cap <= N."""
    ctx.rule(rule, "small_vector decides inline vs. heap storage by a condition equivalent to capacity <= N (N = inline extent): "
             "the heap pointer is returned only when capacity > N, the inline buffer only when capacity <= N, and the destructor "
             "deallocates only when capacity > N (conditions evaluated semantically, through predicate helpers)", 5)
    import itertools
    for rec in recs_of(unit, cls):
        fns = cls_fns(unit, rec["qn"])
        heap = [fl["n"] for fl in rec["fields"] if fl.get("ptr")]
        capf, N = None, None
        for f in fns:
            if f.kind != "ctor":
                continue
            for n in f.events():
                if n.kind == "CtorInit" and n.get("field") and n.get("init") is not None:
                    iv = f.node(n.get("init"))
                    x = iv
                    while x is not None and x.kind in ("ImplicitCastExpr", "ParenExpr") and x.children:
                        x = x.children[0]
                    if x is not None and x.kind == "SubstNonTypeTemplateParmExpr" and iv.strip().cv() is not None:
                        capf, N = n.get("field"), iv.strip().cv()
        if len(heap) != 1 or capf is None:
            raise AnalysisBroken("anchor vanished: %s: heap pointer field / capacity field initialised with the inline extent" % rec["qn"])
        heap = heap[0]
        inline = [fl["n"] for fl in rec["fields"] if fl.get("rt") == "frg::array"]
        ints = [fl["n"] for fl in rec["fields"] if not fl.get("ptr") and not fl.get("rt")]
        by_name = {}
        for f in fns:
            by_name.setdefault(f.name, []).append(f)

        def ev(node, valuation, depth=0):
            def leaf(x):
                x = x.strip()
                p = path(x)
                if p and len(p) == 2 and p[0] == "this" and p[1] in valuation:
                    return valuation[p[1]]
                if x.kind == "CXXMemberCallExpr" and x.callee and depth < 3:
                    for g in by_name.get(x.callee["n"], ()):
                        rs = g.return_nodes()
                        if len(rs) == 1 and rs[0].child("val") is not None and not g.params():
                            return ev(rs[0].child("val"), valuation, depth + 1)
                return None
            return flow.sem_eval(node, leaf)

        vals = [dict(zip(ints, c)) for c in itertools.product((N - 1, N, N + 1), repeat=len(ints))]

        def consistent(f, node_id):
            facts = flow.facts_at(f, node_id)
            out = []
            for v in vals:
                ok = True
                for cond, truth in facts:
                    r = ev(cond, v)
                    if r is not None and bool(r) != truth:
                        ok = False
                        break
                if ok:
                    out.append(v)
            return out

        def judge(f, node, want_heap, what, k):
            cons = consistent(f, node.id)
            bad = [v for v in cons if (v[capf] > N) != want_heap]
            ctx.inst(rule, "%s::%s%s: %s #%d" % (cls, f.name, " const" if f.get("const") else "", what, k), not bad, node.loc,
                     "%s under a condition that admits %s=%s with inline extent %d" % (what, capf, sorted({v[capf] for v in bad}), N)
                     if bad else "%s only when %s %s %d" % (what, capf, ">" if want_heap else "<=", N), f)

        for f in fns:
            k = 0
            for r in f.return_nodes():
                v = r.child("val")
                if v is None or "*" not in (f.get("ret") or ""):
                    continue
                p = path(std_unwrap(v))
                if p == ("this", heap):
                    k += 1
                    judge(f, r, True, "heap pointer returned", k)
                elif any(x.kind == "MemberExpr" and x.get("mk") == "Field" and x.m in inline and path(x) == ("this", x.m) for x in v.walk()):
                    k += 1
                    judge(f, r, False, "inline buffer returned", k)
            if f.kind == "dtor":
                for i, n in enumerate(free_calls(f)):
                    if n.kind == "CXXMemberCallExpr":
                        judge(f, n, True, "heap buffer released", i + 1)


# ---- O7: no use after destroy / free ------------------------------------------------------------------

def check_no_use_after_release(ctx, unit, fns, rule="O7.no-use-after-release"):
    """After frg::destruct(a, x) / a.free(x) / a.deallocate(x, n) with x a local pointer, x is not
    dereferenced or passed on until it is reassigned."""
    for f in fns:
        rel = []
        for n in free_calls(f):
            a = n.args[0] if n.kind == "CXXMemberCallExpr" else (n.args[1] if len(n.args) > 1 else None)
            if a is None:
                continue
            v = std_unwrap(a)
            if v.kind == "DeclRefExpr" and v.get("local") and v.get("dk") == "Var":
                rel.append((n, v.d["d"], v.n))
        if not rel:
            continue
        rel.sort(key=lambda x: x[0].loc)
        for i, (call, did, name) in enumerate(rel):
            bad = []

            def transfer(m, s, call=call, did=did):
                if m.id == call.id:
                    return ["dead"]
                if s != "dead":
                    return [s]
                w = write_of(m)
                if w and w[0] and len(w[0]) == 1 and w[0][0].endswith("#%d" % did):
                    return ["live"]
                if m.kind == "DeclStmt" and any(d["d"] == did for d in m.get("decls", [])):
                    return ["live"]
                if m.kind == "MemberExpr":
                    p = path(m)
                    if p and len(p) > 1 and p[0].endswith("#%d" % did) and m.get("arrow"):
                        bad.append("field %s read through the released pointer at %s" % (p[-1], m.loc))
                if m.kind == "UnaryOperator" and m.op == "*":
                    p = path(m.children[0])
                    if p and len(p) == 1 and p[0].endswith("#%d" % did):
                        bad.append("released pointer dereferenced at %s" % m.loc)
                if m.is_call() and m.id != call.id:
                    for a in m.args:
                        v = std_unwrap(a)
                        if v.kind == "DeclRefExpr" and v.d["d"] == did:
                            bad.append("released pointer passed to %s at %s" % (canon(m)[:40], m.loc))
                return [s]
            flow.run(f, ["live"], transfer, None)
            ctx.inst(rule, "%s: release #%d of %s" % (f.sig, i + 1, name), not bad, call.loc,
                     "; ".join(sorted(set(bad))) if bad else "no access through the pointer after its release", f)


# ---- W2: type-level witnesses -----------------------------------------------------------------------

def check_typelevel(ctx, rule, prefix, minimum, unit="typelevel"):
    """static_asserts of tu/typelevel.cpp whose message starts with `prefix`: each is one instance,
    decided by the compiler's constant evaluator on /repo's current types."""
    from .ir import load_unit
    u = load_unit(unit, extra_flags=("-fconstexpr-steps=200000000",))
    ctx.use_unit(u)
    from .ir import ROOT
    other = [e for e in u.diagnostics if e["level"] == "error" and "static_assert" not in e["text"]
             and "static assertion" not in e["text"]]
    own = [e for e in u.diagnostics if e["level"] == "error" and e["file"].startswith(ROOT)
           and ("static_assert" in e["text"] or "static assertion" in e["text"])]
    seen = set()
    for e in own:
        if e["text"] in seen:
            continue
        seen.add(e["text"])
        ctx.inst(rule, "repository static_assert: %s" % e["text"][:120], False, "%s:%s" % (e["file"], e["line"]),
                 "the repository's own compile-time check fails when the class is instantiated")
    if other:
        raise AnalysisBroken("type-level witness unit does not compile: %s" % "; ".join(
            "%s:%s: %s" % (e["file"], e["line"], e["text"]) for e in other[:3]))
    n = 0
    for sa in u.d.get("static_asserts", []):
        msg = sa.get("msg", "")
        if not msg.startswith(prefix):
            continue
        n += 1
        ok = (not sa["failed"]) and sa["evaluated"] and sa["value"]
        ctx.inst(rule, msg, ok, sa["loc"], "static_assert %s" % ("holds" if ok else "FAILS on the current tree"))
    if n < minimum:
        raise AnalysisBroken("type-level witnesses with prefix %r: found %d, expected at least %d" % (prefix, n, minimum))


# ---- K: a local pointer into the container's storage is stale after a reallocation ---------------------------

def check_stale_buffer(ctx, unit, classes, rule="K.stale-buffer"):
    ctx.rule(rule, "a local that designates the container's storage (from a storage accessor such as _get_container() or a copy "
             "of the buffer field) is not dereferenced after a call that may replace that storage (_ensure_capacity, rehash, "
             "resize ...) without being fetched again", len(classes))
    for cls in classes:
        for rec in recs_of(unit, cls):
            fns = cls_fns(unit, rec["qn"])
            by_did = {f.did: f for f in fns}
            ptr_fields = {fl["n"] for fl in rec["fields"] if fl.get("ptr")}
            reads, writes = {}, {}
            for f in fns:
                r, w = set(), set()
                for n in f.events():
                    if n.kind == "MemberExpr" and n.get("mk") == "Field" and path(n) and path(n)[0] == "this" and len(path(n)) == 2:
                        r.add(n.m)
                    ww = write_of(n)
                    if ww and ww[0] and ww[0][0] == "this" and len(ww[0]) >= 2 and n.kind != "CtorInit":
                        w.add(ww[0][1])
                reads[f.did], writes[f.did] = r, w
            changed = True
            while changed:
                changed = False
                for f in fns:
                    for n in f.events():
                        if n.is_call() and n.callee and n.callee["did"] in by_did and n.callee["did"] != f.did:
                            obj = n.child("obj") if n.kind == "CXXMemberCallExpr" else None
                            if obj is not None and path(obj) == ("this",):
                                c = n.callee["did"]
                                if not reads[c] <= reads[f.did]:
                                    reads[f.did] |= reads[c]; changed = True
                                if not writes[c] <= writes[f.did]:
                                    writes[f.did] |= writes[c]; changed = True
            n_locals = 0
            for f in fns:
                if f.kind == "dtor":
                    continue
                inits = RA.local_inits(f)
                dep = {}
                for did, init in inits.items():
                    v = std_unwrap(init)
                    if not ((v.get("t") or "").rstrip().endswith("*")):
                        continue
                    if v.kind == "CXXMemberCallExpr" and v.callee and v.callee["did"] in by_did and path(v.child("obj")) == ("this",):
                        r = reads[v.callee["did"]] & (ptr_fields | {"_capacity", "_size"})
                        if r & ptr_fields:
                            dep[did] = r
                    else:
                        p = path(v)
                        if p and p[0] == "this" and len(p) == 2 and p[1] in ptr_fields:
                            dep[did] = {p[1]}
                if not dep:
                    continue
                n_locals += len(dep)
                bad = []

                def transfer(n, s, f=f, dep=dep):
                    if n.kind == "DeclStmt":
                        for d in n.get("decls", []):
                            if d["d"] in dep:
                                s = s | {d["d"]}
                    if n.is_call() and n.callee and n.callee["did"] in by_did and n.kind == "CXXMemberCallExpr" \
                            and path(n.child("obj")) == ("this",):
                        w = writes[n.callee["did"]]
                        s = frozenset(d for d in s if not (dep[d] & w))
                    ww = write_of(n)
                    if ww and ww[0] and ww[0][0] == "this" and len(ww[0]) == 2 and n.kind != "CtorInit":
                        # a direct store to the buffer field: locals copied from it keep the OLD block on purpose
                        # (old = _ptr; _ptr = p; free(old)) — only a later *dereference* is suspicious
                        s = frozenset(d for d in s if ww[0][1] not in dep[d])
                    deref = None
                    if n.kind == "ArraySubscriptExpr":
                        deref = std_unwrap(n.children[0])
                    elif n.kind == "UnaryOperator" and n.op == "*":
                        deref = std_unwrap(n.children[0])
                    elif n.kind == "MemberExpr" and n.get("arrow") and n.children:
                        deref = std_unwrap(n.children[0])
                    if deref is not None and deref.kind == "DeclRefExpr" and deref.d["d"] in dep and deref.d["d"] not in s:
                        bad.append("%s is dereferenced at %s after the storage it points into may have been replaced" % (deref.n, n.loc))
                    return [s]
                flow.run(f, [frozenset()], transfer, None, limit=200000)
                ctx.inst(rule, "%s::%s" % (cls, f.sig.split("::")[-1]), not bad, f.loc,
                         "; ".join(sorted(set(bad))[:2]) if bad else "%d storage pointers, none used after a reallocating call" % len(dep), f)
            if n_locals == 0:
                ctx.broken("%s: no local storage pointers found (anchor vanished)" % rec["qn"])
