"""O/P/R — ownership, lifetime and accessor rules for the containers and holders (C13, C16, C17)."""
from .ir import path, canon, std_unwrap, AnalysisBroken, climb
from . import flow
from . import rules_atomic as RA
from .rules_guard import write_of

ELEM = "wit::Elem"


def cls_fns(unit, recqn):
    return [f for f in unit.functions if f.owner_clsqn == recqn]


def recs_of(unit, cls):
    r = unit.record(cls)
    if not r:
        raise AnalysisBroken("anchor vanished: class %s not instantiated in unit %s" % (cls, unit.name))
    return r


# ---- loops ----------------------------------------------------------------

class Loop:
    """A counting loop seen through the CFG (natural loop + induction variable), independent of whether the
    source spells it `for`, `while` or `do`."""

    def __init__(self, fn, nl, var, info):
        self.fn, self.nl = fn, nl
        self.ivar = var
        self.start = info.get("init")
        b = info.get("bound") or (None, None)
        self.op, self.bound = b[0], b[1]
        self.offset = info.get("offset")        # loop runs while ivar + offset OP bound
        self.steps = info.get("steps", [])
        self.header = nl.header

    def contains(self, n):
        return self.nl.contains(n)

    def bound_canon(self, env=None):
        return canon(self.bound, env) if self.bound is not None else None

    def start_canon(self, env=None):
        return canon(self.start, env) if self.start is not None else None

    def step_of(self):
        """(kind, operand node): ('+=', node) / ('++', None) / ('--', None) if the variable has exactly one step."""
        if len(self.steps) != 1:
            return None
        s = self.steps[0]
        if s.kind == "UnaryOperator":
            return (s.op, None)
        if s.kind == "CompoundAssignOperator":
            return (s.op, s.children[1])
        return ("=", s.children[1])


def for_loops(fn):
    """Counting loops of fn (kept under its historical name): one entry per (natural loop, induction variable)."""
    out = []
    for nl in flow.natural_loops(fn):
        for var, info in flow.induction(fn, nl).items():
            if info.get("steps"):
                out.append(Loop(fn, nl, var, info))
    return out


def in_cycle_blocks(fn):
    """Blocks that lie on a CFG cycle."""
    out = set()
    for b in fn.blocks:
        seen, st = set(), list(fn.blocks[b].live_succs())
        while st:
            x = st.pop()
            if x == b:
                out.add(b)
                break
            if x in seen:
                continue
            seen.add(x)
            st.extend(fn.blocks[x].live_succs())
    return out


def is_dtor_call(n):
    """Explicit destructor call element -> object expression node, else None."""
    if n.kind == "CXXMemberCallExpr" and n.callee and n.callee["kind"] == "dtor":
        return n.child("obj")
    if n.kind == "CallExpr" and not n.callee:
        f = n.child("fn")
        if f is not None and f.strip().kind == "CXXPseudoDestructorExpr":
            ch = f.strip().children
            return ch[0] if ch else None
    return None


def alloc_calls(fn):
    """Calls that obtain raw memory / a constructed object from an allocator."""
    out = []
    for n in fn.events():
        if n.kind == "CXXMemberCallExpr" and n.callee and n.callee["n"] == "allocate" and n.callee.get("cls") == "wit::Alloc":
            out.append(n)
        elif n.kind == "CallExpr" and n.callee and n.callee["uq"] in ("frg::construct", "frg::construct_n"):
            out.append(n)
    return out


def free_calls(fn):
    out = []
    for n in fn.events():
        if n.kind == "CXXMemberCallExpr" and n.callee and n.callee["n"] in ("free", "deallocate") and n.callee.get("cls") == "wit::Alloc":
            out.append(n)
        elif n.kind == "CallExpr" and n.callee and n.callee["uq"] in ("frg::destruct", "frg::destruct_n"):
            out.append(n)
    return out


# ---- P: emptiness polarity, front/back ----------------------------------------

def _size_field(unit, rec, fns):
    """The field whose zero-ness means 'empty': what size() returns, else a front pointer."""
    for f in fns:
        if f.name == "size" and not f.params():
            for r in f.return_nodes():
                v = r.child("val")
                p = path(v) if v is not None else None
                if p and len(p) == 2 and p[0] == "this":
                    return p[1]
    names = [x["n"] for x in rec["fields"]]
    for cand in ("_front", "_root"):
        if cand in names:
            return cand
    return None


def truth_when(fn, unit, n, field, zero, depth=0):
    """Truth value of boolean expression n when this-><field> is zero (zero=True) or non-zero."""
    n = n.strip()
    if depth > 8:
        return None
    k = n.kind
    p = path(n)
    if p == ("this", field):
        return not zero
    c = n.cv()
    if c is not None and k != "DeclRefExpr":
        return c != 0
    if k == "UnaryOperator" and n.op == "!":
        v = truth_when(fn, unit, n.children[0], field, zero, depth + 1)
        return None if v is None else (not v)
    if k == "BinaryOperator" and n.op in ("==", "!="):
        a, b = n.children
        for x, y in ((a, b), (b, a)):
            yc = y.strip().cv()
            if yc == 0 or y.strip().get("nullc") or y.strip().kind == "CXXNullPtrLiteralExpr":
                v = truth_when(fn, unit, x, field, zero, depth + 1)
                if v is None:
                    return None
                return (not v) if n.op == "==" else v
        return None
    if k in ("CXXMemberCallExpr",) and n.callee:
        t = unit.by_did.get(n.callee["did"])
        obj = n.child("obj")
        if t is not None and obj is not None and path(obj) == ("this",):
            rs = t.return_nodes()
            if len(rs) == 1 and rs[0].child("val") is not None:
                return truth_when(t, unit, rs[0].child("val"), field, zero, depth + 1)
    if k in ("ImplicitCastExpr",) and n.children:
        return truth_when(fn, unit, n.children[0], field, zero, depth + 1)
    return None


def check_empty(ctx, unit, classes, rule="P.empty"):
    ctx.rule(rule, "empty() is true exactly when the size field (what size() returns, or the front pointer) is zero", len(classes))
    for cls in classes:
        for rec in recs_of(unit, cls):
            fns = cls_fns(unit, rec["qn"])
            es = [f for f in fns if f.name == "empty"]
            if not es:
                raise AnalysisBroken("anchor vanished: %s::empty" % rec["qn"])
            field = _size_field(unit, rec, fns)
            for f in es:
                rs = f.return_nodes()
                if len(rs) != 1 or rs[0].child("val") is None:
                    ctx.broken("%s: empty() has an unexpected shape" % f.qn)
                    continue
                v = rs[0].child("val")
                # delegation to a member container's empty()
                vs = v.strip()
                if vs.kind == "CXXMemberCallExpr" and vs.callee and vs.callee["n"] == "empty" and path(vs.child("obj")) and len(path(vs.child("obj"))) == 2:
                    ctx.inst(rule, "%s::empty" % cls, True, f.loc, "delegates to %s" % vs.callee["uq"], f, nontrivial=False)
                    continue
                if field is None:
                    ctx.broken("%s: cannot determine the size field" % rec["qn"])
                    continue
                tz = truth_when(f, unit, v, field, True)
                tn = truth_when(f, unit, v, field, False)
                ok = tz is True and tn is False
                ctx.inst(rule, "%s::empty" % cls, ok, f.loc,
                         "returns %s; with %s == 0 -> %s, with %s != 0 -> %s (instantiation %s)" % (
                             canon(v), field, tz, field, tn, rec["qn"]), f)


def check_front_back(ctx, unit, classes, rule="P.front-back"):
    ctx.rule(rule, "front() subscripts element 0 and back() element size-1 of the container's buffer", len(classes))
    for cls in classes:
        for rec in recs_of(unit, cls):
            fns = cls_fns(unit, rec["qn"])
            field = _size_field(unit, rec, fns)
            for f in fns:
                if f.name not in ("front", "back") or f.params():
                    continue
                rs = f.return_nodes()
                if len(rs) != 1:
                    continue
                v = rs[0].child("val").strip()
                if v.kind == "CXXMemberCallExpr":
                    ctx.inst(rule, "%s::%s" % (cls, f.name), True, f.loc, "delegates to %s" % v.callee["uq"], f, nontrivial=False)
                    continue
                if v.kind != "ArraySubscriptExpr":
                    ctx.inst(rule, "%s::%s" % (cls, f.name), False, f.loc, "does not return a subscript of the buffer: %s" % canon(v), f)
                    continue
                idx = v.children[1].strip()
                ic = canon(idx)
                extent = None
                bp = path(v.children[0])
                if bp and len(bp) == 2:
                    for fl in rec["fields"]:
                        if fl["n"] == bp[1] and fl.get("extent"):
                            extent = int(fl["extent"])
                if f.name == "front":
                    ok = idx.cv() == 0
                    want = "0"
                elif extent is not None:
                    ok = idx.cv() == extent - 1
                    want = str(extent - 1)
                else:
                    ok = ic == "(- this.%s 1)" % field
                    want = "%s - 1" % field
                ctx.inst(rule, "%s::%s%s" % (cls, f.name, " const" if f.get("const") else ""), ok, f.loc,
                         "subscript is %s, expected %s (instantiation %s)" % (ic, want, rec["qn"]), f)


# ---- O5: relocation ranges ------------------------------------------------------

def check_relocation(ctx, unit, classes, rule="O5.relocate-range"):
    """Growth, wherever it is written (the growth helper itself, a helper it was split into, a caller it was folded into):
    a *relocation* is a placement new into a fresh allocation whose initialiser reads an element of the storage the
    container had on entry; in every member that relocates, the relocated index range, the range destroyed in the old
    storage and the live range [0, size) are the same.  Loops that construct *new* elements (from arguments, through a
    construct callback) are not relocations."""
    ctx.rule(rule, "where elements are move-constructed from the old storage into a new buffer, the relocated range equals the range "
             "destroyed in the old buffer equals the live range [0, size)", len(classes))
    for cls in classes:
        n_sites = 0
        for rec in recs_of(unit, cls):
            allf = cls_fns(unit, rec["qn"])
            sizef = _size_field(unit, rec, allf)
            sc = StorageClass(rec, allf)
            for f in allf:
                if f.kind == "dtor":
                    continue
                old = sc.on(f)
                loops = for_loops(f)

                def innermost(n):
                    best = None
                    for lp in loops:
                        if lp.contains(n) and (best is None or len(lp.nl.body) < len(best.nl.body)):
                            best = lp
                    return best
                moves, dtors, stray, move_nodes = [], [], [], []
                for n in f.events():
                    if n.kind == "CXXNewExpr" and n.get("placement") and n.get("pargs"):
                        init = n.child("init")
                        src_old = False
                        if init is not None:
                            iv = std_unwrap(init)
                            for a in (iv.args if iv.kind in ("CXXConstructExpr", "CXXTemporaryObjectExpr") else [iv]):
                                aa = std_unwrap(a)
                                if aa.kind in ("ArraySubscriptExpr", "UnaryOperator") and old(aa) is True:
                                    src_old = True
                        if old(f.node(n.get("pargs")[0])) is False and src_old:
                            lp = innermost(n)
                            (moves if lp is not None else stray).append(lp if lp is not None else n)
                            move_nodes.append(n)
                if not moves and not stray:
                    continue
                for n in f.events():
                    o = is_dtor_call(n)
                    # (only destruction that can follow the relocation: a shrink branch of the same member is a different path)
                    if o is not None and old(o) is True and any(f.reaches(m.id, n.id) for m in move_nodes):
                        lp = innermost(n)
                        if lp is not None and lp not in dtors:
                            dtors.append(lp)
                moves = [m for i, m in enumerate(moves) if m not in moves[:i]]
                n_sites += 1
                if len(moves) != 1 or len(dtors) != 1 or stray:
                    ctx.inst(rule, "%s::%s" % (cls, f.name), False, f.loc,
                             "expected one relocation loop and one destruction loop over the old storage, found %d and %d%s" % (
                                 len(moves), len(dtors), " (and a relocation outside any loop)" if stray else ""), f)
                    continue
                inits_ = RA.local_inits(f)

                def as_index(e):
                    """index of a pointer into the old storage (`_elements + k`, or a local initialised so): canon of k"""
                    x = std_unwrap(e)
                    hops = 0
                    while x.kind == "DeclRefExpr" and x.get("local") and x.d["d"] in inits_ and not RA._reassigned(f, x.d["d"]) and hops < 6:
                        x, hops = std_unwrap(inits_[x.d["d"]]), hops + 1
                    if x.kind == "BinaryOperator" and x.op == "+" and (x.get("t") or "").rstrip().endswith("*"):
                        for a_, b_ in ((x.children[0], x.children[1]), (x.children[1], x.children[0])):
                            if old(a_) is True and (std_unwrap(a_).get("t") or a_.get("t") or "").rstrip().endswith("*"):
                                return canon(std_unwrap(b_))
                    if old(x) is True and (x.get("t") or "").rstrip().endswith("*") and x.kind in ("MemberExpr", "CXXMemberCallExpr"):
                        return "0"
                    return None

                def rng(lp):
                    s_, b_, op_ = lp.start_canon(), lp.bound_canon(), lp.op
                    if lp.start is not None and lp.bound is not None:
                        si, bi = as_index(lp.start), as_index(lp.bound)
                        if si is not None and bi is not None:
                            st_ = lp.step_of()
                            # pointer iteration `for(it = base + a; it != base + b; ++it)`: the index range [a, b)
                            return si, bi, ("<" if op_ in ("<", "!=") and st_ is not None and st_[0] == "++" else op_)
                    return s_, b_, op_
                ms, mb, mop = rng(moves[0])
                ds, db, dop = rng(dtors[0])
                want = "this.%s" % sizef
                ok = mb == db == want and ms == ds == "0" and mop == dop == "<"
                cover = _grow_covers_request(f, move_nodes[0], old, sc)
                ctx.inst(rule, "%s::%s" % (cls, f.name), ok and cover is None, f.loc,
                         ("relocates [%s, %s), destroys [%s, %s), live range is [0, %s) (instantiation %s)" % (ms, mb, ds, db, want, rec["qn"]))
                         + ("; " + cover if cover else ""), f)
        if n_sites == 0:
            raise AnalysisBroken("anchor vanished: no member of %s relocates elements into a new buffer" % cls)


def _grow_covers_request(f, move_node, old, sc):
    """The fresh block that the elements are relocated into has room for the capacity that was asked for: the growth happens
    under a decision `capacity field < request` (or its negation on the other arm), and the element count of the new
    allocation minus that request is non-negative as a polynomial over non-negative quantities.  None = shown;
    otherwise the reason it could not be shown."""
    from .poly import Poly, to_poly
    inits = RA.local_inits(f)
    bind = f.bind_map()

    def leaf(x, depth=0):
        x = x.strip()
        if x.kind == "DeclRefExpr" and x.get("local") and depth < 8:
            d = x.d["d"]
            if d in bind:
                return to_poly(f.node(bind[d]), lambda y: leaf(y, depth + 1))
            if d in inits and not RA._reassigned(f, d):
                r = to_poly(inits[d], lambda y: leaf(y, depth + 1))
                if r is not None:
                    return r
            return Poly.sym("v#%d" % d)
        if x.kind == "UnaryExprOrTypeTraitExpr":
            return Poly.sym("sizeof")
        p_ = path(x)
        if p_ and len(p_) == 2:
            return Poly.sym(".".join(p_))
        return None
    # the fresh allocation the relocation writes into
    dst = f.node(move_node.get("pargs")[0])
    alloc = None
    x = std_unwrap(dst)
    hops = 0
    while x is not None and hops < 12:
        hops += 1
        if x.kind in ("UnaryOperator", "ArraySubscriptExpr", "CStyleCastExpr", "CXXReinterpretCastExpr", "CXXStaticCastExpr", "ParenExpr", "ImplicitCastExpr") and x.children:
            x = std_unwrap(x.children[0]); continue
        if x.kind == "DeclRefExpr" and x.get("local"):
            d = x.d["d"]
            if d in bind:
                x = std_unwrap(f.node(bind[d])); continue
            if d in inits:
                x = std_unwrap(inits[d]); continue
        if x.is_call() and x.callee and x.callee["n"] == "allocate" and x.args:
            alloc = x
        break
    if alloc is None:
        return None        # (not an allocate() call we can see: nothing to compare)
    sz = to_poly(alloc.args[0], leaf)
    if sz is None:
        return "the size of the new allocation (%s) is not a product of the element size and a capacity expression" % canon(alloc.args[0])[:60]
    # element count: divide by the sizeof symbol
    if not sz.t or any("sizeof" not in k for k in sz.t):
        return None
    cnt = Poly({tuple(sorted(list(k)[:list(k).index("sizeof")] + list(k)[list(k).index("sizeof") + 1:])): v for k, v in sz.t.items()})
    # the request: the other side of a dominating comparison with a field of *this that the function also stores to
    written = {write_of(n)[0][1] for n in f.events() if write_of(n) and write_of(n)[0] and write_of(n)[0][0] == "this" and len(write_of(n)[0]) == 2}
    reqs = []
    for cond, truth in flow.facts_at(f, alloc.id):
        rel = flow.fact_relation(cond, truth)
        if rel is None or rel[1] not in ("<", "<="):
            continue
        a, op, b = rel
        pa = path(a.strip())
        if pa and len(pa) == 2 and pa[0] == "this" and pa[1] in written and not sc.ptr_fields & {pa[1]}:
            pb = to_poly(b, leaf)
            if pb is not None:
                reqs.append((pb, canon(b)))
    if not reqs:
        return None        # growth is not guarded by `capacity field < request` here: a different protocol
    for pb, txt in reqs:
        if not (cnt - pb).nonneg():
            return "the new allocation holds %r elements, which is not shown to cover the requested %s (the request that triggered the growth)" % (cnt, txt.split("#")[0])
    return None


# ---- R: forwarded pack consumed once -------------------------------------------------

def check_forward_once_fns(ctx, unit, uqs, rule="R.forward-once"):
    """The same for free function templates (construct_n constructs n elements from one argument pack)."""
    n_inst = 0
    for f in unit.functions:
        if f.uq not in uqs:
            continue
        pids = {p["d"] for p in f.params()}
        sites = []
        for n in f.events():
            if n.kind == "CallExpr" and n.callee and n.callee["uq"] in ("std::forward", "std::move") and n.args:
                a = n.args[0].strip()
                if a.kind == "DeclRefExpr" and a.d["d"] in pids:
                    if n.callee["uq"] == "std::forward":
                        ta = n.callee.get("targs", "")
                        if ta.rstrip(">").rstrip().endswith("&") and not ta.rstrip(">").rstrip().endswith("&&"):
                            continue
                    sites.append(n)
        if not any(p["t"].rstrip().endswith("&&") for p in f.params()):
            continue            # (only instantiations that receive an rvalue can move from it)
        n_inst += 1
        cyc = in_cycle_blocks(f)
        pos = f.positions()
        bad = [n for n in sites if pos[n.id][0] in cyc]
        ctx.inst(rule, "%s<%s>" % (f.uq, f.get("targs", "").strip("<>")), not bad, (bad[0].loc if bad else f.loc),
                 ("%s of parameter inside a loop at %s: the second and later iterations receive a moved-from argument"
                  % (bad[0].callee["uq"], bad[0].loc)) if bad else "%d rvalue-forwarding sites, none in a loop" % len(sites), f)
    if n_inst == 0:
        raise AnalysisBroken("anchor vanished: an instantiation of %s with an rvalue argument" % sorted(uqs))


def check_forward_once(ctx, unit, classes, rule="R.forward-once"):
    ctx.rule(rule, "an argument forwarded as an rvalue (std::forward<T> with non-reference T, std::move of a parameter) is "
             "consumed at most once per activation: never inside a loop body", 2)
    for cls in classes:
        for rec in recs_of(unit, cls):
            for f in cls_fns(unit, rec["qn"]):
                pids = {p["d"] for p in f.params()}
                cyc = None
                sites = []
                for n in f.events():
                    if n.kind == "CallExpr" and n.callee and n.callee["uq"] in ("std::forward", "std::move") and n.args:
                        a = n.args[0].strip()
                        if a.kind == "DeclRefExpr" and a.d["d"] in pids:
                            # xvalue result?
                            if n.callee["uq"] == "std::forward":
                                ta = n.callee.get("targs", "")
                                if ta.rstrip(">").rstrip().endswith("&") and not ta.rstrip(">").rstrip().endswith("&&"):
                                    continue   # forwarded as lvalue: copying is repeatable
                            sites.append(n)
                if not sites:
                    continue
                cyc = in_cycle_blocks(f)
                pos = f.positions()
                bad = [n for n in sites if pos[n.id][0] in cyc]
                ctx.inst(rule, "%s::%s<%s>" % (cls, f.name, f.get("targs", "").strip("<>")), not bad, (bad[0].loc if bad else f.loc),
                         ("%s of parameter inside a loop at %s: the second and later iterations receive a moved-from argument"
                          % (bad[0].callee["uq"], bad[0].loc)) if bad else "%d rvalue-forwarding sites, none in a loop" % len(sites), f)


# ---- O2: owners release, no implicit shallow copies ---------------------------------------

def check_owner_specials(ctx, unit, classes, rule="O2.owner-specials"):
    ctx.rule(rule, "a class that allocates has a user-provided destructor that releases, and its copy constructor and copy "
             "assignment are user-provided or deleted (an implicit member-wise copy of an owning pointer double-frees)", len(classes))
    for cls in classes:
        for rec in recs_of(unit, cls):
            fns = cls_fns(unit, rec["qn"])
            allocs = sum(len(alloc_calls(f)) for f in fns)
            sp = rec["special"]
            problems = []
            if allocs == 0:
                ctx.broken("%s no longer allocates: remove it from the owner table" % rec["qn"])
                continue
            dt = [f for f in fns if f.kind == "dtor"]
            if not sp["has_user_dtor"] or not dt:
                problems.append("no user-provided destructor: everything it allocates is leaked")
            else:
                rel = sum(len(free_calls(f)) for f in dt)
                if rel == 0:
                    # destructor may delegate (clear(), pop loop)
                    deleg = [n for f in dt for n in f.events() if n.kind == "CXXMemberCallExpr" and path(n.child("obj")) == ("this",)]
                    if not deleg:
                        problems.append("destructor releases nothing")
            if sp["simple_copy_ctor"]:
                problems.append("implicit member-wise copy constructor is available (shallow copy of the owning pointer)")
            if sp["simple_copy_assign"]:
                problems.append("implicit member-wise copy assignment is available (shallow copy of the owning pointer)")
            ctx.inst(rule, cls, not problems, rec["loc"],
                     "; ".join(problems) if problems else "%d allocation sites; destructor releases; copies user-provided or deleted (instantiation %s)"
                     % (allocs, rec["qn"]))


# ---- O4: destroy before free ----------------------------------------------------------------

def check_destroy_before_free(ctx, unit, classes, rule="O4.destroy-before-free"):
    ctx.rule(rule, "storage that holds constructed elements is given back only after their destructors ran: every free/"
             "deallocate of an element buffer is dominated by the destruction of its live elements", len(classes))
    for cls in classes:
        for rec in recs_of(unit, cls):
            n_sites = 0
            for f in cls_fns(unit, rec["qn"]):
                inits = RA.local_inits(f)
                loops = None
                for n in free_calls(f):
                    if not n.args and n.kind != "CXXMemberCallExpr":
                        continue
                    a = n.args[0] if n.kind == "CXXMemberCallExpr" else n.args[1]
                    if n.kind == "CallExpr":
                        continue   # frg::destruct runs the destructor itself
                    if (a.strip().get("prt") or a.get("prt")) != ELEM and ELEM not in (a.strip().get("t") or ""):
                        src = RA.resolve_local(f, a, inits)
                        if (src.get("prt") or "") != ELEM and ELEM not in (src.get("t") or ""):
                            continue
                    n_sites += 1
                    # what is freed: field path or a local copy of it
                    src = RA.resolve_local(f, a, inits)
                    tgt = path(src) or path(a)
                    ok = False
                    why = "no destructor call on the elements of %s dominates the release" % ".".join(tgt or ("?",))
                    loops = loops if loops is not None else for_loops(f)
                    for d in f.events():
                        obj = is_dtor_call(d)
                        if obj is None:
                            continue
                        op = path(obj)
                        osrc = None
                        if op and op[0].startswith("v:"):
                            # container = _get_container(): local alias of the buffer
                            osrc = "alias"
                        same = op is not None and tgt is not None and (op[:len(tgt)] == tgt or osrc == "alias"
                                                                         or (tgt[0].startswith("v:") and op[0] == tgt[0]))
                        if not same:
                            continue
                        lp = [l for l in loops if l.contains(d)]
                        if lp:
                            # loop header block dominates the free
                            cb = lp[0].header
                            if cb is not None and f.dominates_block(cb, f.positions()[n.id][0]):
                                ok, why = True, "destruction loop over [%s, %s) precedes the release" % (lp[0].start_canon(), lp[0].bound_canon())
                        elif f.dominates(d.id, n.id):
                            ok, why = True, "element destroyed at %s before the release" % d.loc
                    ctx.inst(rule, "%s::%s: release of %s" % (cls, f.name, ".".join(tgt or ("?",)).split("#")[0]), ok, n.loc,
                             why + " (instantiation %s)" % rec["qn"], f)
            if n_sites == 0:
                ctx.broken("%s: no release of an element buffer found (anchor vanished)" % rec["qn"])


# ---- O1: local allocation escapes or is freed --------------------------------------------------

NON_OWNING = {"memcpy", "memset", "memmove", "strlen", "__builtin_memcpy", "__builtin_memset"}


def check_local_allocs(ctx, unit, fns, rule="O1.alloc-escapes"):
    for f in fns:
        calls = alloc_calls(f)
        if not calls:
            continue
        calls.sort(key=lambda n: n.loc)
        for i, call in enumerate(calls):
            inst = "%s: allocation #%d" % (f.sig, i + 1)
            # how is the result bound?
            n = call
            p = f.parent(n)
            n, p = climb(f, n)
            did = None
            bind = None
            if p is None or p.kind == "DeclStmt":
                for x in f.all_nodes():
                    if x.kind == "DeclStmt":
                        for d in x.get("decls", []):
                            if d.get("init") == n.id:
                                did, bind = d["d"], x
            elif p.kind == "BinaryOperator" and p.op == "=" and p.children[1].id == n.id:
                lp = path(p.children[0])
                if lp and len(lp) > 1:
                    ctx.inst(rule, inst, True, call.loc, "stored directly into %s" % ".".join(lp), f)
                    continue
                l = p.children[0].strip()
                if l.kind == "DeclRefExpr":
                    did, bind = l.d["d"], p
            elif p.kind == "ReturnStmt":
                ctx.inst(rule, inst, True, call.loc, "returned to the caller", f)
                continue
            elif p.kind == "CXXNewExpr":
                # new (allocate(...)) T{...}: the new-expression's value carries the block
                q, pp = p, f.parent(p)
                while pp is not None and pp.kind in ("ImplicitCastExpr", "ParenExpr"):
                    q, pp = pp, f.parent(pp)
                if pp is not None and pp.kind == "ReturnStmt":
                    ctx.inst(rule, inst, True, call.loc, "constructed in place and returned", f)
                    continue
                for x in f.all_nodes():
                    if x.kind == "DeclStmt":
                        for d in x.get("decls", []):
                            if d.get("init") == q.id:
                                did, bind = d["d"], x
            elif p.kind == "CtorInit" or (p.kind == "InitListExpr"):
                ctx.inst(rule, inst, True, call.loc, "initialises a member", f)
                continue
            if did is None:
                # handed straight to a virtually inlined helper: the helper's parameter is the local that holds the block
                for x in f.all_nodes():
                    if x.kind == "ParamBind" and x.d.get("init") in (n.id, call.id):
                        did, bind = x.d["d"], x
            if did is None:
                ctx.inst(rule, inst, False, call.loc, "result of %s is not bound to anything that can own it" % canon(call)[:60], f)
                continue

            xs = {did}
            # y = new (x) T(...) : y designates the same block
            grew = True
            while grew:
                grew = False
                for x in f.all_nodes():
                    if x.kind == "DeclStmt":
                        for d in x.get("decls", []):
                            if "init" in d and d["d"] not in xs:
                                iv = f.node(d["init"]).strip()
                                if iv.kind == "CXXNewExpr" and iv.get("placement") and iv.get("pargs"):
                                    pa = std_unwrap(f.node(iv.get("pargs")[0]))
                                    if pa.kind == "DeclRefExpr" and pa.d["d"] in xs:
                                        xs.add(d["d"])
                                        grew = True
                                else:
                                    # y = x, or y = helper(...) where the (virtually inlined) helper returns x
                                    cp = std_unwrap(iv)
                                    if cp.kind == "DeclRefExpr" and cp.d["d"] in xs:
                                        xs.add(d["d"])
                                        grew = True

            # the block may travel inside a small aggregate that a folded helper returns (`return {new_buffer, new_length};`
            # ... `_buffer = grown.buffer;`): the field of that record type which was initialised with the block carries it
            agg_fields = set()
            for x in f.all_nodes():
                if x.kind == "InitListExpr" and x.children:
                    rq = (x.get("t") or "").replace("const ", "").strip()
                    rec_ = [r_ for r_ in unit.records if r_["qn"] == rq or r_.get("t") == rq]
                    if not rec_:
                        continue
                    for k_, ch_ in enumerate(x.children):
                        c_ = std_unwrap(ch_)
                        if c_.kind == "DeclRefExpr" and c_.d.get("d") in xs and k_ < len(rec_[0]["fields"]):
                            agg_fields.add((rec_[0]["uq"], rec_[0]["fields"][k_]["n"]))

            def is_x(m):
                m = std_unwrap(m)
                if m.kind == "CXXNewExpr" and m.get("placement") and m.get("pargs"):
                    return is_x(f.node(m.get("pargs")[0]))
                if m.id == call.id or m.strip().id == call.id:
                    return True         # (a parameter of a virtually inlined helper *is* the allocation expression)
                if agg_fields and m.kind == "MemberExpr" and (m.get("mc"), m.get("m")) in agg_fields:
                    return True
                return m.kind == "DeclRefExpr" and m.d["d"] in xs

            def transfer(m, s, did=did, bind=bind):
                if m.id == bind.id:
                    return ["held"]
                if s != "held":
                    return [s]
                w = write_of(m)
                if w and w[1] is not None and is_x(w[1]) and w[0] is not None and len(w[0]) > 1:
                    return ["escaped"]
                if w and w[1] is not None and is_x(w[1]) and w[0] is None:
                    return ["escaped"]
                if m.kind == "ReturnStmt":
                    v = m.child("val")
                    if v is not None and is_x(v.strip()):
                        return ["escaped"]
                if m.is_call() and m.callee:
                    nm = m.callee["n"]
                    if nm in NON_OWNING:
                        return [s]
                    if (m.callee["n"] in ("free", "deallocate") and m.callee.get("cls") == "wit::Alloc") or \
                            m.callee["uq"] in ("frg::destruct", "frg::destruct_n"):
                        if any(is_x(a) for a in m.args):
                            return ["freed"]
                    pts = m.callee.get("ptypes", [])
                    for a, t in zip(m.args, pts):
                        if is_x(a):
                            tt = t.replace(" ", "")
                            if tt.startswith("const") and tt.endswith("*"):
                                continue    # pointer to const: the callee cannot own or free it
                            if "*" in tt or tt.endswith("&"):
                                return ["escaped"]
                if m.kind == "CtorInit" and m.child("init") is not None and is_x(m.child("init")):
                    return ["escaped"]
                return [s]

            _, ex = flow.run(f, [None], transfer, None)
            leak = "held" in ex
            ctx.inst(rule, inst, not leak, call.loc,
                     "on some path the block is neither stored in an owning place, returned, handed to an owning "
                     "parameter nor freed (a pointer-to-const parameter does not take ownership)" if leak else
                     "escapes or is freed on every path", f)


# ---- O3: allocate / deallocate size agreement ----------------------------------------------------

def check_size_agreement(ctx, unit, classes, rule="O3.size-agreement"):
    """Sizes are compared as polynomials.  In the allocation size, a local or (folded-helper) parameter is followed to what
    it was computed from; a value that the same function stores into a field of *this stands for that field (the capacity
    that is recorded next to the buffer).  In the deallocation size, fields stand for themselves."""
    from .poly import Poly, to_poly
    ctx.rule(rule, "the size passed to deallocate for a buffer field is the size it was allocated with (allocation size "
             "expression with the capacity local replaced by the field it is stored in)", len(classes))
    for cls in classes:
        for rec in recs_of(unit, cls):
            fns = cls_fns(unit, rec["qn"])
            alloc_sz = {}

            def size_poly(f, e, stored):
                inits = RA.local_inits(f)

                def leaf(x, depth=0):
                    x0 = x.strip()
                    # a value that is stored into a field of *this stands for that field
                    if x0.kind == "DeclRefExpr" and x0.d["d"] in stored:
                        return Poly.sym("this." + stored[x0.d["d"]])
                    x1 = std_unwrap(x0)
                    if x1.id != x0.id:
                        if x1.kind == "DeclRefExpr" and x1.d["d"] in stored:
                            return Poly.sym("this." + stored[x1.d["d"]])
                        return to_poly(x1, lambda y: leaf(y, depth + 1)) if depth < 10 else None
                    if x1.kind == "DeclRefExpr" and x1.get("local") and x1.d["d"] in inits and not RA._reassigned(f, x1.d["d"]) and depth < 10:
                        return to_poly(inits[x1.d["d"]], lambda y: leaf(y, depth + 1))
                    if x1.kind == "UnaryExprOrTypeTraitExpr":
                        c = x1.cv()
                        return Poly.const(c) if c is not None else Poly.sym("sizeof(%s)" % x1.get("argt"))
                    if x1.kind in ("ImplicitCastExpr", "CStyleCastExpr", "CXXStaticCastExpr", "ParenExpr", "CXXFunctionalCastExpr") and x1.children:
                        return to_poly(x1.children[0], lambda y: leaf(y, depth))
                    p_ = path(x1)
                    if p_:
                        return Poly.sym(".".join(t.split("#")[0] for t in p_))
                    return Poly.sym("e:" + canon(x1))
                return to_poly(e, leaf)
            for f in fns:
                # value (local / parameter of a folded helper) -> field of *this it is stored into
                stored = {}
                for n in f.events():
                    w = write_of(n)
                    if w and w[0] and len(w[0]) == 2 and w[0][0] == "this" and w[1] is not None:
                        v0 = w[1].strip()
                        for v in (v0, std_unwrap(v0)):
                            if v.kind == "DeclRefExpr" and v.get("local"):
                                stored[v.d["d"]] = w[0][1]
                for n in f.events():
                    if n.kind == "CXXMemberCallExpr" and n.callee and n.callee["n"] == "allocate" and n.callee.get("cls") == "wit::Alloc":
                        c, p = climb(f, n)
                        fld = None
                        if p is not None and p.kind == "BinaryOperator" and p.op == "=":
                            lp = path(p.children[0])
                            if lp and len(lp) == 2 and lp[0] == "this":
                                fld = lp[1]
                        if fld is None and p is not None and p.kind == "DeclStmt":
                            for d in p.get("decls", []):
                                if d.get("init") == c.id:
                                    # the local itself, or a local it is handed on to (returned by a folded helper, copied)
                                    names, grew = {d["d"]}, True
                                    while grew:
                                        grew = False
                                        for d2, ini in RA.local_inits(f).items():
                                            v2 = std_unwrap(ini)
                                            if d2 not in names and v2.kind == "DeclRefExpr" and v2.d["d"] in names:
                                                names.add(d2); grew = True
                                    for nm in names:
                                        if nm in stored:
                                            fld = stored[nm]
                        if fld is None and p is not None and p.kind == "ParamBind" and p.d["d"] in stored:
                            fld = stored[p.d["d"]]
                        if fld is None:
                            continue
                        sp = size_poly(f, n.args[0], {k: v for k, v in stored.items() if v != fld})
                        if sp is not None:
                            alloc_sz.setdefault(fld, []).append(sp)
            cnt = 0
            for f in fns:
                inits = RA.local_inits(f)
                for n in f.events():
                    if n.kind == "CXXMemberCallExpr" and n.callee and n.callee["n"] == "deallocate" and n.callee.get("cls") == "wit::Alloc":
                        a = RA.resolve_local(f, n.args[0], inits)
                        tp = path(a) or path(n.args[0])
                        fld = tp[1] if tp and len(tp) >= 2 and tp[0] == "this" else None
                        if fld is None:
                            cands = [k for k in alloc_sz]
                            fld = cands[0] if len(cands) == 1 else None
                        if fld is None or fld not in alloc_sz:
                            continue
                        cnt += 1
                        sz = size_poly(f, n.args[1], {})
                        ok = sz is not None and any(sz == a_ for a_ in alloc_sz[fld])
                        ctx.inst(rule, "%s::%s: deallocate(%s) #%d" % (cls, f.name, fld, cnt), ok, n.loc,
                                 "deallocate size %s; allocation sizes recorded for %s: %s (instantiation %s)" % (
                                     sz, fld, sorted({str(a_) for a_ in alloc_sz[fld]}), rec["qn"]), f)
            if cnt == 0:
                ctx.broken("%s: no deallocate site with a size found (anchor vanished)" % rec["qn"])


# ---- B1: constant subscripts of fixed-extent member arrays ------------------------------------------

def check_const_subscripts(ctx, unit, classes, rule="B1.const-subscript"):
    ctx.rule(rule, "every constant subscript of a fixed-extent member array is < extent (== extent only directly under &)", len(classes))
    for cls in classes:
        cls_cnt = 0
        for rec in recs_of(unit, cls):
            ext = {fl["n"]: int(fl["extent"]) for fl in rec["fields"] if fl.get("extent")}
            if not ext:
                raise AnalysisBroken("anchor vanished: %s has no fixed-extent member array" % rec["qn"])
            cnt = 0
            for f in cls_fns(unit, rec["qn"]):
                k = 0
                for n in sorted([x for x in f.events() if x.kind == "ArraySubscriptExpr"], key=lambda x: x.loc):
                    bp = path(n.children[0])
                    if not bp or bp[-1] not in ext or len(bp) != 2:
                        continue
                    c = n.children[1].strip().cv()
                    if c is None:
                        continue
                    k += 1
                    cnt += 1
                    par = f.parent(n)
                    under_addr = par is not None and par.kind == "UnaryOperator" and par.op == "&"
                    ok = 0 <= c < ext[bp[-1]] or (under_addr and c == ext[bp[-1]])
                    ctx.inst(rule, "%s::%s%s: %s[%d] #%d" % (cls, f.name, " const" if f.get("const") else "", bp[-1], c, k),
                             ok, n.loc, "index %d, extent %d%s (instantiation %s)" % (c, ext[bp[-1]], ", address only" if under_addr else "", rec["qn"]), f)
            cls_cnt += cnt        # implicit (partial) instantiations may have none of the accessors with constant subscripts
        if cls_cnt == 0:
            ctx.broken("%s: no constant subscripts found in any instantiation" % cls)


# ---- small_vector: inline / heap selection ---------------------------------------------------------

def check_small_vector_selection(ctx, unit, cls="frg::small_vector", rule="E.inline-heap-predicate"):
    """Name-free and spelling-free: the capacity field is the integer field the default constructor initialises
    with the inline extent N, the heap field is the pointer-typed field; the branch decisions dominating each
    site (direct comparisons or calls of one-line bool member predicates, which are evaluated through their
    return expression) are evaluated under every valuation cap,other in {N-1, N, N+1}: the heap pointer may be
    returned / deallocated only when every consistent valuation has cap > N, the inline buffer only when every
    consistent valuation has cap <= N."""
    ctx.rule(rule, "small_vector decides inline vs. heap storage by a condition equivalent to capacity <= N (N = inline extent): "
             "the heap pointer is returned only when capacity > N, the inline buffer only when capacity <= N, and the destructor "
             "deallocates only when capacity > N (conditions evaluated semantically, through predicate helpers)", 5)
    import itertools
    for rec in recs_of(unit, cls):
        fns = cls_fns(unit, rec["qn"])
        heap = [fl["n"] for fl in rec["fields"] if fl.get("ptr")]
        capf, N = None, None
        for f in fns:
            if f.kind != "ctor":
                continue
            for n in f.events():
                if n.kind == "CtorInit" and n.get("field") and n.get("init") is not None:
                    iv = f.node(n.get("init"))
                    x = iv
                    while x is not None and x.kind in ("ImplicitCastExpr", "ParenExpr", "CXXDefaultInitExpr") and x.children:
                        x = x.children[0]
                    if x is not None and x.kind == "SubstNonTypeTemplateParmExpr" and iv.strip().cv() is not None:
                        capf, N = n.get("field"), iv.strip().cv()
        if len(heap) != 1 or capf is None:
            raise AnalysisBroken("anchor vanished: %s: heap pointer field / capacity field initialised with the inline extent" % rec["qn"])
        heap = heap[0]
        inline = [fl["n"] for fl in rec["fields"] if fl.get("rt") == "frg::array"]
        ints = [fl["n"] for fl in rec["fields"] if not fl.get("ptr") and not fl.get("rt")]
        by_name = {}
        for f in fns:
            by_name.setdefault(f.name, []).append(f)

        def ev(node, valuation, depth=0):
            def leaf(x):
                x = x.strip()
                p = path(x)
                if p and len(p) == 2 and p[0] == "this" and p[1] in valuation:
                    return valuation[p[1]]
                if x.kind == "CXXMemberCallExpr" and x.callee and depth < 3:
                    for g in by_name.get(x.callee["n"], ()):
                        rs = g.return_nodes()
                        if len(rs) == 1 and rs[0].child("val") is not None and not g.params():
                            return ev(rs[0].child("val"), valuation, depth + 1)
                return None
            return flow.sem_eval(node, leaf)

        vals = [dict(zip(ints, c)) for c in itertools.product((N - 1, N, N + 1), repeat=len(ints))]

        def consistent(f, node_id):
            facts = flow.facts_at(f, node_id)
            out = []
            for v in vals:
                ok = True
                for cond, truth in facts:
                    r = ev(cond, v)
                    if r is not None and bool(r) != truth:
                        ok = False
                        break
                if ok:
                    out.append(v)
            return out

        def judge(f, node, want_heap, what, k):
            cons = consistent(f, node.id)
            bad = [v for v in cons if (v[capf] > N) != want_heap]
            ctx.inst(rule, "%s::%s%s: %s #%d" % (cls, f.name, " const" if f.get("const") else "", what, k), not bad, node.loc,
                     "%s under a condition that admits %s=%s with inline extent %d" % (what, capf, sorted({v[capf] for v in bad}), N)
                     if bad else "%s only when %s %s %d" % (what, capf, ">" if want_heap else "<=", N), f)

        for f in fns:
            k = 0
            def arms(v):
                """(value, element at which the branch decisions are read): the arms of `c ? a : b` are separate sites."""
                x = v.strip()
                if x.kind == "ConditionalOperator" and len(x.children) == 3:
                    return arms(x.children[1]) + arms(x.children[2])
                return [v]
            pos = f.positions()

            def anchor(v, r):
                cur, hops = v.strip(), 0
                while cur is not None and cur.id not in pos and hops < 10:
                    ch = cur.children
                    cur, hops = (ch[0] if ch else None), hops + 1
                return cur if cur is not None and cur.id in pos else r
            for r in f.return_nodes():
                v0 = r.child("val")
                if v0 is None or "*" not in (f.get("ret") or ""):
                    continue
                al = arms(v0)
                for v in al:
                    at = r if len(al) == 1 else anchor(v, r)
                    vv = std_unwrap(v)          # (sees through a virtually inlined accessor)
                    p = path(vv)
                    if p == ("this", heap):
                        k += 1
                        judge(f, at, True, "heap pointer returned", k)
                    elif any(x.kind == "MemberExpr" and x.get("mk") == "Field" and x.m in inline and path(x) == ("this", x.m) for x in list(v.walk()) + list(vv.walk())):
                        k += 1
                        judge(f, at, False, "inline buffer returned", k)
            if f.kind == "dtor":
                for i, n in enumerate(free_calls(f)):
                    if n.kind == "CXXMemberCallExpr":
                        judge(f, n, True, "heap buffer released", i + 1)


def inline_layout(rec, fns):
    """(heap pointer field, capacity field, inline extent N) of a class with inline element storage, or None:
    the capacity field is the one a constructor initialises with the (substituted) non-type template argument."""
    heap = [fl["n"] for fl in rec["fields"] if fl.get("ptr")]
    capf, N = None, None
    for f in fns:
        if f.kind != "ctor":
            continue
        for n in f.events():
            if n.kind == "CtorInit" and n.get("field") and n.get("init") is not None:
                iv = f.node(n.get("init"))
                x = iv
                while x is not None and x.kind in ("ImplicitCastExpr", "ParenExpr", "CXXDefaultInitExpr") and x.children:
                    x = x.children[0]
                if x is not None and x.kind == "SubstNonTypeTemplateParmExpr" and iv.strip().cv() is not None:
                    capf, N = n.get("field"), iv.strip().cv()
    if len(heap) != 1 or capf is None:
        return None
    return heap[0], capf, N


class StorageExchange:
    """swap(a, b) of a class whose elements may live in an inline array (raw aligned_storage) inside the object.

    The inline array cannot be exchanged like the other members: its live elements have to change sides one by one
    (move-construct on the other side, destroy here).  Path-sensitive statement, free of names and of the shape of
    the case split: along every path to the exit, for each side X with other side Y, EITHER the branch decisions
    taken exclude that X is inline (decisions are evaluated semantically, through one-line predicate members, under
    the valuations capacity(X), capacity(Y) in {N-1, N, N+1}), OR the path passes a relocation X -> Y: a placement
    new whose address designates Y's elements and whose initialiser is moved from X's elements (directly or through
    a local temporary), and a destructor call on X's elements.  Relocations inside a loop count for every path
    through the loop header (a zero-trip loop relocates the empty range)."""

    def __init__(self, unit, rec, f, fns):
        self.f, self.rec = f, rec
        self.stor = [fl["n"] for fl in rec["fields"] if "aligned_storage" in fl["t"]]
        lay = inline_layout(rec, fns)
        if lay is None:
            raise AnalysisBroken("anchor vanished: %s: heap pointer field / capacity field initialised with the inline extent" % rec["qn"])
        self.heap, self.capf, self.N = lay
        ps = [("p:%s" % p["n"]) for p in f.params()]
        # path roots carry the declaration id after the name
        self.roots = []
        own = {p["d"] for p in f.params()}      # (parameters of virtually inlined helpers are not sides of the swap)
        for n in f.all_nodes():
            if n.kind == "DeclRefExpr" and n.get("dk") == "ParmVar" and n.d.get("d") in own:
                p = path(n)
                if p and len(p) == 1 and p[0] not in self.roots:
                    self.roots.append(p[0])
        if len(f.params()) == 1:
            self.roots = ["this"] + self.roots
        self.by_name = {}
        for g in fns:
            self.by_name.setdefault(g.name, []).append(g)
        self.inits = RA.local_inits(f)
        self.bind = f.bind_map()
        self.trigger = {}
        self._events()

    # -- which object's elements does a pointer / element expression designate?
    def elems_roots(self, node, depth=0, seen=None):
        seen = seen if seen is not None else set()
        out = set()
        if node is None or depth > 8:
            return out
        node = std_unwrap(node)
        for x in node.walk():
            if x.kind == "MemberExpr" and x.get("mk") == "Field" and x.m in self.stor + [self.heap]:
                p = path(x)
                if p and len(p) == 2:
                    out.add(p[0])
            elif x.kind == "CXXMemberCallExpr" and x.callee and x.callee.get("cls") == self.rec["uq"] and x.child("obj") is not None:
                rt = x.get("t") or ""
                p = path(x.child("obj"))
                if p and len(p) == 1 and ("*" in rt or "&" in rt or x.callee["n"] in self.by_name and any(
                        "*" in (g.get("ret") or "") or "&" in (g.get("ret") or "") for g in self.by_name[x.callee["n"]])):
                    out.add(p[0])
            elif x.kind == "DeclRefExpr" and x.get("local") and x.get("dk") in ("Var", "ParmVar"):
                d = x.d["d"]
                if d in seen:
                    continue
                seen.add(d)
                if d in self.bind:
                    out |= self.elems_roots(self.f.node(self.bind[d]), depth + 1, seen)
                elif d in self.inits:
                    out |= self.elems_roots(self.inits[d], depth + 1, seen)
            if x.d.get("inlined") and len(x.d.get("rets", [])) == 1:
                out |= self.elems_roots(self.f.node(x.d["rets"][0]), depth + 1, seen)
        return out

    def _events(self):
        f = self.f
        pos = f.positions()
        loops = flow.natural_loops(f)

        def triggers(n):
            cur, hops = n, 0
            while cur is not None and cur.id not in pos and hops < 60:
                cur, hops = f.parent(cur), hops + 1
            if cur is None:
                return []
            b = pos[cur.id][0]
            outer = None
            for lp in loops:
                if b in lp.body and (outer is None or len(lp.body) > len(outer.body)):
                    outer = lp
            if outer is None:
                return [cur.id]
            return [x.id for x in f.blocks[outer.header].nodes()]
        self.n_new = self.n_dtor = 0
        self.ranges = {}            # event node id -> (kind, x, y | None, (lo Poly, hi Poly) | None)
        self._loops = for_loops(f)
        for n in f.events():
            toks = set()
            if n.kind == "CXXNewExpr" and n.get("placement") and n.get("pargs"):
                dst = self.elems_roots(f.node(n.get("pargs")[0]))
                init = n.child("init")
                src = self.elems_roots(init) if init is not None else set()
                for y in dst:
                    for x in src:
                        if x != y:
                            toks.add(("new", x, y))
                            toks.add(("ev", n.id))
                            self.ranges[n.id] = ("new", x, y, self._new_range(n, x, y))
                            self.n_new += 1
            o = is_dtor_call(n)
            if o is not None:
                for x in self.elems_roots(o):
                    toks.add(("dtor", x))
                    toks.add(("ev", n.id))
                    self.ranges[n.id] = ("dtor", x, None, self._elem_range(o, n, x))
                    self.n_dtor += 1
            for t in triggers(n) if toks else ():
                self.trigger.setdefault(t, set()).update(toks)

    # -- which index range of X's elements does an event cover?
    def _leaf(self, n, depth=0):
        from .poly import Poly, to_poly
        n0, n = n, std_unwrap(n)
        if n.id != n0.strip().id and depth < 8 and (n.kind == "BinaryOperator" or n.cv() is not None):
            r = to_poly(n, lambda x: self._leaf(x, depth + 1))      # std_unwrap looked through a parameter binding
            if r is not None:
                return r
        if n.kind == "DeclRefExpr" and n.get("local"):
            d = n.d["d"]
            if d in self.bind and depth < 8:
                return to_poly(self.f.node(self.bind[d]), lambda x: self._leaf(x, depth + 1))
            if d in self.inits and not RA._reassigned(self.f, d) and depth < 8:
                iv = std_unwrap(self.inits[d])
                if iv.kind in ("BinaryOperator", "IntegerLiteral", "DeclRefExpr", "MemberExpr") or iv.cv() is not None:
                    r = to_poly(iv, lambda x: self._leaf(x, depth + 1))
                    if r is not None:
                        return r
            return Poly.sym("v#%d" % d)
        p_ = path(n)
        if p_ and len(p_) == 2:
            return Poly.sym("%s.%s" % (p_[0], p_[1]))
        return Poly.sym("e:" + canon(n))

    def _ptr(self, node, root, depth=0):
        """pointer expression -> offset Poly from the start of root's element array (None = unknown)."""
        from .poly import Poly, to_poly
        if node is None or depth > 10:
            return None
        x = std_unwrap(node)
        while x.kind in ("CXXReinterpretCastExpr", "CStyleCastExpr", "CXXStaticCastExpr", "ParenExpr", "ImplicitCastExpr") and x.children:
            x = std_unwrap(x.children[0])
        if x.kind == "UnaryOperator" and x.op == "&" and x.children:
            return self._elem(x.children[0], root, depth + 1)
        if x.kind == "BinaryOperator" and x.op == "+":
            for a_, b_ in ((x.children[0], x.children[1]), (x.children[1], x.children[0])):
                base = self._ptr(a_, root, depth + 1)
                if base is not None:
                    k = to_poly(b_, self._leaf)
                    return None if k is None else base + k
            return None
        if x.kind == "DeclRefExpr" and x.get("local"):
            d = x.d["d"]
            if d in self.bind:
                return self._ptr(self.f.node(self.bind[d]), root, depth + 1)
            if d in self.inits and not RA._reassigned(self.f, d):
                return self._ptr(self.inits[d], root, depth + 1)
            return None
        if x.kind == "CXXMemberCallExpr" and x.callee and x.child("obj") is not None and path(x.child("obj")) == (root,):
            # an accessor that returns the start of the element array: every return value is a storage / buffer field
            # (possibly cast, possibly `&field[0]...`), never an offset into it
            for g in self.by_name.get(x.callee["n"], ()):
                for r in g.return_nodes():
                    v = r.child("val")
                    if v is None or any(y.kind == "BinaryOperator" and y.op in ("+", "-") for y in std_unwrap(v).walk()):
                        return None
            return Poly.const(0)
        if x.kind == "MemberExpr" and x.get("mk") == "Field":
            p_ = path(x)
            if p_ and p_[0] == root and len(p_) == 2 and p_[1] in self.stor + [self.heap]:
                return Poly.const(0)
            # &root._array[0].buffer
            if x.children:
                return self._ptr_through(x.children[0], root, depth + 1)
        if x.d.get("inlined") and len(x.d.get("rets", [])) == 1:
            return self._ptr(self.f.node(x.d["rets"][0]), root, depth + 1)
        return None

    def _ptr_through(self, node, root, depth):
        x = std_unwrap(node)
        if x.kind == "ArraySubscriptExpr" and std_unwrap(x.children[1]).cv() == 0:
            b = std_unwrap(x.children[0])
            p_ = path(b)
            if p_ and p_[0] == root and len(p_) == 2 and p_[1] in self.stor:
                from .poly import Poly
                return Poly.const(0)
        return None

    def _elem(self, node, root, depth=0):
        """element expression -> index Poly within root's element array (None = unknown)."""
        from .poly import to_poly
        if node is None or depth > 10:
            return None
        x = std_unwrap(node)
        if x.kind == "ArraySubscriptExpr":
            base = self._ptr(x.children[0], root, depth + 1)
            idx = to_poly(x.children[1], self._leaf)
            return None if base is None or idx is None else base + idx
        if x.kind == "UnaryOperator" and x.op == "*" and x.children:
            return self._ptr(x.children[0], root, depth + 1)
        if x.kind in ("CXXConstructExpr", "CXXTemporaryObjectExpr") and len(x.args) == 1:
            return self._elem(x.args[0], root, depth + 1)
        if x.kind == "DeclRefExpr" and x.get("local"):
            d = x.d["d"]
            if d in self.bind:
                return self._elem(self.f.node(self.bind[d]), root, depth + 1)
            if d in self.inits and not RA._reassigned(self.f, d):
                return self._elem(self.inits[d], root, depth + 1)
        return None

    def _span(self, idx, at):
        """index Poly that may mention the counter of the loop enclosing element `at` -> (lo, hi) Polys."""
        from .poly import Poly, to_poly
        if idx is None:
            return None
        pos = self.f.positions()
        cur, hops = at, 0
        while cur is not None and cur.id not in pos and hops < 60:
            cur, hops = self.f.parent(cur), hops + 1
        if cur is None:
            return None
        b = pos[cur.id][0]
        inner = None
        for lp in self._loops:
            if b in lp.nl.body and (inner is None or len(lp.nl.body) < len(inner.nl.body)):
                inner = lp
        syms = {s_ for k in idx.t for s_ in k}
        if inner is None:
            if any(s_.startswith("v#") and self._is_counter(int(s_[2:])) for s_ in syms):
                return None
            return (idx, idx + Poly.const(1))
        iv = "v#%d" % inner.ivar
        # exactly linear in the counter with coefficient 1, counting up by one from start while counter < bound
        if idx.t.get((iv,), 0) != 1 or any(iv in k and k != (iv,) for k in idx.t):
            return None
        st = inner.step_of()
        if st is None or st[0] != "++" or inner.op not in ("<", "!=") or inner.offset is not None or inner.start is None or inner.bound is None:
            return None
        rest = idx - Poly.sym(iv)
        if any(s_.startswith("v#") and self._is_counter(int(s_[2:])) for k in rest.t for s_ in k):
            return None
        lo = to_poly(inner.start, self._leaf)
        hi = to_poly(inner.bound, self._leaf)
        if lo is None or hi is None:
            return None
        return (rest + lo, rest + hi)

    def _is_counter(self, d):
        return any(lp.ivar == d for lp in self._loops)

    def _elem_range(self, elem, at, root):
        return self._span(self._elem(elem, root), at)

    def _new_range(self, n, x, y):
        """placement new moving X's element i into Y's slot j: the covered range of X, provided i == j."""
        f = self.f
        dst = self._ptr(f.node(n.get("pargs")[0]), y)
        init = n.child("init")
        src = None
        if init is not None:
            iv = std_unwrap(init)
            args = iv.args if iv.kind in ("CXXConstructExpr", "CXXTemporaryObjectExpr") else [iv]
            if len(args) == 1:
                src = self._elem(args[0], x)
        if dst is None or src is None:
            return None
        if not (dst == src):
            return ("shifted", src, dst)
        return self._span(src, n)

    def coverage(self, tokens, x, y):
        """None when the relocated ranges of X (new into Y, destroyed in X) chain up from 0 to X's size or when a
        range is not understood (then only presence is required); otherwise a description of the gap."""
        from .poly import Poly
        ints = [fl["n"] for fl in self.rec["fields"] if not fl.get("ptr") and not fl.get("rt") and fl["n"] != self.capf
                and "aligned_storage" not in fl["t"]]
        if len(ints) != 1:
            return None
        size = Poly.sym("%s.%s" % (x, ints[0]))
        evs = [self.ranges[t[1]] for t in tokens if isinstance(t, tuple) and t[0] == "ev" and t[1] in self.ranges]
        for kind, what in (("new", "moved into %s" % y.split("#")[0]), ("dtor", "destroyed")):
            rs = [e[3] for e in evs if e[0] == kind and e[1] == x and (kind == "dtor" or e[2] == y)]
            sh = [r for r in rs if r is not None and r[0] == "shifted"]
            if sh:
                return "element [%r] of %s is moved into slot [%r] of %s: positions are not preserved" % (sh[0][1], x.split("#")[0], sh[0][2], y.split("#")[0])
            if not rs or any(r is None for r in rs):
                continue
            cur, used = Poly.const(0), set()
            while True:
                nxt = [i for i, r in enumerate(rs) if i not in used and r[0] == cur]
                if not nxt:
                    break
                used.add(nxt[0])
                cur = rs[nxt[0]][1]
            if not (cur == size):
                return "the elements of %s %s cover [0, %r) %s, not [0, %r)" % (
                    x.split("#")[0], what, cur, "(ranges %s)" % ", ".join("[%r, %r)" % r for r in rs), size)
        return None

    # -- branch decisions -> capacities that remain possible
    def ev(self, node, env, depth=0):
        def leaf(x):
            x = x.strip()
            p = path(x)
            if p and len(p) == 2 and p[0] in env and p[1] in env[p[0]]:
                return env[p[0]][p[1]]
            if x.kind == "CXXMemberCallExpr" and x.callee and depth < 3 and x.child("obj") is not None:
                po = path(x.child("obj"))
                if po and len(po) == 1 and po[0] in env:
                    for g in self.by_name.get(x.callee["n"], ()):
                        rs = g.return_nodes()
                        if len(rs) == 1 and rs[0].child("val") is not None and not g.params():
                            return self.ev(rs[0].child("val"), {"this": env[po[0]]}, depth + 1)
            # a local that snapshots a decision (`const bool a_small = a._is_small();`)
            if x.kind == "DeclRefExpr" and x.get("local") and depth < 3 and "this" not in env:
                d = x.d["d"]
                if d in self.bind:
                    return self.ev(self.f.node(self.bind[d]), env, depth + 1)
                if d in self.inits and not RA._reassigned(self.f, d):
                    return self.ev(self.inits[d], env, depth + 1)
            return None
        return flow.sem_eval(node, leaf)

    def initial(self):
        import itertools
        N = self.N
        return frozenset(itertools.product((N - 1, N, N + 1), repeat=len(self.roots)))

    def refine(self, cond, truth, vals):
        keep = []
        for v in vals:
            env = {r: {self.capf: c} for r, c in zip(self.roots, v)}
            r = self.ev(cond, env)
            if r is None or bool(r) == truth:
                keep.append(v)
        return frozenset(keep)

    def missing(self, tokens, vals):
        """Sides whose inline elements are not handed over on a path with these tokens / possible capacities."""
        out = []
        for i, x in enumerate(self.roots):
            may_inline = any(v[i] <= self.N for v in vals)
            if not may_inline:
                continue
            for y in self.roots:
                if y == x:
                    continue
                if ("new", x, y) not in tokens or ("dtor", x) not in tokens:
                    out.append("%s may be inline here but its elements are not relocated into %s (%s)" % (
                        x.split("#")[0], y.split("#")[0],
                        "no placement new from them" if ("new", x, y) not in tokens else "they are not destroyed on this side"))
                else:
                    gap = self.coverage(tokens, x, y)
                    if gap:
                        out.append("%s may be inline here but %s" % (x.split("#")[0], gap))
        return out


def check_move_assign_releases(ctx, unit, classes, rule="O.move-assign-releases"):
    """Move assignment from an rvalue REFERENCE that only exchanges the two owners parks the object held so far in the
    source.  When the source is a member of that very object (`head = std::move(head->next)`) the object ends up owning
    itself and is never destroyed.  The assignment has to end the old object's lifetime itself: through reset()/a free, or
    through the destructor of a local that took the source over first."""
    ctx.rule(rule, "move assignment from an rvalue reference releases the object held before the assignment before it returns (it does "
             "not leave it parked in the source)", len(classes))
    for cls in classes:
        n_inst = 0
        for rec in recs_of(unit, cls):
            fns = cls_fns(unit, rec["qn"])
            frees = {f.did for f in fns if free_calls(f) and f.kind != "dtor"}
            for f in fns:
                if f.name != "operator=" or not f.params():
                    continue
                p0 = f.params()[0]
                if not p0["t"].rstrip().endswith("&&") or (p0.get("rt") or "") != cls:
                    continue
                n_inst += 1
                rel = list(free_calls(f))
                rel += [n for n in f.events() if n.is_call() and n.callee and n.callee.get("did") in frees and n.kind == "CXXMemberCallExpr"
                        and path(n.child("obj")) == ("this",)]
                rel += [n for n in f.events() if n.kind == "AutoDtor" and (n.get("rt") or n.get("t") or "").startswith(cls)]
                rel += [n for n in f.all_nodes() if n.kind == "DeclStmt" and any((d.get("rt") or "") == cls for d in n.get("decls", []))]
                ctx.inst(rule, f.sig, bool(rel), f.loc,
                         "the previously held object is released here (%d release site(s) / local owner(s))" % len(rel) if rel else
                         "the two owners are only exchanged: the object held before the assignment lives on inside the source, and is never "
                         "destroyed when the source is a member of that object (head = std::move(head->next))", f)
        if n_inst == 0:
            raise AnalysisBroken("anchor vanished: move assignment of %s from an rvalue reference" % cls)


def check_allocator_stable(ctx, unit, classes, rule="O.allocator-stable"):
    """A block goes back to the allocator it came from.  An owner keeps its allocator in a field; a member that assigns
    that field and afterwards, on the same path, releases something through it (directly, or by calling a member of
    *this that releases) frees the block it held so far through the NEW allocator.  (Exchanging allocator and pointer
    together -- swap -- is fine: nothing is released afterwards in the same member.)"""
    ctx.rule(rule, "no member assigns the owner's allocator field and afterwards, on the same path, releases memory through it "
             "(the block held so far would be freed through a different allocator than the one that allocated it)", len(classes))
    for cls in classes:
        n_inst = 0
        for rec in recs_of(unit, cls):
            fns = cls_fns(unit, rec["qn"])
            alf = [fl["n"] for fl in rec["fields"] if (fl.get("rt") or "") == "wit::Alloc" or fl["t"].strip() in ("wit::Alloc", "Allocator")]
            if not alf:
                raise AnalysisBroken("anchor vanished: allocator field of %s" % rec["qn"])
            frees = {f.did for f in fns if free_calls(f) and f.kind != "dtor"}
            grew = True
            while grew:
                grew = False
                for f in fns:
                    if f.did in frees or f.kind == "dtor":
                        continue
                    if any(n.is_call() and n.callee and n.callee.get("did") in frees and n.kind == "CXXMemberCallExpr" and path(n.child("obj")) == ("this",)
                           for n in f.events()):
                        frees.add(f.did)
                        grew = True
            for f in fns:
                if f.kind in ("ctor", "dtor"):
                    continue
                ws = []
                for n in f.events():
                    w = write_of(n)
                    if w and w[0] and w[0][0] == "this" and len(w[0]) == 2 and w[0][1] in alf and n.kind != "CtorInit":
                        ws.append(n)
                    # copy/move assignment of a class-type allocator is an operator= call on the field
                    if n.kind == "CXXOperatorCallExpr" and n.callee and n.callee.get("op") == "=" and n.args and path(n.args[0]) and \
                            path(n.args[0])[0] == "this" and len(path(n.args[0])) == 2 and path(n.args[0])[1] in alf:
                        ws.append(n)
                if not ws:
                    continue
                n_inst += 1
                rel = [n for n in f.events() if n.is_call() and n.callee and n.callee.get("did") in frees and n.kind == "CXXMemberCallExpr"
                       and path(n.child("obj")) == ("this",)] + list(free_calls(f))
                bad = [(w, r) for w in ws for r in rel if f.reaches(w.id, r.id)]
                ctx.inst(rule, f.sig, not bad, f.loc,
                         ("the allocator field is assigned at %s and %s at %s then releases through it: the block held before the assignment "
                          "is returned to a different allocator" % (bad[0][0].loc, (bad[0][1].callee["n"] + "()") if bad[0][1].callee else "a free", bad[0][1].loc))
                         if bad else "allocator assigned, nothing released through it afterwards", f)
        ctx.inst(rule, "%s: <members that assign the allocator>" % cls, True, "", "%d member(s) assign the allocator field" % n_inst, None)


# ---- O7: no use after destroy / free ------------------------------------------------------------------

def check_no_use_after_release(ctx, unit, fns, rule="O7.no-use-after-release"):
    """After frg::destruct(a, x) / a.free(x) / a.deallocate(x, n) with x a local pointer, x is not
    dereferenced or passed on until it is reassigned."""
    for f in fns:
        rel = []
        for n in free_calls(f):
            a = n.args[0] if n.kind == "CXXMemberCallExpr" else (n.args[1] if len(n.args) > 1 else None)
            if a is None:
                continue
            v = std_unwrap(a)
            if v.kind == "DeclRefExpr" and v.get("local") and v.get("dk") == "Var":
                rel.append((n, v.d["d"], v.n))
        if not rel:
            continue
        rel.sort(key=lambda x: x[0].loc)
        for i, (call, did, name) in enumerate(rel):
            bad = []

            def transfer(m, s, call=call, did=did):
                if m.id == call.id:
                    return ["dead"]
                if s != "dead":
                    return [s]
                w = write_of(m)
                if w and w[0] and len(w[0]) == 1 and w[0][0].endswith("#%d" % did):
                    return ["live"]
                if m.kind == "DeclStmt" and any(d["d"] == did for d in m.get("decls", [])):
                    return ["live"]
                if m.kind == "MemberExpr":
                    p = path(m)
                    if p and len(p) > 1 and p[0].endswith("#%d" % did) and m.get("arrow"):
                        bad.append("field %s read through the released pointer at %s" % (p[-1], m.loc))
                if m.kind == "UnaryOperator" and m.op == "*":
                    p = path(m.children[0])
                    if p and len(p) == 1 and p[0].endswith("#%d" % did):
                        bad.append("released pointer dereferenced at %s" % m.loc)
                if m.is_call() and m.id != call.id:
                    for a in m.args:
                        v = std_unwrap(a)
                        if v.kind == "DeclRefExpr" and v.d["d"] == did:
                            bad.append("released pointer passed to %s at %s" % (canon(m)[:40], m.loc))
                return [s]
            flow.run(f, ["live"], transfer, None)
            ctx.inst(rule, "%s: release #%d of %s" % (f.sig, i + 1, name), not bad, call.loc,
                     "; ".join(sorted(set(bad))) if bad else "no access through the pointer after its release", f)


# ---- W2: type-level witnesses -----------------------------------------------------------------------

def check_typelevel(ctx, rule, prefix, minimum, unit="typelevel"):
    """static_asserts of tu/typelevel.cpp whose message starts with `prefix`: each is one instance,
    decided by the compiler's constant evaluator on /repo's current types."""
    from .ir import load_unit
    u = load_unit(unit, extra_flags=("-fconstexpr-steps=200000000",))
    ctx.use_unit(u)
    from .ir import ROOT
    # declarations of the unit that are witnesses by compiling at all (`constinit T x; // WITNESS <prefix> <text>`): one instance
    # each; an error reported on such a line is the verdict for that instance
    import os, re
    src_path = os.path.join(os.path.dirname(os.path.dirname(os.path.abspath(__file__))), "tu", unit + ".cpp")
    decl_wit = {}
    if os.path.exists(src_path):
        for ln, text in enumerate(open(src_path, errors="replace").read().split("\n"), 1):
            m = re.search(r"//\s*WITNESS\s+(\S+)\s+(.*)$", text)
            if m:
                decl_wit[ln] = (m.group(1), m.group(2).strip())

    def on_witness_line(e):
        return os.path.basename(e["file"]) == os.path.basename(src_path) and e["line"] in decl_wit
    wit_errs = {}
    for e in u.diagnostics:
        if e["level"] == "error" and on_witness_line(e):
            wit_errs.setdefault(e["line"], e["text"])
    other = [e for e in u.diagnostics if e["level"] == "error" and "static_assert" not in e["text"]
             and "static assertion" not in e["text"] and not on_witness_line(e)]
    own = [e for e in u.diagnostics if e["level"] == "error" and e["file"].startswith(ROOT)
           and ("static_assert" in e["text"] or "static assertion" in e["text"])]
    seen = set()
    for e in own:
        if e["text"] in seen:
            continue
        seen.add(e["text"])
        ctx.inst(rule, "repository static_assert: %s" % e["text"][:120], False, "%s:%s" % (e["file"], e["line"]),
                 "the repository's own compile-time check fails when the class is instantiated")
    if other:
        in_repo = [e for e in other if e["file"].startswith(ROOT)]
        if in_repo and len(in_repo) == len(other):
            # the witness expressions no longer compile because of a construct in the repository's headers: that is a
            # verdict (the type-level property does not hold), not a failure of the analysis
            seen2 = set()
            for e in in_repo[:4]:
                if e["text"] in seen2:
                    continue
                seen2.add(e["text"])
                ctx.inst(rule, "witness unit: %s" % e["text"][:120], False, "%s:%s" % (e["file"], e["line"]),
                         "the type-level witnesses no longer compile: %s" % e["text"][:200])
            return
        raise AnalysisBroken("type-level witness unit does not compile: %s" % "; ".join(
            "%s:%s: %s" % (e["file"], e["line"], e["text"]) for e in other[:3]))
    n = 0
    for ln, (pfx, msg) in sorted(decl_wit.items()):
        if pfx != prefix:
            continue
        n += 1
        ok = ln not in wit_errs
        ctx.inst(rule, "%s %s" % (pfx, msg[:110]), ok, "%s:%d" % (src_path, ln),
                 "the witness declaration compiles" if ok else "the witness declaration is rejected: %s" % wit_errs[ln][:200])
    for sa in u.d.get("static_asserts", []):
        msg = sa.get("msg", "")
        if not msg.startswith(prefix):
            continue
        n += 1
        ok = (not sa["failed"]) and sa["evaluated"] and sa["value"]
        ctx.inst(rule, msg, ok, sa["loc"], "static_assert %s" % ("holds" if ok else "FAILS on the current tree"))
    if n < minimum:
        raise AnalysisBroken("type-level witnesses with prefix %r: found %d, expected at least %d" % (prefix, n, minimum))


# ---- K: a local pointer into the container's storage is stale after a reallocation ---------------------------

def check_stale_buffer(ctx, unit, classes, rule="K.stale-buffer"):
    ctx.rule(rule, "a local that designates the container's storage (from a storage accessor such as _get_container() or a copy "
             "of the buffer field) is not dereferenced after a call that may replace that storage (_ensure_capacity, rehash, "
             "resize ...) without being fetched again", len(classes))
    for cls in classes:
        for rec in recs_of(unit, cls):
            fns = cls_fns(unit, rec["qn"])
            by_did = {f.did: f for f in fns}
            ptr_fields = {fl["n"] for fl in rec["fields"] if fl.get("ptr")}
            reads, writes = {}, {}
            for f in fns:
                r, w = set(), set()
                for n in f.events():
                    if n.kind == "MemberExpr" and n.get("mk") == "Field" and path(n) and path(n)[0] == "this" and len(path(n)) == 2:
                        r.add(n.m)
                    ww = write_of(n)
                    if ww and ww[0] and ww[0][0] == "this" and len(ww[0]) >= 2 and n.kind != "CtorInit":
                        w.add(ww[0][1])
                reads[f.did], writes[f.did] = r, w
            changed = True
            while changed:
                changed = False
                for f in fns:
                    for n in f.events():
                        if n.is_call() and n.callee and n.callee["did"] in by_did and n.callee["did"] != f.did:
                            obj = n.child("obj") if n.kind == "CXXMemberCallExpr" else None
                            if obj is not None and path(obj) == ("this",):
                                c = n.callee["did"]
                                if not reads[c] <= reads[f.did]:
                                    reads[f.did] |= reads[c]; changed = True
                                if not writes[c] <= writes[f.did]:
                                    writes[f.did] |= writes[c]; changed = True
            n_locals = 0
            for f in fns:
                if f.kind == "dtor":
                    continue
                inits = RA.local_inits(f)
                dep = {}
                for did, init in inits.items():
                    v = std_unwrap(init)
                    if not ((v.get("t") or "").rstrip().endswith("*")):
                        continue
                    if v.kind == "CXXMemberCallExpr" and v.callee and v.callee["did"] in by_did and path(v.child("obj")) == ("this",):
                        r = reads[v.callee["did"]] & (ptr_fields | {"_capacity", "_size"})
                        if r & ptr_fields:
                            dep[did] = r
                    else:
                        p = path(v)
                        if p and p[0] == "this" and len(p) == 2 and p[1] in ptr_fields:
                            dep[did] = {p[1]}
                if not dep:
                    continue
                n_locals += len(dep)
                bad = []

                def transfer(n, s, f=f, dep=dep):
                    if n.kind == "DeclStmt":
                        for d in n.get("decls", []):
                            if d["d"] in dep:
                                s = s | {d["d"]}
                    if n.is_call() and n.callee and n.callee["did"] in by_did and n.kind == "CXXMemberCallExpr" \
                            and path(n.child("obj")) == ("this",):
                        w = writes[n.callee["did"]]
                        s = frozenset(d for d in s if not (dep[d] & w))
                    ww = write_of(n)
                    if ww and ww[0] and ww[0][0] == "this" and len(ww[0]) == 2 and n.kind != "CtorInit":
                        # a direct store to the buffer field: locals copied from it keep the OLD block on purpose
                        # (old = _ptr; _ptr = p; free(old)) — only a later *dereference* is suspicious
                        s = frozenset(d for d in s if ww[0][1] not in dep[d])
                    deref = None
                    if n.kind == "ArraySubscriptExpr":
                        deref = std_unwrap(n.children[0])
                    elif n.kind == "UnaryOperator" and n.op == "*":
                        deref = std_unwrap(n.children[0])
                    elif n.kind == "MemberExpr" and n.get("arrow") and n.children:
                        deref = std_unwrap(n.children[0])
                    if deref is not None and deref.kind == "DeclRefExpr" and deref.d["d"] in dep and deref.d["d"] not in s:
                        bad.append("%s is dereferenced at %s after the storage it points into may have been replaced" % (deref.n, n.loc))
                    return [s]
                flow.run(f, [frozenset()], transfer, None, limit=200000)
                ctx.inst(rule, "%s::%s" % (cls, f.sig.split("::")[-1]), not bad, f.loc,
                         "; ".join(sorted(set(bad))[:2]) if bad else "%d storage pointers, none used after a reallocating call" % len(dep), f)
            if n_locals == 0:
                ctx.broken("%s: no local storage pointers found (anchor vanished)" % rec["qn"])


class StorageClass:
    """Does a pointer expression of a member function designate storage reached through the object's own fields (the
    buffer field, inline storage, the result of a storage accessor, a local or parameter bound to one of them), or a
    fresh allocation?  on(f) -> classifier(node) -> True (own storage) / False (fresh allocation) / None (unknown);
    resolved through locals, parameter bindings of virtually inlined helpers, `&p[i]`, `p + k` and casts."""

    def __init__(self, rec, fns):
        self.ptr_fields = {fl["n"] for fl in rec["fields"] if fl.get("ptr")}
        self.stor_fields = {fl["n"] for fl in rec["fields"] if "aligned_storage" in fl["t"]}
        both = self.ptr_fields | self.stor_fields
        acc = set()         # members returning a pointer into the storage
        for g in fns:
            if "*" in (g.get("ret") or "") and any(
                    x.kind == "MemberExpr" and x.get("mk") == "Field" and x.m in both and path(x) == ("this", x.m)
                    for r in g.return_nodes() if r.child("val") is not None for x in r.child("val").walk()):
                acc.add(g.did)
        grew = True
        while grew:
            grew = False
            for g in fns:
                if g.did in acc or "*" not in (g.get("ret") or ""):
                    continue
                for r in g.return_nodes():
                    v = r.child("val")
                    if v is not None and any(x.is_call() and x.callee and x.callee.get("did") in acc for x in std_unwrap(v).walk()):
                        acc.add(g.did); grew = True
        self.acc = acc

    def on(self, f):
        inits = RA.local_inits(f)
        bind = f.bind_map()
        both = self.ptr_fields | self.stor_fields
        acc = self.acc

        def old_storage(node, depth=0, seen=None):
            seen = seen if seen is not None else set()
            if node is None or depth > 10:
                return None
            x = std_unwrap(node)
            while True:
                if x.kind == "UnaryOperator" and x.op == "&" and x.children:
                    x = std_unwrap(x.children[0]); continue
                if x.kind == "ArraySubscriptExpr":
                    x = std_unwrap(x.children[0]); continue
                if x.kind == "BinaryOperator" and x.op in ("+", "-"):
                    x = std_unwrap(x.children[0]); continue
                if x.kind in ("CXXReinterpretCastExpr", "CStyleCastExpr", "CXXStaticCastExpr", "ParenExpr", "ImplicitCastExpr") and x.children:
                    x = std_unwrap(x.children[0]); continue
                break
            if x.kind == "MemberExpr" and x.get("mk") == "Field":
                p_ = path(x)
                if p_ and p_[0] == "this" and len(p_) >= 2 and p_[1] in both:
                    return True
                if x.children:
                    return old_storage(x.children[0], depth + 1, seen)
            if x.kind == "CXXMemberCallExpr" and x.callee and x.callee.get("did") in acc and path(x.child("obj")) == ("this",):
                return True
            if x.is_call() and x.callee and x.callee["n"] in ("allocate",):
                return False
            if x.kind == "DeclRefExpr" and x.get("local"):
                d = x.d["d"]
                if d in seen:
                    return None
                seen.add(d)
                if d in bind:
                    return old_storage(f.node(bind[d]), depth + 1, seen)
                if d in inits and (not RA._reassigned(f, d) or only_stepped(d)):
                    return old_storage(inits[d], depth + 1, seen)
            return None

        def only_stepped(d):
            """a pointer that is only ever advanced (++, --, += k, -= k) stays in the storage it was initialised to point into"""
            for y in f.all_nodes():
                if y.kind == "BinaryOperator" and y.op == "=":
                    l = y.children[0].strip()
                    if l.kind == "DeclRefExpr" and l.d["d"] == d:
                        return False
                if y.kind == "UnaryOperator" and y.op == "&":
                    l = y.children[0].strip()
                    if l.kind == "DeclRefExpr" and l.d["d"] == d:
                        return False
            return True
        return old_storage


def check_built_into_kept_storage(ctx, unit, classes, rule="K.built-into-kept-storage"):
    """Growth constructs the new element(s) BEFORE the old elements are relocated (so that an argument that aliases an
    element is still alive).  The new element therefore has to be built in the array that is kept: on a path on which the
    buffer field is replaced (or the old block freed), a placement new whose address designates the storage the container
    had on entry -- the buffer field, the result of a storage accessor fetched before, a lambda parameter bound to
    either -- builds an object in storage that the same call abandons.  Decided per path on the member together with
    its new helpers / lambdas (virtually inlined); what a pointer designates is resolved through locals, parameter
    bindings, `&p[i]` and `p + k`."""
    ctx.rule(rule, "no element is constructed (placement new) in the storage a container had on entry on a path that afterwards replaces the "
             "buffer field or frees that storage: a new element is built in the array that is kept", len(classes))
    for cls in classes:
        n_new = 0
        for rec in recs_of(unit, cls):
            fns = cls_fns(unit, rec["qn"])
            by_did = {f.did: f for f in fns}
            sc = StorageClass(rec, fns)
            ptr_fields = sc.ptr_fields
            for f in fns:
                if f.kind == "dtor":
                    continue
                old_storage = sc.on(f)
                news = {}
                for n in f.events():
                    if n.kind == "CXXNewExpr" and n.get("placement") and n.get("pargs"):
                        if old_storage(f.node(n.get("pargs")[0])) is True:
                            news[n.id] = n
                if not news:
                    continue
                n_new += len(news)
                bad = []

                def transfer(n, st, f=f, news=news):
                    if n.id in news:
                        return [st | {n.id}]
                    if st:
                        gone = None
                        w = write_of(n)
                        if w and w[0] and w[0][0] == "this" and len(w[0]) == 2 and w[0][1] in ptr_fields and n.kind != "CtorInit":
                            gone = "the buffer field %s is replaced at %s" % (w[0][1], n.loc)
                        elif n in free_calls(f) and n.kind == "CXXMemberCallExpr" and n.args and old_storage(n.args[0]) is True:
                            gone = "that storage is freed at %s" % n.loc
                        if gone:
                            for i in st:
                                bad.append("an element is constructed at %s in the storage the container had on entry, and %s on the same path" % (news[i].loc, gone))
                            return [frozenset()]
                    return [st]
                flow.run(f, [frozenset()], transfer, None, limit=200000)
                ctx.inst(rule, f.sig, not bad, f.loc,
                         "; ".join(sorted(set(bad))[:2]) if bad else "%d placement new(s) into the current storage, none on a path that gives that storage up" % len(news), f)
        if n_new == 0:
            ctx.broken("%s: no placement new into the container's storage found (anchor vanished)" % cls)


# ---- R: reference-collapsing parameters are forwarded, not moved ---------------------------------------------------

def check_forward_collapsed(ctx, unit, fns, rule="R.forward-collapsed"):
    """A parameter declared `X &&` with X a template type parameter collapses to an lvalue reference when X is deduced /
    given as an lvalue reference type.  In such an instantiation the caller still owns the object: applying std::move to
    the parameter, or to anything reached through it, steals from the caller's lvalue.  (swap(T &a, T &b)-style code is not
    concerned: its parameters are declared as lvalue references.)"""
    ctx.rule(rule, "in instantiations where a `X &&` template parameter has collapsed to an lvalue reference, nothing reached through "
             "that parameter is passed to std::move (it must be std::forward-ed)", 2)
    n_inst = 0
    for f in fns:
        lv = {p["d"]: p for p in f.params() if p.get("collapsing") and p["t"].rstrip().endswith("&") and not p["t"].rstrip().endswith("&&")
              and not p["t"].lstrip().startswith("const ")}
        if not lv:
            continue
        n_inst += 1
        bad = []
        for n in f.events():
            if n.kind == "CallExpr" and n.callee and n.callee["uq"] in ("std::move",) and n.args:
                for x in n.args[0].walk():
                    if x.kind == "DeclRefExpr" and x.d.get("d") in lv:
                        bad.append("std::move(%s) at %s although `%s` is an lvalue reference here (%s)" % (
                            canon(n.args[0])[:60].split("#")[0], n.loc, lv[x.d["d"]]["n"], lv[x.d["d"]]["t"][:50]))
        ctx.inst(rule, f.sig[:160], not bad, f.loc, "; ".join(sorted(set(bad))[:2]) if bad else
                 "%d collapsed lvalue-reference parameter(s), none moved from" % len(lv), f)
    if n_inst < 2:
        raise AnalysisBroken("anchor vanished: instantiations with a collapsed lvalue-reference parameter (found %d)" % n_inst)


def check_move_through_reference_member(ctx, unit, fns, rule="R.move-through-reference-member"):
    """A data member of lvalue-reference type designates an object that belongs to somebody else.  std::move applied to
    such a member of a (moved-from) source -- `item(std::move(other.item))` with `item` of type `X &` -- moves out of the
    referenced object (std::tuple / std::pair forward the member with its declared type instead)."""
    ctx.rule(rule, "std::move is never applied to a data member whose declared type (in that instantiation) is an lvalue reference", 1)
    recs = {r["qn"]: r for r in unit.records}
    n_inst = 0
    for f in fns:
        refm = {}       # param decl id -> {field names of lvalue-reference type}
        for p_ in f.params():
            t = p_["t"].rstrip()
            base = t[:-2].rstrip() if t.endswith("&&") else (t[:-1].rstrip() if t.endswith("&") else t)
            if base.startswith("const "):
                base = base[6:]
            r = recs.get(base)
            if r is None:
                # the type may be spelled without its namespace (injected class name of a sibling instantiation)
                cand = [x for x in unit.records if x["uq"] == (p_.get("rt") or "") and x["qn"].endswith(base)]
                r = cand[0] if len(cand) == 1 else None
            if r is None:
                continue
            fl = {x["n"] for x in r["fields"] if x["t"].rstrip().endswith("&") and not x["t"].rstrip().endswith("&&")}
            if fl:
                refm[p_["d"]] = fl
        if not refm:
            continue
        n_inst += 1
        bad = []
        for n in f.events():
            if n.kind == "CallExpr" and n.callee and n.callee["uq"] == "std::move" and n.args:
                a = n.args[0].strip()
                if a.kind == "MemberExpr" and a.get("mk") == "Field" and a.children:
                    b = std_unwrap(a.children[0])
                    if b.kind == "DeclRefExpr" and b.d.get("d") in refm and a.m in refm[b.d["d"]]:
                        bad.append("std::move(%s) at %s: `%s` is declared as an lvalue reference here, the move empties the object it refers to" % (
                            canon(a).split("#")[0] + "." + a.m if False else canon(a)[:60], n.loc, a.m))
        ctx.inst(rule, f.sig[:160], not bad, f.loc, "; ".join(sorted(set(bad))[:2]) if bad else
                 "source has reference member(s) %s, none is moved from" % sorted(set().union(*refm.values())), f)
    if n_inst == 0:
        raise AnalysisBroken("anchor vanished: a function whose parameter is a record with lvalue-reference members")


# ---- O: growth must not invalidate the argument it is about to copy --------------------------------------------------

def check_grow_then_read_arg(ctx, unit, classes, rule="O.arg-survives-growth", elem_types=(), min_inst=None):
    """push/emplace/resize take their argument by reference.  The caller may pass a reference to an element of the same
    container (v.push(v[0]), s.push(s.top())): if the member first lets a helper relocate the elements and release the old
    buffer, and only then constructs the new element from the argument, it reads a destroyed object in freed storage.
    (std::vector guarantees this use.)"""
    ctx.rule(rule, "a member that takes an element / constructor arguments by reference does not read them after a call, on *this, of a "
             "helper that may destroy the elements and release the buffer (the argument may alias an element)",
             len(classes) if min_inst is None else min_inst)
    for cls in classes:
        if not recs_of(unit, cls):
            raise AnalysisBroken("anchor vanished: record %s" % cls)
        for rec in recs_of(unit, cls):
            fns = cls_fns(unit, rec["qn"])
            # members that may end the lifetime of elements: they free a block or destroy elements explicitly
            sc_ = StorageClass(rec, fns)

            def moved_out(g):
                """std::move applied to an element of the container's own storage: the element keeps living, but an argument
                that aliases it reads a moved-from value afterwards"""
                old = sc_.on(g)
                out = []
                for n in g.events():
                    if n.kind == "CallExpr" and n.callee and n.callee["uq"] == "std::move" and n.args:
                        a = n.args[0].strip()
                        if a.kind in ("ArraySubscriptExpr", "UnaryOperator") and old(a) is True:
                            out.append(n)
                return out

            def kills(g):
                return [n for n in g.events() if is_dtor_call(n) is not None] + list(free_calls(g)) + moved_out(g)
            may = {f.did for f in fns if kills(f) and f.kind != "dtor"}
            grew = True
            while grew:
                grew = False
                for f in fns:
                    if f.did in may or f.kind == "dtor":
                        continue
                    if any(n.is_call() and n.callee and n.callee.get("did") in may and n.kind == "CXXMemberCallExpr" and path(n.child("obj")) == ("this",)
                           for n in f.events()):
                        may.add(f.did)
                        grew = True
            n_decided = 0
            n_pub = len([f for f in fns if f.kind not in ("ctor", "dtor") and f.get("access") != "private"])
            for f in fns + [None]:
                if f is None:
                    if not n_decided:
                        # nothing of this instantiation takes an element by reference and relocates: say so (the rule has
                        # its firing instances on the vector classes and in the mutant corpus)
                        ctx.inst(rule, rec["qn"] + " (all members)", True, rec.get("loc", ""),
                                 "%d public members, %d may release the buffer; none of them takes an element or a container of its "
                                 "own class by reference and relocates before reading it" % (n_pub, len(may)), None)
                    continue
                if f.kind in ("ctor", "dtor") or f.get("access") == "private":
                    continue
                refp = {p["d"]: p for p in f.params() if p["t"].rstrip().endswith("&") and (
                    (p.get("rt") or "") == ELEM or p.get("collapsing")
                    or p["t"].replace("const ", "").rstrip("& ").strip() in elem_types)}
                # an assignment-like member that takes another container of its own class by reference: the source may be
                # *this (v = v, rows[i] = rows[perm[i]]); it must be read before anything of *this is destroyed, unless
                # the member has established that the two are different objects
                same = {p["d"]: p for p in f.params() if p["t"].rstrip().endswith("&") and (p.get("rt") or "") == cls and f.name != "swap"}
                refp.update(same)
                if not refp:
                    continue
                rel = [n for n in f.events() if n.is_call() and n.callee and n.callee.get("did") in may and n.kind == "CXXMemberCallExpr"
                       and path(n.child("obj")) == ("this",)]
                rel += kills(f)
                if not rel:
                    continue
                bad = []

                def distinct_known(n):
                    for cond, truth in flow.facts_at(f, n.id):
                        c, t = cond.strip(), truth
                        while c.kind == "UnaryOperator" and c.op == "!":
                            c, t = c.children[0].strip(), not t
                        if c.kind == "BinaryOperator" and c.op in ("==", "!=") and ((c.op == "!=") == t):
                            sides = [x.strip() for x in c.children]
                            if any(x.kind == "CXXThisExpr" for x in sides) and any(x.kind == "UnaryOperator" and x.op == "&" for x in sides):
                                return True
                    return False
                for n in f.events():
                    if n.kind == "DeclRefExpr" and n.d.get("d") in refp:
                        for r in rel:
                            if f.reaches(r.id, n.id):
                                if n.d["d"] in same and distinct_known(n):
                                    continue
                                bad.append((n, r))
                n_decided += 1
                ctx.inst(rule, f.sig, not bad, f.loc,
                         ("argument `%s` is read at %s after %s at %s may have destroyed or moved from the elements (or released the old buffer)" % (
                             refp[bad[0][0].d["d"]]["n"], bad[0][0].loc, (bad[0][1].callee["n"] + "()") if bad[0][1].callee else "the explicit destructor call",
                             bad[0][1].loc)) if bad else
                         "arguments are consumed before any relocation", f)


def check_raw_storage_moves(ctx, unit, classes, rule="O.storage-not-byte-swapped"):
    """A member array of aligned_storage holds live T objects.  Exchanging / assigning that array as a whole moves the
    objects as raw bytes: no move constructor, no destructor, and objects with interior pointers (short strings,
    self-referential nodes) are left pointing into the other container."""
    ctx.rule(rule, "the inline element storage of a container is never swapped, assigned or memcpy'd as a whole (elements are "
             "relocated only through T's move constructor and destructor)", len(classes))
    for cls in classes:
        for rec in recs_of(unit, cls):
            stor = [fl["n"] for fl in rec["fields"] if "aligned_storage" in fl["t"]]
            if not stor:
                raise AnalysisBroken("anchor vanished: inline storage member of %s" % rec["qn"])
            bad = []
            fns = cls_fns(unit, rec["qn"]) + [f for f in unit.functions if f.name == "swap" and any((p.get("rt") or "") == cls for p in f.params())]
            seen = set()
            for f in fns:
                if f.did in seen:
                    continue
                seen.add(f.did)
                for n in f.events():
                    if n.is_call() and n.callee and n.callee["n"] in ("swap", "memcpy", "memmove", "__builtin_memcpy") and n.args:
                        for a in n.args:
                            p_ = path(a)
                            if p_ and p_[-1] in stor and len(p_) == 2:
                                bad.append("%s(%s) at %s in %s" % (n.callee["n"], ".".join(p_).split("#")[0], n.loc, f.name))
                    w = write_of(n)
                    if w and w[0] and w[0][-1] in stor and len(w[0]) == 2 and n.kind == "BinaryOperator":
                        bad.append("assignment to %s at %s in %s" % (".".join(w[0]).split("#")[0], n.loc, f.name))
            ctx.inst(rule, cls, not bad, rec["loc"], ("; ".join(sorted(set(bad))[:2]) + ": live elements are exchanged as raw bytes") if bad else
                     "storage member %s is only accessed element-wise" % stor, None)


# ---- I.capacity-storage-paired: the heap pointer and the capacity of a small_vector change together -----------------------

def check_capacity_storage_paired(ctx, unit, cls="frg::small_vector", rule="I.capacity-storage-paired"):
    """small_vector relies on `capacity <= N  =>  heap pointer == nullptr` (its growth path frees the heap pointer without
    asking which storage is in use).  The invariant is kept because the two fields only ever change together: both are
    initialised, both are swapped, both are replaced by growth.  A member that writes one of them for an object without the
    other on some path -- or writes the inline extent N to the capacity next to a non-null pointer -- breaks the pairing.
    The fields are found structurally (the pointer field; the integer field the default constructor initialises with N)."""
    ctx.rule(rule, "the heap pointer and the capacity of one small_vector object are written on the same paths (initialised, swapped "
             "or replaced together), and the inline extent N is written to the capacity only next to a null heap pointer", 3)
    for rec in recs_of(unit, cls):
        fns = cls_fns(unit, rec["qn"]) + [f for f in unit.functions if f.name == "swap" and f.owner_cls is None and
                                           any((p.get("rt") or "") == cls and rec["qn"] in (p.get("t") or "") for p in f.params())]
        heap = [fl["n"] for fl in rec["fields"] if fl.get("ptr")]
        capf, N = None, None
        for f in fns:
            if f.kind != "ctor":
                continue
            for n in f.events():
                if n.kind == "CtorInit" and n.get("field") and n.get("init") is not None:
                    iv = f.node(n.get("init"))
                    x = iv
                    while x is not None and x.kind in ("ImplicitCastExpr", "ParenExpr", "CXXDefaultInitExpr") and x.children:
                        x = x.children[0]
                    if x is not None and x.kind == "SubstNonTypeTemplateParmExpr" and iv.strip().cv() is not None:
                        capf, N = n.get("field"), iv.strip().cv()
        if len(heap) != 1 or capf is None:
            raise AnalysisBroken("anchor vanished: %s: heap pointer field / capacity field" % rec["qn"])
        heap = heap[0]
        seen = set()
        n_inst = 0
        for f in fns:
            if f.did in seen or f.get("lambda"):
                continue
            seen.add(f.did)

            def labels(n, f=f):
                out = []
                if n.kind == "CtorInit" and n.get("field") in (heap, capf) and n.get("init") is not None:
                    v = f.node(n.get("init")).strip()
                    q = ":null" if (n.get("field") == heap and (v.kind in ("CXXNullPtrLiteralExpr", "GNUNullExpr") or v.cv() == 0)) else \
                        (":N" if (n.get("field") == capf and v.cv() == N and _is_tparam(v)) else "")
                    out.append(("this", n.get("field"), q))
                    return out
                w = write_of(n)
                if w and w[0] and len(w[0]) == 2 and w[0][-1] in (heap, capf) and n.kind in ("BinaryOperator", "CompoundAssignOperator"):
                    v = w[1].strip() if w[1] is not None else None
                    q = ""
                    if v is not None and w[0][-1] == heap and (v.kind in ("CXXNullPtrLiteralExpr", "GNUNullExpr") or v.cv() == 0):
                        q = ":null"
                    if v is not None and w[0][-1] == capf and v.cv() == N and _is_tparam(v):
                        q = ":N"
                    out.append((w[0][0].split("#")[0], w[0][-1], q))
                if n.kind == "CallExpr" and n.callee and n.callee["n"] in ("swap", "exchange") and n.args:
                    for a in n.args[:2]:
                        p_ = path(a)
                        if p_ and len(p_) == 2 and p_[-1] in (heap, capf):
                            out.append((p_[0].split("#")[0], p_[-1], ""))
                return out

            def transfer(n, st):
                ls = labels(n)
                return [st | frozenset(ls)] if ls else [st]
            if not any(labels(n) for n in f.events()):
                continue
            _, ex = flow.run(f, [frozenset()], transfer, None, limit=20000)
            bad = []
            for st in ex:
                objs = {o for (o, _, _) in st}
                for o in objs:
                    hw = [q for (o2, fl, q) in st if o2 == o and fl == heap]
                    cw = [q for (o2, fl, q) in st if o2 == o and fl == capf]
                    if bool(hw) != bool(cw):
                        bad.append("on a path %s.%s is written and %s.%s is not" % (o, heap if hw else capf, o, capf if hw else heap))
                    elif ":N" in cw and ":null" not in hw:
                        bad.append("on a path %s.%s becomes the inline extent while %s.%s is not set to null" % (o, capf, o, heap))
            n_inst += 1
            ctx.inst(rule, f.sig, not bad, f.loc,
                     ("; ".join(sorted(set(bad))[:2]) + ": growth frees the heap pointer whenever the capacity is exceeded, inline or not") if bad else
                     "pointer and capacity change together on every path", f)
        if n_inst < 3:
            raise AnalysisBroken("anchor vanished: members of %s that write the heap pointer / capacity (found %d)" % (rec["qn"], n_inst))


def _is_tparam(v):
    x = v
    hops = 0
    while x is not None and x.kind in ("ImplicitCastExpr", "ParenExpr") and x.children and hops < 6:
        x, hops = x.children[0], hops + 1
    return x is not None and x.kind == "SubstNonTypeTemplateParmExpr"


# ---- member initialisers read only what is already initialised -----------------------------------------------------

def init_reads_uninitialised(f, order):
    """[(CtorInit node, field read, why)]: a member initialiser whose expression reads (not merely takes the address of) the
    member it initialises, or a member of the same object that is declared -- hence initialised -- later."""
    out = []
    for n in f.events():
        if n.kind != "CtorInit" or not n.get("field") or n.get("init") is None or n.d.get("inlined"):
            continue
        me = n.get("field")
        init = f.node(n.get("init"))
        skip = set()
        for x in init.walk():
            if (x.kind == "UnaryOperator" and x.op == "&") or x.kind == "UnaryExprOrTypeTraitExpr":
                for y in x.walk():
                    skip.add(y.id)
        for x in init.walk():
            if x.id in skip or x.kind != "MemberExpr" or x.get("mk") != "Field" or not x.children:
                continue
            b = x.children[0].strip()
            if b.kind != "CXXThisExpr":
                continue
            if x.get("m") == me and (x.get("md") is None or n.get("md") is None or x.get("md") == n.get("md")):
                out.append((n, x.get("m"), "itself"))
            elif me in order and x.get("m") in order and order.index(x.get("m")) > order.index(me):
                out.append((n, x.get("m"), "%s, which is declared (and so initialised) after %s" % (x.get("m"), me)))
    return out


def check_init_reads(ctx, unit, classes, rule="O.init-reads-initialised"):
    ctx.rule(rule, "no member initialiser reads the member it initialises or a member declared after it (such a read sees an "
             "object that has not been constructed yet: a comparator, hasher or allocator initialised from itself is lost)", len(classes))
    probe = [f for f in unit.functions if f.d.get("kind") == "ctor" and "SelfInitProbe" in f.uq]
    if not probe or not init_reads_uninitialised(probe[0], ["a", "b"]):
        raise AnalysisBroken("positive example wit::SelfInitProbe is not recognised (member initialised from itself)")
    for cls in classes:
        ctors = [f for f in unit.functions if f.d.get("kind") == "ctor" and ((f.owner_cls or "") == cls or (f.owner_cls or "").startswith(cls + "::")
                                                                           or (cls.endswith("::") and (f.owner_cls or "").startswith(cls)))]
        if not ctors:
            raise AnalysisBroken("anchor vanished: no constructor of %s in unit" % cls)
        orders = {}
        for r in unit.records:
            orders.setdefault(r["uq"], [fl["n"] for fl in r["fields"]])
        bad = []
        n_init = 0
        for f in ctors:
            n_init += sum(1 for n in f.events() if n.kind == "CtorInit" and n.get("field") and n.get("init") is not None)
            for n, fld, why in init_reads_uninitialised(f, orders.get(f.owner_cls, [])):
                bad.append((n.loc, "%s: the initialiser of %s reads %s" % (f.owner_cls.split("::")[-1], n.get("field"), why)))
        ctx.inst(rule, cls.rstrip(":"), not bad, bad[0][0] if bad else ctors[0].loc,
                 "; ".join(sorted(set(b[1] for b in bad))[:3]) if bad else
                 "%d member initialisers in %d constructors read only parameters and earlier members" % (n_init, len(ctors)), None)


# ---- a container owns its function objects --------------------------------------------------------------------------

def check_members_by_value(ctx, unit, classes, rule="W.members-owned", min_fields=2):
    """A container keeps its own copy of the function objects and allocators it was built with (hasher, comparator, allocator):
    none of its data members is a reference to an object of the caller, whose later change or death would silently change how
    stored elements are found."""
    ctx.rule(rule, "no data member of the container is a reference: the hasher / comparator / allocator handed to the constructor "
             "is copied, so the container keeps finding its elements whatever happens to the caller's object", len(classes))
    for cls in classes:
        recs = [r for r in unit.records if r["uq"] == cls]
        if not recs:
            raise AnalysisBroken("anchor vanished: record %s" % cls)
        nf = sum(len(r["fields"]) for r in recs)
        if nf < min_fields:
            raise AnalysisBroken("anchor vanished: data members of %s (found %d)" % (cls, nf))
        bad = sorted({"%s is declared %s" % (fl["n"], fl["t"]) for r in recs for fl in r["fields"] if (fl.get("t") or "").rstrip().endswith("&")})
        ctx.inst(rule, cls, not bad, recs[0].get("loc", ""), "; ".join(bad[:3]) if bad else
                 "%d data members in %d instantiation(s), none of reference type" % (nf, len(recs)), None)


# ---- the holder lets go before it destroys ------------------------------------------------------------------------------

def check_detach_before_destroy(ctx, unit, classes, rule="O9.detach-before-destroy"):
    """reset() and the assignments of an owning pointer destroy the old object through a local copy taken after (or while) the
    field was given its new value -- never through the field itself: T's destructor may reach the holder again (a node that
    resets the slot it hangs in), and a field that still names the dying object has it destroyed twice."""
    ctx.rule(rule, "outside the destructor an owning pointer never destroys or frees the object through its own pointer field: the "
             "field is redirected first and the old object is released through a local (a destructor that re-enters the holder "
             "must not find the dying object still owned)", len(classes))
    for cls in classes:
        recs = recs_of(unit, cls)
        if not recs:
            raise AnalysisBroken("anchor vanished: record %s" % cls)
        for rec in recs[:1]:
            ptrf = {fl["n"] for fl in rec["fields"] if fl.get("ptr")}
            fns = [f for f in cls_fns(unit, rec["qn"]) if f.kind not in ("dtor", "ctor")]
            n_rel = 0
            for f in fns:
                rel = []
                for n in f.events():
                    o = is_dtor_call(n)
                    if o is not None:
                        rel.append((n, o, "destroyed"))
                for n in free_calls(f):
                    if n.args:
                        rel.append((n, n.args[0], "freed"))
                if not rel:
                    continue
                n_rel += 1
                bad = []
                for n, o, what in rel:
                    po = path(o) or path(std_unwrap(o))
                    if po and po[0] == "this" and len(po) >= 2 and po[1] in ptrf:
                        bad.append("the object is %s through this->%s at %s" % (what, po[1], n.loc))
                ctx.inst(rule, f.sig, not bad, f.loc, "; ".join(sorted(set(bad))[:2]) + ": the holder still owns it while ~T runs" if bad else
                         "%d release(s), each through a local taken from the field" % len(rel), f)
            if not n_rel:
                raise AnalysisBroken("anchor vanished: no member of %s besides the destructor releases the object" % cls)


# ---- swap relocates into storage that holds nothing ------------------------------------------------------------------

def check_swap_targets(ctx, unit, classes, rule="O.swap-into-empty-storage"):
    """small_vector's swap moves inline elements to the other operand.  The destination of such a relocation is the other
    operand's INLINE array -- empty whenever that operand keeps its elements on the heap.  `_get_container()` of an operand
    that is known, on that path, not to be small is its heap buffer, which holds its live elements: relocating there
    constructs over them.  The small/large knowledge is derived from the branch facts by enumerating the truth values of the
    `_is_small()` calls that are consistent with them."""
    import itertools
    ctx.rule(rule, "in swap() no relocation or placement-new targets the heap buffer of an operand (`_elements`, or `_get_container()` of an "
             "operand known not to be small on that path): that buffer holds the operand's live elements", len(classes))
    for cls in classes:
        sws = [f for f in unit.functions if f.name == "swap" and sum(1 for p in f.params() if (p.get("rt") or "") == cls) == 2]
        if not sws:
            raise AnalysisBroken("anchor vanished: swap of %s" % cls)
        for f in sws[:1]:
            def small_atom(x):
                x = std_unwrap(x)
                if x.is_call() and x.callee and x.callee["n"] == "_is_small" and x.child("obj") is not None:
                    return canon(std_unwrap(x.child("obj")))
                return None

            def known_small(obj_canon, at):
                """True / False / None from the facts at element `at`"""
                facts = flow.facts_at(f, at.id)
                atoms = set()
                for c, t in facts:
                    for y in c.walk():
                        a = small_atom(y)
                        if a is not None:
                            atoms.add(a)
                atoms.add(obj_canon)
                atoms = sorted(atoms)
                if len(atoms) > 6:
                    return None
                seen = set()
                for vals in itertools.product((0, 1), repeat=len(atoms)):
                    env = dict(zip(atoms, vals))
                    ok = True
                    for c, t in facts:
                        v = flow.sem_eval(c, lambda leaf: env.get(small_atom(leaf)) if small_atom(leaf) is not None else None)
                        if v is not None and bool(v) != bool(t):
                            ok = False
                            break
                    if ok:
                        seen.add(env[obj_canon])
                if seen == {1}:
                    return True
                if seen == {0}:
                    return False
                return None
            inits = RA.local_inits(f)
            bm_ = f.bind_map()
            bad, n_t = [], 0
            targets = []
            for n in f.events():
                if n.is_call() and n.callee and n.callee["n"] == "_relocate" and len(n.args) >= 3:
                    targets.append((n, n.args[-1]))
                elif n.kind == "CXXNewExpr" and n.get("placement") and n.get("pargs"):
                    targets.append((n, f.node(n.get("pargs")[0])))
            for n, d in targets:
                n_t += 1
                roots = []
                work = [d]
                hops = 0
                while work and hops < 40:
                    x = work.pop()
                    hops += 1
                    for y in x.walk():
                        if y.kind == "DeclRefExpr" and y.get("local") and y.d["d"] in inits and not RA._reassigned(f, y.d["d"]):
                            work.append(inits[y.d["d"]])
                        elif y.kind == "DeclRefExpr" and y.d.get("d") in bm_:
                            work.append(f.node(bm_[y.d["d"]]))     # parameter of a folded helper (_relocate's destination)
                        if y.is_call() and y.callee and y.callee["n"] in ("_get_container", "_inline_array") and y.child("obj") is not None:
                            roots.append((y.callee["n"], canon(std_unwrap(y.child("obj"))), y))
                        if y.kind == "MemberExpr" and y.get("m") == "_elements":
                            roots.append(("_elements", canon(std_unwrap(y.children[0])) if y.children else "?", y))
                for kind, obj, y in roots:
                    if kind == "_elements":
                        bad.append("%s: the destination at %s is the heap buffer of %s" % (f.name, n.loc, obj.split("#")[0]))
                    elif kind == "_get_container":
                        ks = known_small(obj, y)
                        if ks is not True:
                            bad.append("%s: the destination at %s is _get_container() of %s, which is %s on that path: its heap buffer holds its "
                                       "live elements" % (f.name, n.loc, obj.split("#")[0].replace("p:", ""), "not small" if ks is False else "not known to be small"))
            if n_t < 3:
                raise AnalysisBroken("anchor vanished: relocations / placement-news in swap of %s (found %d)" % (cls, n_t))
            ctx.inst(rule, "%s: swap" % cls, not bad, f.loc, "; ".join(sorted(set(bad))[:2]) if bad else
                     "%d relocation / construction targets, all inline storage or the inline array of a small operand" % n_t, f)


def check_members_initialised(ctx, unit, classes, rule="I.members-initialised", exempt=()):
    """Every constructor of the listed classes gives every scalar data member (integer, bool, pointer, enumeration) a value:
    through a member initialiser, a default member initialiser, an assignment in its body, or a member function of the same
    object called from its body that assigns it.  `T *a, *b = nullptr;` initialises b only; a defaulted constructor
    initialises exactly the members that have a default member initialiser.  What a link field or a ticket counter holds
    when the object is placed in recycled storage is otherwise whatever was there."""
    from .rules_guard import write_of
    ctx.rule(rule, "every constructor initialises every scalar data member of its class (member initialiser, default member "
             "initialiser, assignment in the body, or an assigning member called from the body): no link, counter or flag starts "
             "with the previous contents of its storage", 1)
    byd = {f.did: f for f in unit.functions}
    for cls in classes:
        recs = unit.record(cls)
        if not recs:
            raise AnalysisBroken("anchor vanished: class %s in unit %s" % (cls, unit.name))
        seen = set()
        for rec in recs:
            scal = [fl for fl in rec["fields"] if (fl.get("bits") or fl.get("ptr") or fl["t"] in ("bool", "float", "double") or fl.get("enum"))
                    and not fl.get("extent") and (cls, fl["n"]) not in exempt]
            need = [fl["n"] for fl in scal if not fl.get("dmi")]
            ctors = [m for m in rec["methods"] if m.get("kind") == "ctor" and not m.get("deleted") and not m.get("copy") and not m.get("move")]
            if not ctors:
                # no constructor declared: the implicit one initialises what has a default member initialiser
                key = (rec["uq"], "implicit")
                if key not in seen and need and not rec.get("aggregate"):
                    seen.add(key)
                    ctx.inst(rule, "%s: implicit default constructor" % cls, False, rec["loc"],
                             "member(s) %s have no default member initialiser and no constructor gives them a value" % need, None)
                continue
            for m in ctors:
                f = byd.get(m["did"])
                label = "%s::<ctor> at %s" % (cls, m["loc"].split("/")[-1])
                if label in seen:
                    continue
                seen.add(label)
                if f is None or not f.blocks and not any(n.kind == "CtorInit" for n in f.all_nodes()):
                    if m.get("defaulted") or not m.get("userprovided"):
                        ctx.inst(rule, label, not need, m["loc"], ("defaulted constructor; member(s) %s have no default member initialiser" % need)
                                 if need else "defaulted constructor; every scalar member has a default member initialiser", None)
                    continue
                inits = [n for n in f.all_nodes() if n.kind == "CtorInit"]
                if any(n.get("delegating") for n in inits):
                    continue
                have = {n.get("field") for n in inits if n.get("field") and n.d.get("init") is not None}
                # a member of class type constructed by its own constructor (a dissolved state struct): what that
                # constructor initialises
                for n in f.all_nodes():
                    if n.kind in ("CXXConstructExpr", "CXXTemporaryObjectExpr") and n.callee and n.callee.get("did") in byd:
                        g = byd[n.callee["did"]]
                        if g.kind == "ctor":
                            have |= {y.get("field") for y in g.all_nodes() if y.kind == "CtorInit" and y.get("field") and y.d.get("init") is not None}
                            for y in g.all_nodes():
                                wy = write_of(y)
                                if wy and wy[0] and len(wy[0]) >= 2 and wy[0][0] == "this":
                                    have.add(wy[0][1])
                for n in f.all_nodes():
                    w = write_of(n)
                    if w and w[0] and len(w[0]) >= 2 and w[0][0] == "this":
                        have.add(w[0][1])
                    if n.is_call() and n.callee and n.callee.get("did") in byd and n.kind == "CXXMemberCallExpr":
                        o = n.child("obj")
                        if o is not None and path(o) == ("this",):
                            g = byd[n.callee["did"]]
                            for y in g.all_nodes():
                                wy = write_of(y)
                                if wy and wy[0] and len(wy[0]) >= 2 and wy[0][0] == "this":
                                    have.add(wy[0][1])
                miss = [x for x in need if x not in have]
                ctx.inst(rule, label, not miss, f.loc, ("member(s) %s are given no value" % miss) if miss else
                         "%d scalar members, all initialised" % len(scal), f)


def check_dtor_releases(ctx, unit, table, rule="O.dtor-releases"):
    """table: {class uq: buffer field}.  The destructor gives the buffer back on EVERY path on which the buffer pointer is not
    known to be null: `if(empty()) return;` ahead of the tear-down leaves the (empty) table of a drained container behind --
    whether there are elements says nothing about whether there is a block."""
    from .rules_guard import write_of
    ctx.rule(rule, "the destructor of an owning container reaches the release of its buffer on every path on which the buffer "
             "pointer is not known null (an early return for an EMPTY container leaks the block of a drained one)", len(table))
    for cls, fld in table.items():
        ds = [f for f in unit.functions if (f.owner_cls or "") == cls and f.kind == "dtor" and f.blocks]
        if not ds:
            raise AnalysisBroken("anchor vanished: destructor of %s" % cls)
        seen = set()
        for f in ds:
            if f.owner_clsqn in seen:
                continue
            seen.add(f.owner_clsqn)

            def rel(n):
                if n.is_call() and n.callee and n.callee["n"] in ("deallocate", "free") and n.args:
                    for a in n.args:
                        pa = path(a)
                        if pa and pa[0] == "this" and pa[-1] == fld:
                            return True
                return False
            if not any(rel(n) for n in f.all_nodes()):
                raise AnalysisBroken("anchor vanished: release of %s in ~%s" % (fld, cls))

            def tr(n, st):
                return ["released"] if rel(n) else [st]

            def rf(cond, truth, st):
                c, t = cond.strip(), truth
                while c.kind == "UnaryOperator" and c.op == "!":
                    c, t = c.children[0].strip(), not t
                if c.kind == "BinaryOperator" and c.op in ("==", "!=") and any(x.strip().get("nullc") or x.strip().kind == "CXXNullPtrLiteralExpr" for x in c.children):
                    o = [x for x in c.children if not (x.strip().get("nullc") or x.strip().kind == "CXXNullPtrLiteralExpr")]
                    if o:
                        c, t = o[0].strip(), (t if c.op == "!=" else not t)
                pc = path(c)
                if pc and pc[0] == "this" and pc[-1] == fld and not t and st != "released":
                    return ["null"]
                return [st]
            _, ex = flow.run(f, ["held"], tr, rf)
            bad = [s_ for s_ in ex if s_ == "held"]
            ctx.inst(rule, "%s::~%s" % (f.owner_clsqn, cls.split("::")[-1]), not bad and bool(ex), f.loc,
                     "a path leaves the destructor without releasing %s although it may be non-null" % fld if bad else
                     "%s is released, or known null, on every path" % fld, f)


def check_assign_reads_source_first(ctx, unit, classes, rule="R.assign-reads-source-first"):
    """Copy assignment from `const C &other`: the source may live INSIDE an element of the destination (`node.kids =
    node.kids[0].kids`).  Destroying the destination's elements (clear(), resize, a destructor call, giving the buffer back)
    before the last read of `other` reads a destroyed object.  Taking the source by value, or building a copy first and
    swapping, has no such order problem."""
    ctx.rule(rule, "operator= of a sequence container does not destroy its own elements or release its buffer before the last read "
             "of a by-reference source (the source may be a sub-object of one of those elements)", 1)
    DESTROY = {"clear", "resize", "destruct", "destruct_n", "free", "deallocate", "pop", "pop_back", "_destroy", "reset"}
    for cls in classes:
        fs = [f for f in unit.functions if (f.owner_cls or "") == cls and f.name == "operator=" and f.blocks]
        if not fs:
            continue        # (not instantiated, or deleted)
        seen = set()
        for f in fs:
            if f.sig in seen:
                continue
            seen.add(f.sig)
            ps = f.params()
            refs = [p for p in ps if (p.get("t") or "").rstrip().endswith("&") and not (p.get("t") or "").rstrip().endswith("&&")]
            if not refs:
                ctx.inst(rule, f.sig, True, f.loc, "takes its source by value (or as an rvalue): nothing of it can die with the old elements", f)
                continue
            od = refs[0]["d"]
            pos = f.positions()
            kills = [n for n in f.events() if n.id in pos and (
                (n.is_call() and n.callee and (n.callee["n"] in DESTROY or n.callee.get("kind") == "dtor"))
                or n.kind == "CXXPseudoDestructorExpr")]
            # only what acts on *this: a member call on this, or a call that is handed one of this's fields
            def on_this(n):
                o = n.child("obj") if n.kind == "CXXMemberCallExpr" else None
                if o is not None and path(o) and path(o)[0] == "this":
                    return True
                return any(path(a) and path(a)[0] == "this" for a in n.args) if n.is_call() else False
            kills = [n for n in kills if on_this(n)]
            bad = []
            for k in kills:
                for x in f.events():
                    if x.kind == "DeclRefExpr" and x.d.get("d") == od and x.id in pos and x.id != k.id and f.reaches(k.id, x.id) \
                            and x.id not in {y.id for y in k.walk()}:
                        bad.append("`%s` is read at %s after %s() at %s destroyed elements of *this" % (
                            refs[0]["n"], x.loc.split("/")[-1], k.callee["n"] if k.is_call() and k.callee else "a destructor", k.loc.split("/")[-1]))
                        break
            ctx.inst(rule, f.sig, not bad, f.loc, "; ".join(bad[:2]) if bad else "%d destroying calls on *this, none before a read of the source" % len(kills), f)


def check_move_ctor_complete(ctx, unit, classes, rule="W.move-carries-state"):
    """A user-written move (or copy) constructor replaces the member-wise one: every data member of the listed classes is
    protocol state, so each one is taken from the corresponding member of the source -- mentioned as `other.member` in an
    initialiser, an exchange, a splice -- or the whole object is swapped / delegated.  A member that is merely
    default-initialised silently drops what the source held in it."""
    ctx.rule(rule, "a user-written move/copy constructor mentions every data member of its source (or swaps / delegates the whole "
             "object): no piece of state is dropped on the way", len(classes))
    byd = {f.did: f for f in unit.functions}
    for cls in classes:
        recs = unit.record(cls)
        if not recs:
            raise AnalysisBroken("anchor vanished: class %s" % cls)
        rec = recs[0]
        ms = [m for m in rec["methods"] if m.get("kind") == "ctor" and (m.get("move") or m.get("copy")) and not m.get("deleted")
              and m.get("userprovided") and m.get("hasbody")]
        if not ms:
            ctx.inst(rule, cls, True, rec["loc"], "no user-written move/copy constructor: member-wise (or deleted)", None, nontrivial=False)
            continue
        for m in ms:
            f = byd.get(m["did"])
            if f is None or not f.params():
                continue
            od = f.params()[0]["d"]
            whole = any(n.is_call() and n.callee and n.callee["n"] in ("swap",) and any(
                std_unwrap(a).kind == "DeclRefExpr" and std_unwrap(a).d.get("d") == od for a in n.args) for n in f.all_nodes()) or \
                any(n.kind == "CtorInit" and n.get("delegating") for n in f.all_nodes())
            used = set()
            for n in f.all_nodes():
                if n.kind == "MemberExpr" and n.children:
                    b = std_unwrap(n.children[0])
                    if b.kind == "DeclRefExpr" and b.d.get("d") == od:
                        used.add(n.m)
            miss = [fl["n"] for fl in rec["fields"] if fl["n"] not in used]
            ok = whole or not miss
            ctx.inst(rule, "%s::<ctor>(%s)" % (cls, f.params()[0]["t"]), ok, f.loc,
                     "member(s) %s of the source are not carried over" % miss if not ok else
                     ("the whole object is swapped / delegated" if whole else "every member of the source is mentioned"), f)
