"""G — guard class conformance; S — swap completeness (shared helper)."""
from .ir import path, canon, std_unwrap, AnalysisBroken
from . import flow


def write_of(n):
    """(target path, value node or None) if element n writes a location."""
    k = n.kind
    if k == "BinaryOperator" and n.op == "=":
        ch = n.children
        return path(ch[0]), ch[1]
    if k == "CompoundAssignOperator":
        ch = n.children
        return path(ch[0]), None
    if k == "UnaryOperator" and n.op in ("++", "--"):
        return path(n.children[0]), None
    if k == "CtorInit" and n.get("field"):
        init = n.child("init")
        return ("this", n.get("field")), init
    if k == "CallExpr" and n.callee and n.callee.get("uq") == "std::exchange" and len(n.args) == 2:
        # `old = std::exchange(place, value)`: stores value into place (and yields what was there)
        return path(n.args[0]), n.args[1]
    return None


def const_bool(v):
    """Value node -> True/False if it is a boolean/integer constant."""
    if v is None:
        return None
    v = v.strip()
    if v.kind == "InitListExpr":
        ch = v.children
        if len(ch) == 1:
            return const_bool(ch[0])
        if len(ch) == 0:
            return False
        return None
    if v.kind == "CXXBoolLiteralExpr":
        return bool(v.get("bv"))
    c = v.cv()
    if c is not None:
        return c != 0
    return None


def guard_slots(unit, rec):
    """Derive (mutex field, flag field) of a guard class from its record: the
    pointer field and the bool field."""
    ptrs = [f for f in rec["fields"] if f.get("ptr")]
    flags = [f for f in rec["fields"] if f["t"] == "bool"]
    if len(ptrs) != 1 or len(flags) != 1 or len(rec["fields"]) != 2:
        raise AnalysisBroken("guard class %s no longer has one pointer field and one bool flag" % rec["qn"])
    return ptrs[0]["n"], flags[0]["n"]


SAT = 2  # counts saturate at 2 (= "two or more")


def move_ctor_effect(c, mfield, flag, own, init_state=None, full=False):
    """Symbolic execution of a guard's move constructor over (this.mutex, this.flag, other.mutex, other.flag):
    constructor initialisers, delegation to the (unowned) default constructor, whole-object swap, std::swap of two
    fields, std::exchange, plain assignments.  -> set of (this.mutex, this.flag, other.flag) over all exits."""
    ps = c.params()
    if len(ps) != 1:
        return set()
    oroot = "p:%s#%d" % (ps[0]["n"], ps[0]["d"])
    keys = {("this", mfield): 0, ("this", flag): 1, (oroot, mfield): 2, (oroot, flag): 3}
    init = init_state if init_state is not None else ("?", "?", "other.mutex@entry", "other.flag@entry")
    init = tuple(init) + ((),)          # last component: values of local temporaries, as a tuple of (decl id, value)

    def ev(x, st):
        """-> (value, state)"""
        x = std_unwrap(x)
        if x.kind == "DeclRefExpr" and x.get("local") and x.get("dk") == "Var":
            for d_, v_ in st[4]:
                if d_ == x.d["d"]:
                    return v_, st
        while x.kind in ("InitListExpr", "MaterializeTemporaryExpr", "ExprWithCleanups", "CXXBindTemporaryExpr") and len(x.children) == 1:
            x = std_unwrap(x.children[0])
        if x.kind == "CXXBoolLiteralExpr":
            return bool(x.get("bv")), st
        if x.kind == "CXXNullPtrLiteralExpr" or x.get("nullc"):
            return "null", st
        if x.kind == "CallExpr" and x.callee and x.callee["uq"] == "std::exchange" and len(x.args) == 2:
            k = keys.get(path(x.args[0]))
            v, st = ev(x.args[1], st)
            if k is None:
                return "?", st
            old = st[k]
            st = st[:k] + (v,) + st[k + 1:]
            return old, st
        k = keys.get(path(x))
        if k is not None:
            return st[k], st
        c_ = x.cv() if x.kind not in ("DeclRefExpr", "MemberExpr") else None
        if c_ is not None and x.kind == "IntegerLiteral":
            return ("null" if c_ == 0 else "?"), st
        return "?", st

    def transfer(n, st):
        if n.kind == "CtorInit":
            if n.get("field") in (mfield, flag) and n.child("init") is not None:
                v, st = ev(n.child("init"), st)
                k = keys[("this", n.get("field"))]
                st = st[:k] + (v,) + st[k + 1:]
            elif not n.get("field") and c.get("delegating"):
                st = ("null", False) + st[2:]        # the default constructor's state (checked as G.ctor default)
            return [st]
        if n.kind == "CallExpr" and n.callee and len(n.args) == 2:
            pa, pb = path(n.args[0]), path(n.args[1])
            if own.get(n.callee["did"]) == "swap" and {pa, pb} == {("this",), (oroot,)}:
                return [(st[2], st[3], st[0], st[1], st[4])]
            if n.callee["n"] == "swap" and pa in keys and pb in keys:
                a, b = keys[pa], keys[pb]
                l = list(st); l[a], l[b] = l[b], l[a]
                return [tuple(l)]
        if n.kind == "BinaryOperator" and n.op == "=":
            k = keys.get(path(n.children[0]))
            if k is not None:
                v, st = ev(n.children[1], st)
                st = st[:k] + (v,) + st[k + 1:]
                return [st]
            l_ = n.children[0].strip()
            if l_.kind == "DeclRefExpr" and l_.get("local") and l_.get("dk") == "Var":
                v, st = ev(n.children[1], st)
                return [st[:4] + (tuple((d_, v_) for d_, v_ in st[4] if d_ != l_.d["d"]) + ((l_.d["d"], v),),)]
        if n.kind == "DeclStmt":
            for d in n.get("decls", []):
                if "init" in d:
                    v, st = ev(c.node(d["init"]), st)
                    if v != "?":
                        st = st[:4] + (tuple((d_, v_) for d_, v_ in st[4] if d_ != d["d"]) + ((d["d"], v),),)
            return [st]
        return [st]
    # std::exchange inside an initialiser is evaluated by the CtorInit itself: skip the stand-alone call elements
    _, ex = flow.run(c, [init], transfer, None)
    if full:
        return {s[:4] for s in ex}
    return {(s[0], s[1], s[3]) for s in ex}


def method_effect(fn, mfield, flag, own, init_flags=(True, False, None)):
    """Abstractly execute a member of a guard class.

    State: (flag in {True, False, None}, tuple of mutex calls made so far (saturating)).
    `own` maps did of already summarised members to their summary:
        {initial flag -> set of (final flag, calls tuple)}; a missing initial flag
        means the member traps for it.
    Returns {initial flag: set of (final flag, calls)} over normal exits.
    """
    result = {}
    mpath = ("this", mfield)
    fpath = ("this", flag)

    def transfer(n, s):
        fl, calls = s
        if n.kind == "CXXMemberCallExpr" and n.callee:
            obj = n.child("obj")
            p = path(obj) if obj is not None else None
            if p == mpath:
                calls2 = calls + (n.callee["n"],)
                if len(calls2) > SAT + 1:
                    calls2 = calls2[:SAT + 1]
                return [(fl, calls2)]
            if p == ("this",) and n.callee["did"] in own:
                summ = own[n.callee["did"]]
                outs = []
                keys = [fl] if fl is not None else [True, False]
                for kf in keys:
                    for (f2, c2) in summ.get(kf, ()):
                        cc = (calls + c2)[:SAT + 1]
                        outs.append((f2, cc))
                return outs
        if n.kind == "CallExpr" and n.callee and n.callee["did"] in own:
            # friend swap(*this, other): flag becomes unknown unless summarised precisely
            summ = own[n.callee["did"]]
            if summ == "swap":
                return [(None, calls)]
        w = write_of(n)
        if w and w[0] == fpath:
            return [(const_bool(w[1]), calls)]
        if n.kind == "CtorInit" and n.get("delegating"):
            init = n.child("init")
            tgt = init.strip() if init is not None else None
            if tgt is not None and tgt.callee and tgt.callee["did"] in own:
                summ = own[tgt.callee["did"]]
                outs = []
                for kf in (None,):
                    for (f2, c2) in summ.get(kf, ()):
                        outs.append((f2, (calls + c2)[:SAT + 1]))
                return outs
        return [s]

    def refine(cond, truth, s):
        fl, calls = s
        box = [fl]

        def lookup(a):
            if path(a) == fpath:
                return box[0]
            return None

        def assume(a, v):
            if path(a) == fpath:
                box[0] = v
        if not flow.refine_bool(cond, truth, lookup, assume):
            return []
        return [(box[0], calls)]

    for f0 in init_flags:
        _, ex = flow.run(fn, [(f0, ())], transfer, refine)
        if ex:
            result[f0] = set(ex)
    return result


def check_guards(ctx, unit, table):
    """table: {class uq: (acquire method name on mutex, release method name on mutex)}"""
    ctx.rule("G.acquire", "guard acquire method: flag asserted clear, exactly one call of the acquiring "
             "mutex method on every path, flag set afterwards", minimum=len(table))
    ctx.rule("G.release", "guard release method: flag asserted set, exactly one call of the MATCHING "
             "releasing mutex method on every path, flag cleared afterwards", minimum=len(table))
    ctx.rule("G.dtor", "guard destructor releases exactly once iff the flag is set", minimum=len(table))
    ctx.rule("G.ctor", "locking constructor acquires exactly once and ends owned; deferring/default "
             "constructors call no mutex method and end unowned; adopting ends owned without a call",
             minimum=len(table) * 2)
    ctx.rule("G.other", "no other member of a guard class calls a mutex method or changes the flag "
             "except through swap", minimum=len(table))
    ctx.rule("G.nocopy", "guard classes are not copy-constructible (type-level: copy constructor deleted)",
             minimum=len(table))
    for cls, (A, R) in table.items():
        recs = unit.record(cls)
        if not recs:
            raise AnalysisBroken("anchor vanished: guard class %s not instantiated in unit %s" % (cls, unit.name))
        for rec in recs:
            mfield, flag = guard_slots(unit, rec)
            members = [f for f in unit.functions if f.owner_clsqn == rec["qn"]]
            by_name = {}
            for f in members:
                by_name.setdefault(f.name, []).append(f)
            tag = rec["qn"]
            own = {}
            # swap: friend
            for f in members:
                if f.name == "swap":
                    own[f.did] = "swap"
            # acquire / release methods are the members named lock/unlock
            acq = by_name.get("lock", [])
            rel = by_name.get("unlock", [])
            if len(acq) != 1 or len(rel) != 1:
                raise AnalysisBroken("anchor vanished: %s::lock/unlock" % tag)
            acq, rel = acq[0], rel[0]
            ea = method_effect(acq, mfield, flag, own)
            ok = (ea.get(False) == {(True, (A,))}) and True not in ea
            # with unknown initial flag the assertion must narrow it to False
            ok = ok and ea.get(None) == {(True, (A,))}
            ctx.inst("G.acquire", "%s::lock" % cls, ok, acq.loc,
                     "expected: traps when already owned; otherwise calls mutex.%s() once and sets the flag; "
                     "found effect %s (instantiation %s)" % (A, _fmt(ea), tag), acq)
            er = method_effect(rel, mfield, flag, own)
            ok = (er.get(True) == {(False, (R,))}) and False not in er and er.get(None) == {(False, (R,))}
            ctx.inst("G.release", "%s::unlock" % cls, ok, rel.loc,
                     "expected: traps when not owned; otherwise calls mutex.%s() once and clears the flag; "
                     "found effect %s (instantiation %s)" % (R, _fmt(er), tag), rel)
            own[acq.did] = ea
            own[rel.did] = er
            # destructor
            dts = [f for f in members if f.kind == "dtor"]
            if len(dts) != 1:
                raise AnalysisBroken("anchor vanished: %s destructor" % tag)
            ed = method_effect(dts[0], mfield, flag, own)
            want_t = {(False, c) for (_, c) in er.get(True, ())} or {"<release summary empty>"}
            ok = ed.get(True) == want_t and ed.get(False) == {(False, ())}
            ctx.inst("G.dtor", "%s::~" % cls, ok, dts[0].loc,
                     "expected: owned -> one release, unowned -> nothing; found %s (instantiation %s)"
                     % (_fmt(ed), tag), dts[0])
            # constructors
            ctors = [f for f in members if f.kind == "ctor"]
            # default ctor first (delegation target)
            ctors.sort(key=lambda f: (not f.get("default", False), bool(f.get("delegating", False))))
            for c in ctors:
                ptys = [p["t"] for p in c.params()]
                ec = method_effect(c, mfield, flag, own, init_flags=(None,))
                outs = ec.get(None, set())
                kind = None
                if c.get("default"):
                    kind, want = "default", {(False, ())}
                elif c.get("move"):
                    kind, want = "move", None
                elif any("dont_lock_t" in t for t in ptys):
                    kind, want = "deferring", {(False, ())}
                elif any("adopt_lock_t" in t for t in ptys):
                    kind, want = "adopting", {(True, ())}
                elif len(ptys) == 1:
                    kind, want = "locking", {(True, (A,))}
                else:
                    kind, want = "unknown", None
                if kind == "move":
                    # must make no mutex call itself; this guard takes over (mutex, flag) of the source as they were on
                    # entry and the source ends unowned -- however that is spelled (delegate + swap, std::exchange in the
                    # initialisers, plain assignments): decided by a small symbolic execution of the two field pairs
                    calls = {cc for (_, cc) in outs}
                    fin = move_ctor_effect(c, mfield, flag, own)
                    want_fin = ("other.mutex@entry", "other.flag@entry", False)
                    bad_fin = [x for x in fin if x != want_fin]
                    ok = calls == {()} and bool(fin) and not bad_fin
                    detail = "move constructor must call no mutex method, take over the source's mutex and flag and leave the " \
                             "source unowned; found calls=%s, final (this.mutex, this.flag, other.flag) %s" % (
                                 sorted(calls), sorted(fin, key=str))
                elif want is None:
                    ok, detail = False, "constructor kind not recognised: (%s)" % ", ".join(ptys)
                else:
                    ok = outs == want
                    detail = "%s constructor: expected final (flag, mutex calls) %s, found %s" % (
                        kind, sorted(want, key=str), sorted(outs, key=str))
                # all fields initialised
                # (written in the initialiser list, or through a default member initialiser `bool _is_locked = false;`)
                inits = {n.get("field") for n in c.events() if n.kind == "CtorInit" and n.get("field")
                         and (not n.get("implicit") or n.get("init") is not None)}
                if not c.get("delegating") and inits != {mfield, flag}:
                    ok = False
                    detail += "; does not initialise both fields (%s)" % sorted(inits)
                if c.get("default"):
                    own[c.did] = {None: outs}
                ctx.inst("G.ctor", "%s::<ctor %s>" % (cls, kind), ok, c.loc,
                         detail + " (instantiation %s)" % tag, c)
            assign_ok = {}
            # assignment: by value + swap (old ownership is released by the parameter's destructor)
            for f in members:
                if f.name == "operator=":
                    ps = f.params()
                    byval = len(ps) == 1 and not ps[0]["t"].rstrip().endswith("&")
                    sw = [n for n in f.events() if n.kind == "CallExpr" and n.callee
                          and own.get(n.callee["did"]) == "swap"]
                    okk = byval and len(sw) == 1 and {path(a) for a in sw[0].args} == {("this",), ("p:%s#%d" % (ps[0]["n"], ps[0]["d"]),)}
                    if byval and not okk:
                        # the same exchange written out by hand: decided by symbolic execution of the two field pairs; the body
                        # itself calls no mutex method (the parameter's destructor releases what *this held)
                        fin = move_ctor_effect(f, mfield, flag, own, init_state=("this.mutex@entry", "this.flag@entry",
                                                                                 "other.mutex@entry", "other.flag@entry"), full=True)
                        calls_mutex = any(n.kind == "CXXMemberCallExpr" and n.child("obj") is not None and path(n.child("obj"))
                                          and path(n.child("obj"))[-1] == mfield for n in f.events())
                        okk = fin == {("other.mutex@entry", "other.flag@entry", "this.mutex@entry", "this.flag@entry")} and not calls_mutex
                    assign_ok[f.did] = okk
                    ctx.rule("G.assign", "guard assignment takes its argument by value and swaps *this with it "
                             "(so the previous ownership is released exactly once by the parameter's destructor)", 1)
                    ctx.inst("G.assign", "%s::operator=" % cls, okk, f.loc,
                             "by-value parameter: %s; swap(*this, param) calls: %d (instantiation %s)" % (byval, len(sw), tag), f)
            # other members
            bad = []
            n_other = 0
            for f in members:
                if f in (acq, rel, dts[0]) or f.kind == "ctor":
                    continue
                n_other += 1
                for n in f.events():
                    if n.kind == "CXXMemberCallExpr":
                        obj = n.child("obj")
                        p = path(obj) if obj is not None else None
                        if p is not None and len(p) >= 2 and p[-1] == mfield:
                            bad.append("%s calls %s on the mutex at %s" % (f.name, n.callee["n"] if n.callee else "?", n.loc))
                    w = write_of(n)
                    if w and w[0] is not None and w[0][-1] == flag and f.name != "swap" and not assign_ok.get(f.did):
                        bad.append("%s writes the ownership flag at %s" % (f.name, n.loc))
            ctx.inst("G.other", "%s::<other members>" % cls, not bad, rec["loc"],
                     "; ".join(bad) if bad else "%d other members examined (instantiation %s)" % (n_other, tag))
            # type-level
            sp = rec["special"]
            cc = [m for m in rec["methods"] if m.get("copy")]
            deleted = bool(cc) and all(m.get("deleted") for m in cc)
            ctx.inst("G.nocopy", "%s::<copy ctor>" % cls, deleted, rec["loc"],
                     "copy constructor declared deleted: %s (instantiation %s)" % (deleted, tag))


def _fmt(e):
    out = []
    for k in (True, False, None):
        if k in e:
            out.append("%s->%s" % ({True: "owned", False: "unowned", None: "any"}[k],
                                   sorted(("owned" if f else "unowned" if f is False else "?", c)
                                          for f, c in e[k])))
        else:
            out.append("%s->trap" % {True: "owned", False: "unowned", None: "any"}[k])
    return "; ".join(out)


# ---- S: swap completeness ----------------------------------------------------

def check_swap(ctx, unit, classes, rule="S.swap"):
    """Every non-static data member is exchanged by the class's swap."""
    ctx.rule(rule, "swap() exchanges every non-static data member of the class (a member left out is a "
             "double or missing release after move/assignment)", minimum=len(classes))
    for cls in classes:
        recs = unit.record(cls)
        if not recs:
            raise AnalysisBroken("anchor vanished: class %s not instantiated in unit %s" % (cls, unit.name))
        if not any(f.owner_clsqn == rec["qn"] and f.name == "swap" for rec in recs for f in unit.functions):
            raise AnalysisBroken("anchor vanished: swap of %s (no instantiation of it in unit %s)" % (cls, unit.name))
        for rec in recs:
            # (a hidden-friend swap is instantiated only where something calls it: the witness units call it for one
            # instantiation per class, members may or may not for the others)
            sw = [f for f in unit.functions if f.owner_clsqn == rec["qn"] and f.name == "swap"]
            for f in sw:
                ps = f.params()
                fields = {x["n"] for x in rec["fields"]}
                # free/friend swap(a, b) has two params; member swap(other) has one.  Path-sensitive: EVERY path to the
                # exit exchanges every member; the only early exit allowed is under an identity test (&a == &b / this == &b)
                from . import flow as _flow

                stor = [x["n"] for x in rec["fields"] if "aligned_storage" in x["t"]]
                sx = None
                if stor:
                    from .rules_own import StorageExchange, cls_fns
                    sx = StorageExchange(unit, rec, f, cls_fns(unit, rec["qn"]))

                def transfer(n, st):
                    toks, vals = st
                    if sx is not None and n.id in sx.trigger:
                        toks = toks | frozenset(sx.trigger[n.id])
                    if n.kind == "CallExpr" and n.callee and n.callee["n"] == "swap" and len(n.args) == 2:
                        a, b = path(n.args[0]), path(n.args[1])
                        if a and b and len(a) == 2 and len(b) == 2 and a[1] == b[1] and a[0] != b[0]:
                            toks = toks | {a[1]}
                    return [(toks, vals)]

                def refine(cond, truth, st):
                    toks, vals = st
                    if sx is not None:
                        vals = sx.refine(cond, truth, vals)
                        if not vals:
                            return []
                    c, t = cond.strip(), truth
                    while c.kind == "UnaryOperator" and c.op == "!":
                        c, t = c.children[0].strip(), not t
                    if c.kind == "BinaryOperator" and c.op in ("==", "!="):
                        sides = [x.strip() for x in c.children]
                        ident = all((x.kind == "UnaryOperator" and x.op == "&") or x.kind == "CXXThisExpr" for x in sides)
                        if ident and ((c.op == "==") == t):
                            toks = toks | {"<same object>"}
                        elif ident:
                            toks = toks | {"<distinct>"}
                    return [(toks, vals)]
                # a decision computed by a folded helper and dispatched on by a `switch` (`switch(_inline_sides(a, b))`): the
                # constant the helper returned on this path is remembered, and only the matching case is entered
                v2c_ = {}
                for n_ in f.all_nodes():
                    if n_.d.get("inlined") and isinstance(n_.d.get("rets"), list):
                        for r_ in n_.d["rets"]:
                            v2c_[r_] = n_.id

                def transfer_sw(n, st):
                    outs = transfer(n, st)
                    if n.kind == "InlinedReturn" and n.d.get("val") in v2c_:
                        c_ = std_unwrap(f.node(n.d["val"])).cv()
                        cid = v2c_[n.d["val"]]
                        if c_ is None and outs:
                            # `return b._is_small() ? both : first;`: read with the decisions this path has taken
                            memo_ = {t_[1]: t_[2] for t_ in outs[0][0] if isinstance(t_, tuple) and t_[0] == "dec"}
                            try:
                                c_ = _flow.sem_eval(f.node(n.d["val"]), lambda leaf: None, memo_)
                            except Exception:
                                c_ = None
                        res = []
                        for toks_, vals_ in outs:
                            toks_ = frozenset(t_ for t_ in toks_ if not (isinstance(t_, tuple) and t_[0] == "ret" and t_[1] == cid))
                            if c_ is not None:
                                toks_ = toks_ | {("ret", cid, int(c_))}
                            res.append((toks_, vals_))
                        return res
                    return outs

                def refine_sw(cond, casev, allv, st):
                    x = cond.strip()
                    hops = 0
                    while x.kind in ("ImplicitCastExpr", "ParenExpr", "CXXStaticCastExpr", "CStyleCastExpr") and x.children and hops < 6:
                        x, hops = x.children[0].strip(), hops + 1
                    known = [t_[2] for t_ in st[0] if isinstance(t_, tuple) and t_[0] == "ret" and t_[1] == x.id]
                    if not known:
                        return [st]
                    if casev is None:
                        return [st] if known[0] not in allv else []
                    return [st] if known[0] == casev else []
                def refine_dec(cond, truth, st):
                    res = []
                    for toks_, vals_ in refine(cond, truth, st):
                        cid_ = cond.strip().id
                        toks_ = frozenset(t_ for t_ in toks_ if not (isinstance(t_, tuple) and t_[0] == "dec" and t_[1] == cid_))
                        if len(toks_) < 64:
                            toks_ = toks_ | {("dec", cid_, 1 if truth else 0)}
                        res.append((toks_, vals_))
                    return res
                _, ex = _flow.run(f, [(frozenset(), sx.initial() if sx is not None else frozenset())], transfer_sw, refine_dec, refine_switch=refine_sw)
                swapped = set(fields)
                why = []
                for toks, vals in ex:
                    if "<same object>" in toks:
                        continue
                    got = {t for t in toks if isinstance(t, str)}
                    if sx is not None and "<distinct>" not in toks and any(isinstance(t, tuple) and t[0] == "dtor" for t in toks) \
                            and any(isinstance(t, tuple) and t[0] == "new" for t in toks):
                        # elements change sides by destroy-here / move-construct-from-there: with a and b the same object
                        # (swap(v, v), std::shuffle, iter_swap(i, i)) that moves from an element destroyed a line earlier
                        why.append("the elements are handed over one by one (destroyed, then move-constructed from the other side) although the two "
                                   "operands may be the same object: no `&a == &b` test guards this path")
                    if sx is not None:
                        for fl in stor:
                            if fl not in got:
                                m = sx.missing(toks, vals)
                                if not m:
                                    got.add(fl)
                                else:
                                    why.extend(m)
                    swapped &= got
                if not ex:
                    swapped = set()
                missing = fields - swapped
                if why:
                    ctx.inst(rule, "%s::swap" % cls, False, f.loc,
                             "inline element storage %s is neither exchanged nor are its elements handed over on every path: %s (instantiation %s)" % (
                                 stor, "; ".join(sorted(set(why))[:3]), rec["qn"]), f)
                    continue
                ctx.inst(rule, "%s::swap" % cls, not missing, f.loc,
                         "fields %s; exchanged %s; missing %s (instantiation %s)" % (
                             sorted(fields), sorted(swapped), sorted(missing), rec["qn"]), f)
