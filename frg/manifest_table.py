"""Per-property MANIFEST text. gen_manifest.py turns this into MANIFEST.json.
A property is listed as claimed once its check function exists in props.PROPS;
otherwise it goes under not_applicable with the reason 'PENDING'/N/A text."""

CLAIMS = {
 "C12": dict(
  technique="static analysis: abstract execution of guard-class event CFGs (ownership flag x mutex-call sequence), swap-completeness, atomic-order table on spinlocks",
  text="Decides the structural half of C12 on every instantiated member of unique_lock, shared_lock and the QS lock_guard: "
       "each acquire/release method makes exactly one call of the matching mutex method on every path with the flag "
       "asserted before and updated after; destructors release iff owned; constructors end in the right ownership "
       "state; swap exchanges every field; guards are non-copyable. It does not decide mutual exclusion or FIFO "
       "hand-over over interleavings (not a static property).",
  note="Trusted: clang 14 AST/CFG of the instantiation unit tu/locks.cpp; witness Mutex type stands for any mutex type. "
       "Path-sensitive over the ownership flag only.",
  design_ref="DESIGN.md §3 C12, §2 G/S/A"),
 "C05": dict(
  technique="static analysis: interprocedural lockset / RAII-guard typestate over the event CFG; lock-order graph",
  text="Decides the lockset half of C05 for every slab_pool member in three policy instantiations: (L1) every call that "
       "reaches Policy::map/unmap, directly or through pool helpers, is made with a definitely empty lockset; (L2) the "
       "bucket fields, the per-slab free list/reservation count, the page counter and the frame tree are only touched "
       "with their mutex held (unpublished objects excepted); (L3) mutexes are taken only through RAII guards; (L4) the "
       "lock-order graph is acyclic (thorough also analyses the FRG_SLAB_TRACK_REGIONS configuration). It does not "
       "decide linearizability, full race freedom or progress.",
  note="Trusted: clang AST/CFG; guard semantics as verified by rule G (C12); alias-free access paths (one `this`, locals "
       "initialised once). L2 table is frozen from the source comments and confirmed at each access.",
  design_ref="DESIGN.md §3 C05, §2 L1-L4"),
 "C04": dict(
  technique="static analysis: fallible-result typestate (untested/null/non-null) on every map/_construct_*/allocate call site",
  text="Every failure point is a call site, every recovery a CFG path: each Policy::map result, each _construct_slab/"
       "_construct_large result in allocate() and the copying-fallback allocate() in realloc() must be bound to a local, "
       "tested before any other use, and on the null arm the function returns null with no call and no write to non-local "
       "state; locks are RAII-only so none can stay held. New map call sites join the obligation set automatically. "
       "Not decided: that later requests succeed.",
  note="Trusted: clang AST/CFG. Intraprocedural per failure point; the empty lockset at the failing call is C05/L1.",
  design_ref="DESIGN.md §3 C04, §2 N"),
 "C11": dict(
  technique="static analysis: guard conformance, lockset, post-callback typestate, dominating-branch facts, atomic order chain table",
  text="Decides structural clauses of C11 on qs_agent/qs_domain/lock_guard: the domain guard releases via unlock(); every "
       "store to the period counter, reset of the ack count and write of the agent count is under the domain mutex; in "
       "run() the node is unlinked and reset before the callback and nothing touches it afterwards; the callback is "
       "dominated by (acquire-loaded counter >= target) and nodes leave from the front; both barrier entry points use one "
       "period offset K>=2 and only raise the desired counter; the ack is an acq_rel RMW, period stores are release, "
       "consuming loads acquire. It does not decide the counting protocol over interleavings or fairness.",
  note="Trusted: clang AST/CFG; std::atomic member calls resolved to (object path, operation, evaluated memory order).",
  design_ref="DESIGN.md §3 C11, §2 G/L2/A1/A3/E"),
}

NOT_YET = "check not built yet in this revision (see DESIGN.md §7 order of work); not claimed until it exists"
NA = {}
