"""Per-property MANIFEST text. gen_manifest.py turns this into MANIFEST.json.
A property is listed as claimed once its check function exists in props.PROPS;
otherwise it goes under not_applicable with the reason 'PENDING'/N/A text."""

CLAIMS = {
 "C12": dict(
  technique="static analysis: abstract execution of guard-class event CFGs (ownership flag x mutex-call sequence), swap-completeness, atomic-order table on spinlocks",
  text="Decides the structural half of C12 on every instantiated member of unique_lock, shared_lock and the QS lock_guard: "
       "each acquire/release method makes exactly one call of the matching mutex method on every path with the flag "
       "asserted before and updated after; destructors release iff owned; constructors end in the right ownership "
       "state; swap exchanges every field; guards are non-copyable. It does not decide mutual exclusion or FIFO "
       "hand-over over interleavings (not a static property).",
  note="Trusted: clang 14 AST/CFG of the instantiation unit tu/locks.cpp; witness Mutex type stands for any mutex type. "
       "Path-sensitive over the ownership flag only.",
  design_ref="DESIGN.md §3 C12, §2 G/S/A"),
 "C05": dict(
  technique="static analysis: interprocedural lockset / RAII-guard typestate over the event CFG; lock-order graph",
  text="Decides the lockset half of C05 for every slab_pool member in three policy instantiations: (L1) every call that "
       "reaches Policy::map/unmap, directly or through pool helpers, is made with a definitely empty lockset; (L2) the "
       "bucket fields, the per-slab free list/reservation count, the page counter and the frame tree are only touched "
       "with their mutex held (unpublished objects excepted); (L3) mutexes are taken only through RAII guards; (L4) the "
       "lock-order graph is acyclic (thorough also analyses the FRG_SLAB_TRACK_REGIONS configuration). It does not "
       "decide linearizability, full race freedom or progress.",
  note="Trusted: clang AST/CFG; guard semantics as verified by rule G (C12); alias-free access paths (one `this`, locals "
       "initialised once). L2 table is frozen from the source comments and confirmed at each access.",
  design_ref="DESIGN.md §3 C05, §2 L1-L4"),
 "C04": dict(
  technique="static analysis: fallible-result typestate (untested/null/non-null) on every map/_construct_*/allocate call site",
  text="Every failure point is a call site, every recovery a CFG path: each Policy::map result, each _construct_slab/"
       "_construct_large result in allocate() and the copying-fallback allocate() in realloc() must be bound to a local, "
       "tested before any other use, and on the null arm the function returns null with no call and no write to non-local "
       "state; locks are RAII-only so none can stay held. New map call sites join the obligation set automatically. "
       "Not decided: that later requests succeed.",
  note="Trusted: clang AST/CFG. Intraprocedural per failure point; the empty lockset at the failing call is C05/L1.",
  design_ref="DESIGN.md §3 C04, §2 N"),
 "C11": dict(
  technique="static analysis: guard conformance, lockset, post-callback typestate, dominating-branch facts, atomic order chain table",
  text="Decides structural clauses of C11 on qs_agent/qs_domain/lock_guard: the domain guard releases via unlock(); every "
       "store to the period counter, reset of the ack count and write of the agent count is under the domain mutex; in "
       "run() the node is unlinked and reset before the callback and nothing touches it afterwards; the callback is "
       "dominated by (acquire-loaded counter >= target) and nodes leave from the front; both barrier entry points use one "
       "period offset K>=2 and only raise the desired counter; the ack is an acq_rel RMW, period stores are release, "
       "consuming loads acquire. It does not decide the counting protocol over interleavings or fairness.",
  note="Trusted: clang AST/CFG; std::atomic member calls resolved to (object path, operation, evaluated memory order).",
  design_ref="DESIGN.md §3 C11, §2 G/L2/A1/A3/E"),
 "C10": dict(
  technique="static analysis: atomic access table (object path, op, evaluated order), fresh-object publication order by dominance/reachability",
  text="Decides the publication-order half of C10: every atomic store whose target a reader can reach (root, link slot or "
       "mask of a non-fresh node) is release; every load in find() is acquire; each fresh node is completely initialised "
       "(prefix, depth, parent, mask/value or all 16 link slots, old subtree linked) on every path before the store that "
       "publishes it and no write to a fresh node can follow any publishing store; a value is constructed before its mask "
       "bit is set with old|bit; erase clears one bit with release and frees nothing; find() returns a value only under "
       "prefix match and acquire-loaded bit. online()/offline() sample the period counter only inside the critical section that changes the agent count, and adjust the agent count before any store that re-arms the ack count from it. Does not decide the happens-before argument over all interleavings.",
  note="Trusted: clang AST/CFG; freshness = local initialised from frg::construct<> in the same activation, alias-resolved through casts.",
  design_ref="DESIGN.md §3 C10, §2 A1/A2"),
 "C09": dict(
  technique="static analysis: interval analysis of shift counts with branch refinement; index-provenance and sibling agreement of the three descents",
  text="Decides structural clauses of C09: the shift counts in pfx_of/idx_of stay in [0,64) for every depth in [0,15] "
       "(branch-refined intervals); every subscript of a node's links/entries in find/find_or_insert/erase is idx_of(key, "
       "that node's own depth) and mask bits use the same index; the three descents agree on the prefix and leaf tests; "
       "entry storage is never freed/copied outside the destructor and values are constructed only into fresh leaves or "
       "under a clear mask bit; 'not inserted' is reported only on the bit-set path. A value loaded through the cursor node (mask, index, child) is never used after the cursor moved without a reload (K.stale-derived). Does not decide exactness of the map "
       "or iteration order over runtime key sets.",
  note="Trusted: clang AST/CFG; depth domain [0, ll] from the class's own constant.",
  design_ref="DESIGN.md §3 C09, §2 B3/E"),
 "C13": dict(
  technique="static analysis: abstract evaluation of accessors, swap-completeness, loop-range agreement, per-path link write sets, rvalue-forwarding in loops",
  text="Decides structural clauses of C13 on vector, small_vector, dyn_array, stack, list, intrusive_list: empty() is true "
       "exactly when the size field is zero; front()/back() subscript 0 / size-1; swap exchanges every field; the range "
       "relocated by growth equals the range destroyed equals [0,size); rvalue-forwarded arguments are not consumed in a "
       "loop; small_vector's inline/heap choice is one predicate of _capacity used consistently; every path of the "
       "intrusive list's push/insert/erase/splice repairs both link directions, updates the moved list end and the "
       "in_list flag. A local pointing into small_vector's storage is not dereferenced after a call that may replace the storage (K.stale-buffer). Does not decide equality with a reference sequence after arbitrary histories.",
  note="Trusted: clang AST/CFG of tu/sequences.cpp (Elem/Alloc witnesses). Path-sensitive only in the abstract domains named.",
  design_ref="DESIGN.md §3 C13, §2 P/S/O5/R/H"),
 "C14": dict(
  technique="static analysis: reaching-definition of capacity-derived indices killed by capacity-writing calls; index/table pairing; path counting",
  text="Decides structural clauses of C14 on hash_map (two key types): no bucket index computed modulo the capacity is used "
       "after a call that may change the capacity unless recomputed; an index reduced modulo c subscripts only the table "
       "with c buckets; every index is hasher(key concerned) % capacity; on every path constructs equal ++_size and "
       "destructs equal --_size and rehash() does none of them; insert() grows before computing its bucket; no node is "
       "touched after its release; empty() polarity. remove() advances its predecessor pointer on every path around the chain walk and has both unlink forms (H.chain-unlink). Does not decide agreement with a reference map over histories.",
  note="Trusted: clang AST/CFG of tu/hash_map.cpp; callee summaries 'may write _capacity' computed over the class's call graph.",
  design_ref="DESIGN.md §3 C14, §2 K/E"),
 "C16": dict(
  technique="static analysis: allocation escape/free typestate, owner special-member table, allocate/deallocate size agreement, destroy-before-free dominance, use-after-release typestate, compile witness",
  text="Decides structural clauses of C16 over all owning types: (O1) every allocator block is on every path stored in an "
       "owning place, returned, passed to a parameter that can own it, or freed; (O2) every allocating class has a "
       "releasing user destructor and no implicit shallow copy; (O3) deallocate sizes equal the allocation sizes; (O4) "
       "element buffers are released only after the destruction of their live range; (O5) growth relocates exactly the "
       "live range; (O7) nothing is accessed through a pointer after its release; (W1) every member of the holder "
       "templates is well-formed. Does not decide exactly-once as a count over arbitrary histories; radix erase leaks "
       "by design (DESIGN.md §3 C16).",
  note="Trusted: clang AST/CFG of five instantiation units; ownership by pointer-to-const convention (a const T* parameter never owns).",
  design_ref="DESIGN.md §3 C16, §2 O1-O7/W1"),
 "C18": dict(
  technique="static analysis: constant-subscript bounds on instantiations, word-write classification + post-dominance of the mask call, taint + dominating-guard, interval analysis of shift counts, recursion, constant tables",
  text="Decides structural clauses of C18 (quick: bitset<70>; thorough: N in {1,63,64,65,70,128,200}): every constant "
       "subscript of array's storage is in bounds; each bitset constructor initialises every word and masks a caller value; "
       "every word write that can set bits at/above N (~x, x<<k, caller value) is post-dominated by mask_last_bit(); in "
       "<<= and >>= every access whose position depends on the shift amount is dominated by a bound on it; all shift counts "
       "lie in [0,width); no function calls itself on every path; the bit reference reads through operator bool and writes "
       "its own index; MT19937/PCG constants present and the bounded draw is r % bound under r >= threshold; insertion_sort "
       "permutes by comp-guarded swaps only. No unsigned subtraction in the shift operators can go below zero on the guarded range of the shift amount (B8; quick tier N in {64,70}). Does not decide agreement with std::bitset, the streams or sortedness.",
  note="Trusted: clang AST/CFG of tu/bits.cpp per N; set(pos) exempt by documented precondition pos < N.",
  design_ref="DESIGN.md §3 C18, §2 B1/B3/B4/R/T"),
 "C15": dict(
  technique="static analysis: symbolic (polynomial) comparison of copy counts, allocation sizes and write offsets; dominating-bound facts on view subscripts; overflow-safe assertion shape",
  text="Decides structural clauses of C15 on basic_string/basic_string_view (quick: char; thorough also char16_t): every "
       "memcpy count is <= the source extent (a view exposes sizeof(Char)*size() bytes, no terminator) and destination "
       "range and every element write lie inside the allocation with sizeof(Char)>=1 symbolic; a terminator is written at "
       "the new length whenever a buffer is installed; every constructor leaves a non-null buffer; view search subscripts "
       "are dominated by index<length; sub_string's assertion cannot wrap; starts_with/ends_with slice only when the "
       "argument fits; compare() is length-first; swap complete; empty() polarity. The null buffer of default-constructed "
       "and detached strings is a recorded known finding. compare() measures the other operand by a complete length; no memcpy can run after a mutator released the old buffer (sources may alias it). Does not decide equality with a reference string.",
  note="Trusted: clang AST/CFG of tu/string.cpp; lengths are symbols, sufficient (not complete) polynomial non-negativity test; "
       "caller-supplied (pointer,length) pairs are trusted by contract.",
  design_ref="DESIGN.md §3 C15, §2 B2/B5"),
 "C20": dict(
  technique="static analysis: NUL-terminated-cursor typestate, dominating index<size facts, API-only (who-may-call) rule, signed-accumulator rule, recursion/loop-progress",
  text="Decides structural clauses of C20: in printf_format every cursor advance and look-ahead is justified by characters "
       "verified non-NUL on every path (typestate 0/1/2 refined by FRG_ASSERT(*s) and character comparisons); every "
       "subscript of a format view in the {}-parser is dominated by index<size(); parse_arguments touches the command line "
       "only through find_first/sub_string/size/comparison; sub_string's assertion cannot wrap and view searches are "
       "bounded; digit accumulators (to_number, printf width/precision, {} width) are unsigned, overflow-checked or bounded; "
       "no parser recurses unconditionally; loops advance. pop_arg uses arg_pos as a cache index only under arg_pos != -1 and never lowers the count of consumed arguments; digit-accumulator guards must keep acc*10+9 inside the type. Does not decide absence of all undefined behaviour nor the bounds "
       "of the caller's positional-argument array.",
  note="Trusted: clang AST/CFG of tu/format.cpp and tu/string.cpp; assertion failure arms are non-returning (panic hook / trap).",
  design_ref="DESIGN.md §3 C20, §2 B5/B6/B7/R"),
 "C19": dict(
  technique="static analysis: table extraction (length modifier -> popped type per conversion) with sibling agreement, per-path pop counting, error-propagation shape, guarded buffer writes",
  text="Decides only the structural rim of C19: in do_printf_ints every length modifier is handled in every conversion, pops "
       "an integer of the modifier's width with the conversion's signedness, and the conversions agree; every conversion arm "
       "pops exactly one argument per path; every printf agent result is tested and propagated before the cursor moves; the "
       "{}-spec parser accepts exactly b c o d i x X and the three echo sites slice from the recorded spec start; logger "
       "buffer writes are dominated by _off<Limit and a flush terminates, emits, resets. The {}-width guard keeps acc*10+9 within int so an out-of-range width makes the spec malformed (B6.fmt-width-range). The heart of C19 — byte-for-byte "
       "agreement with ISO C for every flag/width/precision/value — is NOT decidable by this family and is not claimed.",
  note="Trusted: clang AST/CFG of tu/format.cpp (LP64 widths). Observation recorded in DESIGN.md §4: print_digits ignores the sign in the width computation.",
  design_ref="DESIGN.md §3 C19, §2 T"),
 "C17": dict(
  technique="static analysis: abstract interpretation of the engaged-flag typestate (flag x storage x other's flag x same-alternative relation) with bottom-up method summaries; compile-time type witnesses",
  text="Decides structural clauses of C17: every public member of optional, expected, variant and manual_box is interpreted "
       "from every consistent entry state (engaged/empty for *this and for the argument); on every path a value is placement-"
       "constructed only into empty storage and destroyed only when present, the flag equals the storage state at every exit, "
       "destructors leave nothing alive, assignment leaves the destination engaged iff the source was, emplace ends engaged, "
       "no tag-dispatch chain is entered in a state where every path hits its terminal assertion, accessors trap when empty; "
       "every non-void member returns; every member is well-formed (W1); tuple's access_helper selects item/tail by index and "
       "its result types / reference preservation / tuple_cat order hold as static_asserts. Does not decide equality of held "
       "values with the std types after arbitrary histories.",
  note="Trusted: clang AST/CFG of tu/holders.cpp, tu/typelevel.cpp; engagement predicates per class are a frozen table (flag field, "
       "storage field, accessor names) confirmed by reading.",
  design_ref="DESIGN.md §3 C17, §2 O6/D/R/W"),
 "C01": dict(
  technique="static analysis: compile-time witnesses (static_assert over the pool's own constexpr size-class functions), expression agreement after copy propagation, evaluated alignment constants, loop/step shape of the carving code",
  text="Decides structural clauses of C01 for four policy geometries: (W2) for every size 1..max the size class is in range, "
       "large enough and minimal, classes are increasing powers of two >= 8, frame geometry fields are const (compiler-evaluated); "
       "(E) realloc/free/deallocate/get_size compute the frame by one expression ((p-1) & ~(A-1)) whose A equals the alignment "
       "both constructors place the frame at; slab carving keeps the first-object offset a multiple of the item size covering "
       "the header, records (address+overhead, slabsize-overhead, index) and carves objects at address+k*item_size below length; "
       "allocate returns the popped head / the frame's object address, get_size reports the class size / frame length; zero-"
       "length requests become one byte. Does not decide pairwise disjointness or containment over histories of runtime addresses.",
  note="Trusted: clang constant evaluator and AST/CFG; witness policies PolPlain/PolFull/PolPoisonPlain/PolGeo/PolSmall.",
  design_ref="DESIGN.md §3 C01, §2 W2/E/N"),
 "C02": dict(
  technique="static analysis: dominating null-test facts, ordering by dominance/reachability, reaching definitions of the copy length, branch-fact guarded calls",
  text="Decides structural clauses of C02: realloc/free/deallocate/get_size never read the frame header without the pointer "
       "known non-null; realloc(null,n) returns allocate(n) and realloc(p,0) frees and returns null; the copying fallback "
       "copies from the old block before freeing it, with a length whose only definitions are the old usable size; in-place "
       "helpers succeed only under new_size <= usable size and only then is the old pointer returned; _construct_slab is "
       "called only when the bucket has no head slab; free decides 'was full' before pushing and re-inserts + repairs the head; "
       "a slab that fills up leaves the partial tree. The two head-slab repair sites (allocate, free) use one condition that is true when the bucket has no head. Does not decide byte equality of contents nor the footprint bound itself.",
  note="Trusted: clang AST/CFG of tu/slab.cpp (four policy instantiations).",
  design_ref="DESIGN.md §3 C02, §2 N/E"),
 "C03": dict(
  technique="static analysis: value provenance by copy propagation, who-may-call, expression agreement, call-order (dominance) typestate for poison/unpoison",
  text="Decides structural clauses of C03: the length given to Policy::map is the value recorded in sb_reservation and the "
       "result is recorded in sb_base (both constructors, aligned and unaligned policies); Policy::unmap has exactly one call "
       "site, fed from those two header fields read before the header is poisoned, reached only for non-slab frames; the page "
       "counter is raised and lowered by one and the same expression of the frame length; with poisoning policies every "
       "placement-construction in pool memory is dominated by an unpoison of that address, free runs unpoison_expand -> poison "
       "-> unpoison(link) before the link write, allocate re-poisons the link word and unpoisons `length` bytes before "
       "returning, and no header is read after poison(frame). Does not decide exactly-once unmapping over histories.",
  note="Trusted: clang AST/CFG; poison rules are evaluated on the two poisoning witness policies only.",
  design_ref="DESIGN.md §3 C03, §2 E/Z"),
 "C06": dict(
  technique="static analysis: mirror-symmetry of case splits (canonical statement text / guarded-effect sets under left<->right renaming), per-path link write sets with null facts, comparator-side descent rule",
  text="Decides structural clauses of C06 on the red-black tree: rotateLeft/rotateRight and insert_left/insert_right have "
       "mirror-image guarded effects; every left/right case split inside fix_insert, fix_remove, replace_node, "
       "remove_half_leaf and the rotations has mirror-image arms (a rebalancing defect in one of the dozens of mirrored "
       "cases is an asymmetry); remove() nulls all five links of the removed node on each path; every child-link write is "
       "paired with the child's parent write and every successor write with the predecessor write unless the partner is null "
       "on that path; insert compares (new,current) and goes left on true, right otherwise; the order-tree insert places "
       "before `before` or last; descents progress. Does not decide validity of the colouring, the height bound, or that the "
       "in-order walk equals the contents; a defect symmetric in both mirrored arms is invisible to the mirror rule.",
  note="Trusted: clang AST/CFG of tu/trees.cpp; assertions are dropped from mirrored text; asserted direction tests name else-arms.",
  design_ref="DESIGN.md §3 C06, §2 M/H/E/R"),
 "C07": dict(
  technique="static analysis: exhaustive order-type enumeration of the extracted comparison expressions against their specification; syntactic decision structure; per-path re-aggregation after link writes",
  text="Decides structural clauses of C07: the overlap test extracted from _for_overlaps_in_subtree equals lo<=ub && lb<=hi on "
       "every weak ordering of its four operands (exhaustive); the left-pruning guard is sound on every order type (guard "
       "false => nothing in the left subtree overlaps; guard true and no left hit => nothing to the right overlaps, given "
       "lower-bound ordering); the callback runs only under the test, a hit searches both children, the right subtree is "
       "searched after a left hit or when the guard fails, `true` is returned only after a callback/successful search; in the "
       "red-black tree instantiated with the interval aggregator every child-link write is followed by re-aggregation of that "
       "node (children before parents, rotation grand-parent exempt); the aggregator is left/right symmetric, starts from the "
       "node's own upper bound, is seeded before linking; nodes are ordered by lower bound. Does not decide exactly-once "
       "as a counting statement over a concrete tree.",
  note="Trusted: clang AST of tu/trees.cpp; the enumeration evaluates expressions of the source (comparison trees), not the program.",
  design_ref="DESIGN.md §3 C07, §2 Q/H/M/E"),
 "C08": dict(
  technique="static analysis: mirror symmetry of _merge under a<->b, per-path link write sets with null facts, dominance of detaching writes, accessor shapes",
  text="Decides structural clauses of C08: _merge's arms are mirror images and compare(a,b) true makes b the winner; pop clears "
       "the old root's child link; remove clears all three links of the removed element on every non-root path; every child/"
       "sibling link write is paired with the backlink of the linked element unless it is null; _collapse detaches both pair "
       "members before merging; empty()/top()/push-on-empty have the right shape; _collapse's loops advance. No hook link is read right after the same link of the same element was cleared (H.read-after-clear). Does not decide "
       "that top() is a maximum after any history (global heap-order invariant).",
  note="Trusted: clang AST/CFG of tu/trees.cpp.",
  design_ref="DESIGN.md §3 C08, §2 M/H/P/R"),
}


# ---- round-2 addenda: rules added or restated after the second sub-agent round (appended to the claim texts) ----------
ROUND2 = {
 "C01": " The slab header overhead loop is compared with the record-layout size of the object constructed at the slab start "
        "(not with the spelling of the sizeof); running indices are followed through lock-step induction.",
 "C02": " In-place realloc arms are judged on realloc() with its bool helpers folded in (new_size <= usable size must be "
        "known where the old pointer is returned); the head-slab repair and the re-insertion of a formerly full slab are "
        "decided by exact path-sensitive evaluation over all valuations of (head present, addresses) and both entry values of "
        "the free list; no tree navigation starts from a node after remove() cleared its links (K.stale-after-remove).",
 "C06": " Both insert descents are decided by path-sensitive interpretations (comparator verdict / before-null-ness, cursor "
        "origin) independent of branch shape; remove() is judged with its helpers folded in; a snapshot of a hook field sees the "
        "same writes on every path to its use (K.conditional-snapshot).",
 "C07": " The search structure is decided by path-sensitive interpretation over small order types: callback iff overlap, "
        "result = overlap or hit below, subtrees skipped only as the guard allows; the aggregate of a relinked node is "
        "refreshed before any rebalancing call on the path.",
 "C08": " Read-after-clear is alias-aware per path (x = c ? a : b); no neighbour-link snapshot is used after the root was "
        "merged (K.stale-after-root-merge); K.conditional-snapshot as in C06.",
 "C12": " swap is path-sensitive: every exit path exchanges every member (only an identity test may return early).",
 "C13": " small_vector's inline/heap selection is decided semantically: the conditions (through predicate helpers) guarding "
        "each site are evaluated for capacity in {N-1, N, N+1}.",
 "C14": " remove()'s unlink store is justified by a path-sensitive must-analysis of which location holds each chain pointer "
        "(predecessor idiom, pointer-to-link idiom, any loop form); a walk never steps through a link it already overwrote; "
        "all members narrow the hash identically before the modulo; a bucket variable that still holds a placeholder is not a "
        "bucket of the key.",
 "C15": " View subscripts (own pointer and other views through operator[]) are bounded by a relational bounds analysis "
        "against the view's length (zone domain with widening), independent of loop form; the old buffer may be released "
        "directly or through a member called on *this.",
 "C16": " Also: nothing is copied out of a string buffer after it was released (directly or via resize()); a hash_map node "
        "is unlinked from the location that holds it before it is destroyed.",
 "C17": " An assignment that takes its source by reference never destroys the held object (directly or via emplace/reset "
        "helpers) before the source was read (O6.source-read-before-destroy); bool locals that snapshot a flag test are "
        "followed.",
 "C18": " seed() writes every member on every path and establishes the lazy-refill condition of operator() (I.seed-complete); "
        "array_concat copies each piece to at + j and passes at + extent on (E.concat-offset, polynomial normal form with "
        "lock-step induction).",
 "C19": " The length-modifier table is obtained by path-sensitive enumeration of (conversion letter, size modifier) over the "
        "CFG (if-chains, switches and dispatch helpers alike); the chunking logger keeps 0 <= offset < Limit as an exact inductive "
        "invariant of all members; every failed spec parse / argument print leads to an echo of [start, close]; the per-spec "
        "options object is fresh for every specifier.",
 "C20": " Loop progress and cursor rules follow new helpers, lambdas and reference parameters (virtual inlining with jump "
        "threading of constant boolean returns).",
}
for _k, _v in ROUND2.items():
    CLAIMS[_k]["text"] = CLAIMS[_k]["text"] + _v
ROUND2_TECH = {
 "C02": "; exact path-sensitive evaluation of the head-repair / re-insert decisions over finite valuations; rules stated on virtually inlined variants",
 "C06": "; path-sensitive abstract interpretation of the descents; rules on folded (virtually inlined) variants of remove(); snapshot write-set agreement",
 "C07": "; path-sensitive abstract interpretation of the search over small order types (replaces syntactic containment)",
 "C08": "; alias-aware path-sensitive read-after-clear; snapshot staleness rules",
 "C13": "; semantic evaluation of guard conditions over finite valuations",
 "C14": "; path-sensitive must-analysis of link locations (LinkSlots); sibling agreement on hash narrowing",
 "C15": "; relational bounds analysis (zone domain, widening) for view subscripts; may-release call summaries",
 "C17": "; destroy-before-source-read ordering with destroyer summaries",
 "C18": "; polynomial offset arithmetic with lock-step induction; must-write sets of seed()",
 "C19": "; path-sensitive enumeration of selector parameters over the CFG incl. switches; exact finite-state inductive invariant of the logger",
}
for _k, _v in ROUND2_TECH.items():
    CLAIMS[_k]["technique"] = CLAIMS[_k]["technique"] + _v

# ---- round-3 addenda: rules written for the defects demonstrated by the hunting sub-agents (DESIGN.md §8.6) --------------
ROUND3 = {
 "C01": " No unsigned sum of the request length and a constant can wrap before it is used as a size (B8.size-arithmetic); the "
        "carving loop places an object only while off + item_size <= frame.length.",
 "C02": " A per-slab counter raised by allocate has a matching decrement on the free path (E.counter-balance).",
 "C03": " B8.size-arithmetic as in C01; the page counter is only accessed under the tree mutex.",
 "C04": " B8.size-arithmetic as in C01.",
 "C05": " _usedPages is accessed under _tree_mutex on every access, reads included.",
 "C11": " offline() entered in the deferred state reaches its exit without a failing assertion (E.leave-deferred); a seq_cst "
        "fence separates the caller's earlier stores from the sample of the period counter in await_barrier/quiescent_barrier "
        "(A1.grace-start-fence) and the acknowledgement from the reader's later loads (A1.ack-fence).",
 "C12": " Ticket counters are compared for (in)equality only, never ordered (A.ticket.wrap-safe).",
 "C13": " A by-reference argument is not read after a call, or an explicit destructor call, that may end the elements' lifetime "
        "(O.arg-survives-growth); no element is built in the storage the container had on entry on a path that afterwards gives "
        "that storage up (K.built-into-kept-storage); inline element storage is never exchanged as raw bytes, and swap hands the "
        "inline elements of each side over by move construction and destruction on every path on which that side may be inline "
        "(S.swap with StorageExchange; a necessary condition, the relocated ranges are not summed).",
 "C16": " O.arg-survives-growth, K.built-into-kept-storage and O.storage-not-byte-swapped as in C13; a holder of raw storage declares "
        "or deletes its copy operations (O2.holder-specials); a radix-tree entry is not constructed over a value that was never "
        "destroyed (O.entry-reuse; the current tree violates it: open known finding D42).",
 "C17": " Copy construction from a non-const lvalue selects the copy constructor (overload-resolution witness compiled in the unit, "
        "W.copy-selects-copy); nothing reached through a `X &&` parameter that collapsed to an lvalue reference is std::move'd "
        "(R.forward-collapsed); apply/get return-type witnesses (static_assert).",
 "C19": " The position accumulator of a {} spec is range-checked before it can wrap (B6.fmt-width-range, strict for unsigned "
        "accumulators); positional %N$ arguments are fetched with the type of their own directive (E.positional-fetch-type; the "
        "current tree violates it: open known finding D43).",
 "C20": " The magnitude of a negative integer is computed in the unsigned type of the operand for every instantiated type "
        "(B.magnitude-unsigned); field lengths of print_float are not summed in int (B6.float-length); the cursor into the "
        "locale's grouping string stays inside the string (B.grouping-cursor); E.positional-fetch-type as in C19.",
}
for _k, _v in ROUND3.items():
    CLAIMS[_k]["text"] = CLAIMS[_k]["text"] + _v
ROUND3_TECH = {
 "C11": "; fence placement by dominance / post-dominance between atomic events",
 "C13": "; per-path typestate over placement-new / destructor / buffer-store events on members with new helpers and lambdas virtually inlined ((name, arity) anchors); semantic capacity valuations for the swap case split",
 "C16": "; the same per-path typestate rules as C13",
 "C17": "; overload-resolution and return-type witnesses compiled with the unit",
 "C20": "; per-instantiation integer-type rules (promotion, signedness) and interval evaluation of cursor arithmetic",
}
for _k, _v in ROUND3_TECH.items():
    CLAIMS[_k]["technique"] = CLAIMS[_k]["technique"] + _v

# ---- round-3b addenda: rules written after the third seeding / refactoring round (DESIGN.md §8.7) ----------------------
ROUND3B = {
 "C06": " Every rotation is applied to a node that is known, on that path, to be the corresponding child of its parent (K.rotation-operand: "
        "a per-path shape analysis over child links whose facts come from accessor reads and equality tests and are rewritten by each "
        "rotation).",
 "C07": " The query callback is invoked nowhere but in the search whose structure is verified (who-may-call); aggregate() is decided by "
        "interpretation over small valuations, aggregate_path on the CFG (early break or return alike).",
 "C11": " Entered with the deferred flag set, a member leaves the flag set or has stored the advanced period counter on that path (E.deferred-owed).",
 "C12": " The guards' move constructor is decided by symbolic execution of the (mutex, flag) pairs of source and destination; the ticket lock's "
        "hand-over value as a polynomial over the atomic loads.",
 "C13": " Relocation rules are stated on classified events wherever growth is written (helper, callee or folded caller); the new allocation "
        "covers the request that triggered the growth; a by-reference parameter of the container's own class is read before anything of *this "
        "is destroyed unless the two are known to be different objects; every member that takes an element out of an intrusive list itself "
        "repairs both sides on every path.",
 "C14": " Hash reductions written directly inside a subscript take part in the sibling agreement.",
 "C15": " A subscript of a `const char *` parameter needs index <= strlen of that parameter (B.cstring-subscript-bounded); pointer iteration "
        "over a view is bounded through the pointer's offset from the character pointer.",
 "C16": " No member assigns the owner's allocator field and afterwards releases memory through it (O.allocator-stable).",
 "C17": " apply hands the elements of a tuple to the functor with the value category std::apply would (witness functor overloaded on "
        "int& / int&& / const int&).",
 "C18": " The bit proxy's copy assignment is user-provided (a defaulted one rebinds the proxy).",
 "C20": " The sub_string assertion is also examined through once-initialised locals (a sum of two caller-controlled operands may hide in one).",
}
for _k, _v in ROUND3B.items():
    CLAIMS[_k]["text"] = CLAIMS[_k]["text"] + _v
ROUND3B_TECH = {
 "C06": "; per-path shape analysis over child-link facts with rotation transfer functions",
 "C12": "; symbolic execution of field pairs; polynomial value of the hand-over store",
 "C15": "; relational bounds over pointer offsets and over strlen-derived lengths",
}
for _k, _v in ROUND3B_TECH.items():
    CLAIMS[_k]["technique"] = CLAIMS[_k]["technique"] + _v

# ---- hunt-2 addenda: rules written for the defects of the second hunt (DESIGN.md §8.8) ----------------------------------
HUNT2 = {
 "C13": " An element-wise exchange of inline storage between two containers is preceded by the fact that they are different objects; in "
        "intrusive_list a link holder that was the operand of std::move is not read again before it is assigned (R.no-use-after-move).",
 "C15": " A memcpy whose source is null when empty (a view's data(), a string's buffer) runs only under count != 0 or source != nullptr "
        "(B2.copy-source-nonnull).",
 "C16": " After move assignment of an owning pointer the previously held object is not held by the source on any path "
        "(O.move-assign-releases); a forwarding-reference pack of a free construction helper is not forwarded inside a loop.",
 "C17": " std::move / forward is not applied to a member whose declared type is an lvalue reference (R.move-through-reference-member); an "
        "assignment reads no field of its source after the held value's destructor ran.",
 "C19": " Every conversion the {}-spec parser can select reaches an output call in format_integer; a formatter of sized text (string, "
        "string_view) never passes data() on without size(); every printf conversion, the float placeholders included, pops exactly one "
        "argument on every path.",
 "C20": " The field length of print_digits is not summed in int (B6.digits-length).",
}
for _k, _v in HUNT2.items():
    CLAIMS[_k]["text"] = CLAIMS[_k]["text"] + _v

# ---- round-4 addenda (DESIGN.md §8.9) ----------------------------------------------------------------------------------
ROUND4 = {
 "C01": " The frame look-up masks (block address) - 1 (a large block may start exactly on a superblock boundary).",
 "C02": " A bucket's mutex, tree and head slab are only combined with a slab of that bucket (E.bucket-of-slab).",
 "C03": " realloc's copying fallback expands the unpoisoned range of the old block on the slab path and on the large path.",
 "C05": " A bucket's mutex, partial tree and head slab are only combined with a slab of that bucket: the bucket is _bkts[slab->index], or "
        "the slab was read out of the bucket, or it was just constructed for the bucket's index (E.bucket-of-slab).",
 "C09": " The depth of a split node is a counter advanced only past digits that were compared equal (E.split-depth-tested); begin() and "
        "operator++ hand out only positions whose mask bit was seen set on that path, or the end position (E.iterator-present).",
 "C13": " An argument is not read after std::move was applied to the container's elements; the heap pointer and the capacity of a "
        "small_vector object change on the same paths, the inline extent only next to a null pointer (I.capacity-storage-paired).",
 "C14": " A chain walk is not advanced through a `next` link that was overwritten for the same node on that path (K.next-after-relink).",
 "C16": " An assignment never mentions its by-reference source after the held object was destroyed.",
 "C17": " A manual_box of static storage duration is constant-initialised (constinit witness); copy/move construction from a same-type "
        "source of any value category selects the copy or move constructor.",
 "C18": " Unsigned count-down loops of the shift operators keep their counter above zero (interval analysis with x % K == 0 and x >= 1 "
        "giving x >= K); the proxy's copy assignment reads the source reference only.",
 "C19": " Sized text (a parameter or a member such as fmt_impl::fmt) is never passed on as data() without size().",
 "C20": " Sized text is never passed on as data() without size() (T.sized-text-complete).",
}
ROUND4["C19"] += (" The integer field is laid out as ISO C prescribes, as far as that is a statement about the code's shape "
                  "(T.field-layout): every path of a conversion that pops its argument reaches the field routine; the padding "
                  "character is '0' only where no precision is engaged; the sign flags of unsigned conversions fold to false; in "
                  "print_digits the length compared with the width depends on the sign, and a character that may be '0' is "
                  "appended as padding only between the sign and the digits. Still not decided: the digits, the float conversions.")
ROUND4["C20"] += " A '*' width reaches the conversions only after a negative value was re-assigned (B6.star-width-nonneg)."
for _k, _v in ROUND4.items():
    CLAIMS[_k]["text"] = CLAIMS[_k]["text"] + _v
ROUND4_TECH = {
 "C09": "; per-path dataflow over a 'next digit tested' / 'mask bit tested' fact",
 "C13": "; per-path sets of field writes per object",
 "C17": "; compile-fail witness (constinit) in the type-level unit",
}
for _k, _v in ROUND4_TECH.items():
    CLAIMS[_k]["technique"] = CLAIMS[_k]["technique"] + _v

# ---- rounds 5-7 addenda (DESIGN.md §8.11-§8.13) -------------------------------------------------------------------------
ROUND567 = {
 "C01": " Integer widths: no value is stored into a narrower field, no address mask is built in a type narrower than the address, "
        "counters and bit counts have the width of what they count (B9.*).",
 "C02": " realloc's exits are a typestate over the old block (untouched / expanded / poisoned / resized / freed); the copy of the "
        "fallback fits the new block (E.realloc-copy); the integer-width rules B9.*.",
 "C03": " A frame header is written once, before the frame is handed out; the poison order of realloc's in-place and copying exits "
        "(Z.poison-order); the integer-width rules B9.*.",
 "C04": " A declaration does not promise more than the body keeps: no function that may return null is declared returns_nonnull "
        "(Y.nonnull-contract); the map() result is tested before it is written through (N.map-result).",
 "C05": " A protected field that is read and then updated is read and updated inside one critical section (L5.update-in-one-section).",
 "C06": " An inserted node's colour is written on every path before fix_insert reads it (H.colour-on-entry); no local read from a child "
        "or parent link is used again after a call that may rebalance without bound (K.stale-after-rebalance); the tree's members are "
        "held by value and no member initialiser reads an uninitialised member (W.members-owned, O.init-reads-initialised); the two "
        "descents are decided through folded helpers and closures as well.",
 "C07": " The query's bounds are parameters the search owns for its duration (W.query-bounds-owned).",
 "C08": " pop/remove replace the root on every path that removes it (H.root-replaced); a node parameter handed to a merging helper is "
        "not used again afterwards (K.param-consumed); frg::get<Tag>(composition *) is a reference to the stored functor, also for a "
        "small trivially copyable one (W2.composition-by-reference, a static_assert).",
 "C09": " The leaf walk of the iterator is total over the 16 slots (E.leaf-walk-total); a fresh node's parent field matches the link it "
        "is stored under (H.parent-matches-link); aligned_storage honours extended alignments, so entries[] is aligned for T "
        "(W2.storage-layout, static_asserts).",
 "C10": " find() returns only values decided under the prefix match and the set bit, single-exit forms included (E.find-guarded through "
        "exit values); W2.storage-layout as for C09.",
 "C11": " The integer-width rules B9.* on the period counters.",
 "C12": " The guard of a byte-aligned mutex is larger than a pointer: its ownership flag cannot be carried by the mutex address "
        "(W2.guard-types, a static_assert that stays decidable when the guard's representation changes).",
 "C13": " Count-down loops compare a signed counter as signed (B8.countdown-sign); swapping inline storage moves into empty storage only "
        "(O.swap-into-empty-storage); list splice keeps the tail's provenance (H.list-splice); raw storage honours the element's "
        "alignment (W2.storage-layout); operator== of a sequence never compares floating-point or class elements byte-wise "
        "(Y.bytewise-on-bytes, with instantiations for double, float and unsigned char).",
 "C14": " All past-the-end iterators -- end(), end() const, begin() of an empty map, operator++ at exhaustion -- designate one bucket "
        "value (K.end-sentinel-agrees, a sibling cross-check); the key type's own equality answers true only under equal lengths "
        "(E.equal-lengths-first); a local table is paired with its capacity through folded allocation helpers; members owned by value.",
 "C15": " Counts handed to memcpy are in bytes (B2.count-in-bytes); operator== of a view answers true only where the lengths are known "
        "equal and never lets the identity of the character pointers decide (E.equal-lengths-first); to_number has a refusal that looks "
        "at the current digit (E.to-number-exact); byte-wise routines only over byte-sized characters (Y.bytewise-on-bytes).",
 "C16": " unique_ptr detaches before it destroys (O9.detach-before-destroy); W2.storage-layout: a union's storage fits every member "
        "in every order (six orders of three members, up to six members, over-aligned ones).",
 "C17": " `x = {}` empties a holder (W.brace-assign-empties) and emplace direct-initialises (W.emplace-direct-init), both decided by overload "
        "resolution on witness expressions; tuple_cat keeps reference elements references; W2.storage-layout as for C16.",
 "C18": " The word count of a bitset is ceil(N / bits per word) (I.word-count); frg::min/max return their second argument only under "
        "the strict comparison, so that a tie returns the first (E.minmax-tie, on instantiations for int and a class type); the PCG "
        "rejection threshold is (N % bound) with N == -bound modulo 2^32 (a clause of T.prng-constants, N read as a linear form).",
 "C19": " Every directive starts from fresh options (I.directive-options-fresh); generic_strnlen reads only under n < max or delegates "
        "with a count made from max (B.strnlen-bounded); a group size read from grouping[g] is not used after g moved "
        "(K.group-size-current); byte-wise searches only over byte-sized characters (Y.bytewise-on-bytes, decided on the wchar_t "
        "instantiation that %ls with a precision uses).",
 "C20": " K.group-size-current, Y.bytewise-on-bytes, E.to-number-exact and E.equal-lengths-first as for C19/C15.",
}
for _k, _v in ROUND567.items():
    CLAIMS[_k]["text"] = CLAIMS[_k]["text"] + _v
ROUND567_TECH = {
 "C01": "; integer-width dataflow over field/operand bit widths",
 "C02": "; exit typestate of realloc",
 "C04": "; attribute-vs-body contract check",
 "C06": "; alias-set dataflow for the colour write; call-graph reachability of rotations",
 "C08": "; static_assert witness on composition",
 "C09": "; static_assert witnesses on raw storage",
 "C10": "; static_assert witnesses on raw storage",
 "C12": "; size witness on a byte-aligned mutex",
 "C13": "; element type read underneath void* conversions at byte-wise calls; static_assert witnesses on raw storage",
 "C14": "; sibling agreement of sentinel constructions",
 "C15": "; dependence of refusal decisions on the current digit",
 "C16": "; static_assert witnesses on raw storage",
 "C17": "; overload-resolution witnesses",
 "C18": "; facts under which each argument is returned; linear forms modulo 2^32",
 "C19": "; forward dataflow over cursor-derived locals with closures folded",
}
for _k, _v in ROUND567_TECH.items():
    CLAIMS[_k]["technique"] = CLAIMS[_k]["technique"] + _v

# ---- round-8 addenda (DESIGN.md §8.14) -----------------------------------------------------------------------------------
ROUND8 = {
 "C01": " Every constructor of the hook, the frames, the bucket and the pool gives every scalar member a value (I.members-initialised: "
        "`T *a, *b = nullptr;` initialises b only; a defaulted constructor initialises what has a default member initialiser).",
 "C02": " A frame pointer is converted to slab_frame * only under `type == slab` decided for that frame, switch cases included "
        "(N.downcast-guarded); each member of slab_allocator reaches the pool member of the same meaning on every path "
        "(W.allocator-forwards); realloc's in-place exits are also judged path by path, with the outcome of the helpers followed "
        "through a result variable and a two-valued outcome type.",
 "C03": " W.allocator-forwards as for C02 (a wrapper that answers a growing reallocate itself skips the unpoisoning).",
 "C05": " The library's own spinlocks, as the pool's Mutex, have every counter initialised by their constructors (I.members-initialised).",
 "C06": " Whichever way a node is unlinked, the non-link fields of its hook are left in one state (sibling agreement clause of "
        "H.rb-reset); I.members-initialised on the hook and the tree.",
 "C08": " Whatever becomes the heap the remaining pairs are merged into has had its backlink cleared (second clause of "
        "H.collapse-detach); I.members-initialised on hook and heap.",
 "C09": " A shift count computed from a node's depth, outside pfx_of/idx_of, stays within [0, 64) for every depth 0..15 that the "
        "dominating decisions admit (B3.depth-shift).",
 "C10": " insert() hands all its arguments to find_or_insert and stores nothing through the entry pointer it gets back "
        "(A2.insert-constructs-in-place).",
 "C11": " The agent's constructor, where it samples the period counter itself, does so under the domain mutex (E.join-snapshot); a "
        "user-written move or copy constructor of an agent or node mentions every member of its source (W.move-carries-state); "
        "I.members-initialised on agent, domain, node and list hook.",
 "C12": " I.members-initialised on both spinlocks and the three guards; W.move-carries-state on the guards' move constructors.",
 "C13": " operator= of a sequence does not destroy its own elements or release its buffer before the last read of a by-reference "
        "source (R.assign-reads-source-first); I.members-initialised on the containers and the list hook.",
 "C14": " begin()'s 'no chain found' trap is reached only under _size != 0 (E.begin-total); insert(key, Value &&) does not read the "
        "by-reference key after the statement that moves from the value (R.key-read-before-value-moved); I.members-initialised.",
 "C15": " A string's data() never travels without its size(), in the string's own members and hash as well "
        "(T.sized-text-complete on the string unit).",
 "C16": " The destructor of an owning container reaches the release of its buffer on every path on which the buffer pointer is not "
        "known null (O.dtor-releases: hash_map, vector, dyn_array, basic_string, unique_memory).",
 "C17": " Moves of optional and variant are instantiated with a move-only alternative: a construction that quietly copies does not "
        "compile and is reported by W1.",
 "C18": " bitset::operator== compares every word of the buffer in each instantiated size (E.equal-covers-words); seed() reads no "
        "member before it has assigned it (clause of I.seed-complete); Y.bytewise-on-bytes on the array unit, with equality "
        "instantiated for double and unsigned char.",
 "C19": " fmt() stores rvalue arguments by value and refers to lvalue arguments only (W2.fmt-holds-rvalues, static_asserts on the "
        "type fmt() returns).",
 "C20": " No narrow string literal reaches a conversion to a wide-character pointer (Y.literal-width: reaching definitions followed "
        "back through casts).",
}
for _k, _v in ROUND8.items():
    CLAIMS[_k]["text"] = CLAIMS[_k]["text"] + _v
ROUND8_TECH = {
 "C01": "; constructor-initialisation completeness over record fields",
 "C02": "; downcast typestate on branch and switch facts; must-call analysis of the wrapper",
 "C09": "; exhaustive evaluation of shift counts over the depth domain",
 "C13": "; reaches-analysis between destroying calls and reads of the source",
 "C14": "; trap-justification by dominating facts; reaches-analysis from the consuming statement",
 "C16": "; must-release analysis of destructors with null facts",
 "C18": "; index-coverage of comparison loops per instantiated size",
 "C20": "; reaching definitions through casts",
}
for _k, _v in ROUND8_TECH.items():
    CLAIMS[_k]["technique"] = CLAIMS[_k]["technique"] + _v

ROUND9 = {
 "C02": " Whichever function re-links a slab that was full -- free_in_slab_ itself or, with the helper folded in, each of free() "
        "and deallocate() -- does so on exactly the paths that push a block onto a previously empty free list (E.reuse-before-map, "
        "both entry values of `available`, only the pushing paths).",
 "C03": " Policy::unmap is reached from one release helper or from each release entry point; every site takes both arguments "
        "from one frame before its header is poisoned and only for a frame that is not a slab (E.unmap-provenance).",
 "C07": " aggregate() is interpreted over bound values on both sides of zero, with folded helpers and conditional expressions "
        "evaluated: a value-initialised bound is not an identity of max (M.aggregator).",
 "C08": " The tree returned by _merge / _collapse is consumed at every call and reaches _root in push, pop and remove, "
        "through named locals and nested merges (H.merge-result-kept).",
}
for _k, _v in ROUND9.items():
    CLAIMS[_k]["text"] = CLAIMS[_k]["text"] + _v
ROUND9_TECH = {
 "C08": "; value-sink analysis of the merge results",
}
for _k, _v in ROUND9_TECH.items():
    CLAIMS[_k]["technique"] = CLAIMS[_k]["technique"] + _v

NOT_YET = "check not built yet in this revision (see DESIGN.md §7 order of work); not claimed until it exists"
NA = {}
