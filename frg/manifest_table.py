"""Per-property MANIFEST text. gen_manifest.py turns this into MANIFEST.json.
A property is listed as claimed once its check function exists in props.PROPS;
otherwise it goes under not_applicable with the reason 'PENDING'/N/A text."""

CLAIMS = {
 "C12": dict(
  technique="static analysis: abstract execution of guard-class event CFGs (ownership flag x mutex-call sequence), swap-completeness, atomic-order table on spinlocks",
  text="Decides the structural half of C12 on every instantiated member of unique_lock, shared_lock and the QS lock_guard: "
       "each acquire/release method makes exactly one call of the matching mutex method on every path with the flag "
       "asserted before and updated after; destructors release iff owned; constructors end in the right ownership "
       "state; swap exchanges every field; guards are non-copyable. It does not decide mutual exclusion or FIFO "
       "hand-over over interleavings (not a static property).",
  note="Trusted: clang 14 AST/CFG of the instantiation unit tu/locks.cpp; witness Mutex type stands for any mutex type. "
       "Path-sensitive over the ownership flag only.",
  design_ref="DESIGN.md §3 C12, §2 G/S/A"),
}

NOT_YET = "check not built yet in this revision (see DESIGN.md §7 order of work); not claimed until it exists"
NA = {}
