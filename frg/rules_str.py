"""Strings and views (C15) and the string-side parser rules of C20."""
from .ir import path, canon, std_unwrap, AnalysisBroken, climb
from . import flow
from . import rules_atomic as RA
from .poly import Poly, to_poly
from .rules_guard import write_of
from .rules_own import cls_fns, recs_of

STR = "frg::basic_string"
VIEW = "frg::basic_string_view"


def _is_len_inc(n):
    return n.kind == "UnaryOperator" and n.op == "++" and path(n.children[0]) == ("this", "_length")


class StrFn:
    """Symbolic view of one basic_string member."""

    def __init__(self, fn, chart):
        self.fn = fn
        self.chart = chart
        self.inits = RA.local_inits(fn)
        self.len_ctor = None
        self.mins = {}
        if fn.kind == "ctor":
            # a default member initialiser is overridden by an assignment in the body
            ws = [(n, write_of(n)) for n in fn.events()]
            ws = [(n, w) for n, w in ws if w and w[0] == ("this", "_length") and w[1] is not None]
            if any(n.kind != "CtorInit" for n, w in ws):
                ws = [(n, w) for n, w in ws if not (n.kind == "CtorInit" and n.get("implicit"))]
            if ws:
                self.len_ctor = ws[0][1][1]

    def leaf(self, n):
        n = std_unwrap(n)
        k = n.kind
        if k in ("BinaryOperator",) and n.op in ("+", "-", "*"):
            return to_poly(n, self.leaf)
        if k == "UnaryExprOrTypeTraitExpr":
            if n.get("argt") == self.chart:
                return Poly.sym("S")
            c = n.cv()
            return Poly.const(c) if c is not None else None
        if k == "InitListExpr" and len(n.children) == 1:
            return to_poly(n.children[0], self.leaf)
        if k == "ConditionalOperator" and len(n.children) == 3:
            # `a < b ? a : b` in any spelling of the comparison: min(a, b)
            rel = flow.fact_relation(n.children[0], True)
            if rel is not None and rel[1] in ("<", "<="):
                l, r = canon(std_unwrap(rel[0])), canon(std_unwrap(rel[2]))
                t, e = canon(std_unwrap(n.children[1])), canon(std_unwrap(n.children[2]))
                if (t, e) == (l, r):
                    a, b = to_poly(n.children[1], self.leaf), to_poly(n.children[2], self.leaf)
                    if a is not None and b is not None:
                        self.mins["min#c%d" % n.id] = [a, b]
                        return Poly.sym("min#c%d" % n.id)
        p = path(n)
        if p == ("this", "_length"):
            if self.len_ctor is not None and self.len_ctor.id != n.id:
                return to_poly(self.len_ctor, self.leaf)
            return Poly.sym("L")
        if p and p[-1] == "_length":
            return Poly.sym(".".join(x.split("#")[0] for x in p))
        if k == "DeclRefExpr":
            if n.get("local") and n.d["d"] in self.inits and not RA._reassigned(self.fn, n.d["d"]):
                return to_poly(self.inits[n.d["d"]], self.leaf)
            if n.get("local") and n.d["d"] in self.inits:
                mb = self.min_bounds(n.d["d"])
                if mb:
                    self.mins["min#%d" % n.d["d"]] = mb
                    return Poly.sym("min#%d" % n.d["d"])
            return Poly.sym(n.n)
        if n.is_call() and n.callee:
            nm = n.callee["n"]
            if nm == "size" and n.kind == "CXXMemberCallExpr":
                o = n.child("obj")
                op = path(o) if o is not None else None
                if op == ("this",):
                    return self.leaf_len_this()
                return Poly.sym("size(%s)" % canon(o).split("#")[0])
            if nm in ("generic_strlen", "strlen"):
                return Poly.sym("strlen(%s)" % canon(n.args[0]).split("#")[0])
        if k in ("ImplicitCastExpr", "CStyleCastExpr", "CXXStaticCastExpr") and n.children:
            return to_poly(n.children[0], self.leaf)
        return Poly.sym("?" + canon(n)[:40])

    def min_bounds(self, did):
        """x initialised to A and reassigned only as `x = B` under the fact x > B: x == min(A, B).
        Returns [poly(A), poly(B)] or None."""
        bounds = [to_poly(self.inits[did], self.leaf)]
        for n in self.fn.all_nodes():
            if n.kind == "BinaryOperator" and n.op == "=":
                l = n.children[0].strip()
                if l.kind == "DeclRefExpr" and l.d["d"] == did:
                    ok = False
                    for cond, truth in flow.facts_at(self.fn, n.id):
                        c = cond.strip()
                        if truth and c.kind == "BinaryOperator" and c.op == ">" and \
                                c.children[0].strip().kind == "DeclRefExpr" and c.children[0].strip().d["d"] == did and \
                                canon(c.children[1]) == canon(n.children[1]):
                            ok = True
                    if not ok:
                        return None
                    bounds.append(to_poly(n.children[1], self.leaf))
            if n.kind in ("CompoundAssignOperator", "UnaryOperator") and n.get("op") in ("++", "--", "+=", "-=", "*="):
                l = n.children[0].strip()
                if l.kind == "DeclRefExpr" and l.d["d"] == did:
                    return None
        return bounds if len(bounds) > 1 and all(b is not None for b in bounds) else None

    def le(self, a, b):
        """a <= b for all admissible symbol values (sufficient check); min-symbols in `a` may be replaced
        by any of their upper bounds."""
        if (b - a).nonneg(ge_one=("S",)):
            return True
        for ms, bounds in self.mins.items():
            if any(ms in k for k in a.t):
                for ub in bounds:
                    a2 = _subst(a, ms, ub)
                    if (b - a2).nonneg(ge_one=("S",)):
                        return True
        return False

    def leaf_len_this(self):
        if self.len_ctor is not None:
            return to_poly(self.len_ctor, self.leaf)
        return Poly.sym("L")

    def poly(self, n):
        return to_poly(n, self.leaf)

    def buffer_of(self, n, depth=0):
        """Destination expression -> (buffer key, element offset Poly). Buffer key: 'this._buffer' or local did."""
        n = std_unwrap(n)
        if n.kind == "BinaryOperator" and n.op == "+" and (n.get("t") or "").endswith("*"):
            b = self.buffer_of(n.children[0], depth)
            off = self.poly(n.children[1])
            if b is None or off is None:
                return None
            return (b[0], b[1] + off)
        p = path(n)
        if p == ("this", "_buffer"):
            return ("this._buffer", Poly.const(0))
        if n.kind == "DeclRefExpr" and n.get("local") and n.get("dk") == "Var":
            # a once-initialised local that merely names another buffer expression (the field, another local plus an offset:
            # `Char *storage = _allocate_storage();`, `Char *const terminator = _buffer + size;`) stands for it
            ini = self.inits.get(n.d["d"])
            if ini is not None and not RA._reassigned(self.fn, n.d["d"]) and depth < 6:
                iv = std_unwrap(ini)
                if not (iv.is_call() and iv.callee and iv.callee["n"] == "allocate") and not (
                        iv.kind in ("CStyleCastExpr", "CXXStaticCastExpr", "CXXReinterpretCastExpr")):
                    b = self.buffer_of(iv, depth + 1)
                    if b is not None:
                        return b
            return (n.d["d"], Poly.const(0))
        return None

    def allocations(self):
        """buffer key -> allocation size Poly (bytes)."""
        out = {}
        for n in self.fn.events():
            if n.kind == "CXXMemberCallExpr" and n.callee and n.callee["n"] == "allocate" and n.args:
                sz = self.poly(n.args[0])
                c, p = climb(self.fn, n)
                key = None
                if p is not None and p.kind == "BinaryOperator" and p.op == "=":
                    b = self.buffer_of(p.children[0])
                    key = b[0] if b else None
                else:
                    for x in self.fn.all_nodes():
                        if x.kind == "DeclStmt":
                            for d in x.get("decls", []):
                                if d.get("init") == c.id:
                                    key = d["d"]
                if key is not None and sz is not None:
                    out[key] = (sz, n)
        return out


def check_string_buffers(ctx, unit, tag="", only_chart=None):
    ctx.rule("B2.copy-within-source", "every memcpy in basic_string reads at most the source's extent: sizeof(Char)*size() "
             "characters behind a view's data() (its terminator is not readable), sizeof(Char)*(length+1) behind a string's buffer", 6)
    ctx.rule("B2.write-within-allocation", "every memcpy destination range and every element write into a freshly allocated "
             "buffer lies inside the allocation, with sizeof(Char) >= 1 symbolic (the terminator needs sizeof(Char) bytes)", 8)
    ctx.rule("B2.copy-source-nonnull", "a memcpy whose source is null when empty (a view's data(), a string's buffer) runs only "
             "under a test that the count is non-zero or the source non-null", 6)
    ctx.rule("I.terminator", "whenever a fresh buffer is installed, buffer[new length] = 0 is written on the way", 6)
    ctx.rule("I.buffer-nonnull", "every constructor leaves the string with an allocated buffer and no member resets it to "
             "null, so data()[size()] is a readable terminator", 4)
    for rec in recs_of(unit, STR):
        chart = None
        for fl in rec["fields"]:
            if fl["n"] == "_buffer":
                chart = fl["t"].replace("*", "").strip()
        if chart is None:
            raise AnalysisBroken("anchor vanished: basic_string::_buffer")
        if only_chart is not None and chart != only_chart:
            continue
        fns = cls_fns(unit, rec["qn"])
        n_copy = 0
        for f in fns:
            sf = StrFn(f, chart)
            allocs = sf.allocations()
            cp = sorted([n for n in f.events() if n.is_call() and n.callee and n.callee["n"] in ("memcpy", "__builtin_memcpy")], key=lambda n: n.loc)
            for i, n in enumerate(cp):
                dst, src, cnt = n.args[0], n.args[1], sf.poly(n.args[2])
                n_copy += 1
                inst = "%s: memcpy #%d%s" % (f.sig, i + 1, tag)
                # source extent
                s = std_unwrap(src)
                ext, what = None, None
                if s.kind == "CXXMemberCallExpr" and s.callee and s.callee["n"] == "data":
                    o = s.child("obj")
                    ext = Poly.sym("S") * Poly.sym("size(%s)" % canon(o).split("#")[0])
                    what = "view %s: sizeof(Char)*size() bytes, no terminator" % canon(o).split("#")[0]
                else:
                    sp = path(s)
                    if sp and sp[-1] == "_buffer":
                        ln = sf.leaf_len_this() if sp[:-1] == ("this",) else Poly.sym(".".join(x.split("#")[0] for x in sp[:-1]) + "._length")
                        ext = Poly.sym("S") * (ln + Poly.const(1))
                        what = "string buffer: sizeof(Char)*(length+1) bytes"
                if ext is not None and cnt is not None:
                    ok = sf.le(cnt, ext)
                    ctx.inst("B2.copy-within-source", inst, ok, n.loc,
                             "copies %s bytes from %s (extent %s)" % (cnt, what, ext), f)
                elif cnt is not None:
                    ctx.inst("B2.copy-within-source", inst, True, n.loc,
                             "source is a caller-supplied pointer with caller-supplied length (%s bytes)" % cnt, f, nontrivial=False)
                # a source that the library itself leaves null when empty (a default view's data(), a default string's
                # buffer) is handed to memcpy only when the count is known to be non-zero
                if ext is not None and cnt is not None:
                    guard = None
                    for c, t in flow.facts_at(f, n.id):
                        x = c.strip()
                        rel = flow.fact_relation(c, t)
                        cand = None
                        if rel is not None:
                            a_, op_, b_ = rel
                            if op_ == "!=" and (b_.strip().cv() == 0 or _is_null(b_)):
                                cand = a_
                            elif op_ == "!=" and (a_.strip().cv() == 0 or _is_null(a_)):
                                cand = b_
                            elif op_ == "<" and a_.strip().cv() == 0:
                                cand = b_
                        elif t and x.kind not in ("BinaryOperator", "UnaryOperator"):
                            cand = x
                        if cand is None:
                            continue
                        if canon(std_unwrap(cand)) == canon(s):
                            guard = "source tested non-null"
                            break
                        cp_ = sf.poly(cand)
                        if cp_ is not None and (cp_ == cnt or Poly.sym("S") * cp_ == cnt):
                            guard = "count tested non-zero"
                            break
                    ctx.inst("B2.copy-source-nonnull", inst, guard is not None, n.loc,
                             guard or ("memcpy(.., %s, %s) runs for a zero count too: the source pointer is null for an empty "
                                       "%s, and memcpy's pointer arguments must be valid even for n == 0 (the optimiser "
                                       "deletes later null tests of that pointer)" %
                                       (canon(s).split("#")[0], cnt, "view" if what.startswith("view") else "default-constructed string")), f)
                # destination
                b = sf.buffer_of(dst)
                if b is not None and b[0] in allocs and cnt is not None:
                    E = allocs[b[0]][0]
                    need = Poly.sym("S") * b[1] + cnt
                    ok = sf.le(need, E)
                    ctx.inst("B2.write-within-allocation", inst, ok, n.loc,
                             "writes bytes [.., %s) of a %s-byte allocation" % (need, E), f)
            # element writes into fresh buffers
            k = 0
            term_idx = {}
            for n in sorted([x for x in f.events() if x.kind == "BinaryOperator" and x.op == "="], key=lambda x: x.loc):
                l = n.children[0].strip()
                if l.kind == "UnaryOperator" and l.op == "*" and l.children:
                    # `*p = v` writes element 0 behind p (p = buffer + k: element k)
                    b = sf.buffer_of(l.children[0])
                    idx = Poly.const(0)
                    sub_node = l.children[0]
                elif l.kind == "ArraySubscriptExpr":
                    b = sf.buffer_of(l.children[0])
                    idx = sf.poly(l.children[1])
                    sub_node = l.children[1]
                else:
                    continue
                if b is None or b[0] not in allocs:
                    continue
                if idx is None:
                    continue
                k += 1
                E = allocs[b[0]][0]
                need = Poly.sym("S") * (b[1] + idx + Poly.const(1))
                ok = (E - need).nonneg(ge_one=("S",))
                # loop-bounded fill writes (i < size): index symbol is a loop variable bounded by a length
                ctx.inst("B2.write-within-allocation", "%s: element write #%d%s" % (f.sig, k, tag), ok or _loop_bounded(f, sub_node, sf, E), n.loc,
                         "writes element %s (bytes up to %s) of a %s-byte allocation" % (idx, need, E), f)
                if n.children[1].strip().cv() == 0:
                    term_idx.setdefault(b[0], []).append((b[1] + idx, n))
            # installation
            inst_bufs = []
            for n in f.events():
                w = write_of(n)
                if w and w[0] and w[0][-1] == "_buffer" and w[1] is not None:
                    v = std_unwrap(w[1])
                    if v.kind == "DeclRefExpr" and v.d["d"] in allocs:
                        inst_bufs.append((v.d["d"], w[0][:-1], n))
            if "this._buffer" in allocs:
                inst_bufs.append(("this._buffer", ("this",), allocs["this._buffer"][1]))
            for key, owner, n in inst_bufs:
                # new length: value stored to owner._length in this function
                newlen = None
                for m in f.events():
                    w = write_of(m)
                    if w and w[0] == owner + ("_length",):
                        if _is_len_inc(m):
                            newlen = Poly.sym("L") + Poly.const(1)
                        elif w[1] is not None:
                            newlen = StrFn(f, chart).poly(w[1]) if owner != ("this",) or f.kind == "ctor" else _newlen_poly(sf, w[1])
                if newlen is None:
                    newlen = sf.leaf_len_this()
                terms = term_idx.get(key, [])
                ok = any(t[0] == newlen for t in terms)
                ctx.inst("I.terminator", "%s: installs %s%s" % (f.sig, "fresh buffer", tag), ok, n.loc,
                         "new length %s; zero writes at indices %s" % (newlen, [str(t[0]) for t in terms]), f)
        if n_copy < 6:
            raise AnalysisBroken("anchor vanished: memcpy sites in basic_string (found %d)" % n_copy)
        # non-null buffer
        for f in fns:
            if f.kind == "ctor" and not f.get("delegating"):
                sf = StrFn(f, chart)
                al = sf.allocations()
                # allocated directly into the field, or into a local (possibly of a virtually inlined helper) that is
                # then stored into the field
                ok = "this._buffer" in al or any(
                    write_of(n) and write_of(n)[0] == ("this", "_buffer") and write_of(n)[1] is not None
                    and std_unwrap(write_of(n)[1]).kind == "DeclRefExpr" and std_unwrap(write_of(n)[1]).d["d"] in al
                    for n in f.events())
                nulls = [n for n in f.events() if write_of(n) and write_of(n)[0] == ("this", "_buffer") and write_of(n)[1] is not None
                         and _is_null(write_of(n)[1])]
                if ok:
                    # a default member initialiser runs before the body that installs the allocation
                    nulls = [n for n in nulls if not (n.kind == "CtorInit" and n.get("implicit"))]
                ctx.inst("I.buffer-nonnull", "%s::<ctor>(%s)" % (STR, ", ".join(p["n"] for p in f.params())),
                         ok and not nulls, f.loc,
                         "constructor leaves _buffer == nullptr: data()[size()] dereferences a null pointer" if not ok else
                         "allocates its buffer", f)
            elif f.kind not in ("ctor", "dtor"):
                nulls = [n for n in f.events() if write_of(n) and write_of(n)[0] == ("this", "_buffer") and write_of(n)[1] is not None
                         and _is_null(write_of(n)[1])]
                if nulls:
                    ctx.inst("I.buffer-nonnull", "%s::%s" % (STR, f.name), False, nulls[0].loc,
                             "%s() sets _buffer to nullptr: data()[size()] dereferences a null pointer afterwards" % f.name, f)


def _subst(p, sym, repl):
    out = Poly()
    for k, v in p.t.items():
        term = Poly.const(v)
        for x in k:
            term = term * (repl if x == sym else Poly.sym(x))
        out = out + term
    return out


def _newlen_poly(sf, v):
    return sf.poly(v)


def _is_null(v):
    v = v.strip()
    if v.kind == "InitListExpr" and len(v.children) == 1:
        v = v.children[0].strip()
    return bool(v.get("nullc")) or v.kind == "CXXNullPtrLiteralExpr"


def _loop_bounded(f, idxnode, sf, E):
    """index is a loop variable i with dominating fact i < B and S*(B) <= E - S (fill loops)."""
    i = idxnode.strip()
    if i.kind != "DeclRefExpr":
        return False
    for cond, truth in flow.facts_at(f, idxnode.id):
        c = cond.strip()
        if truth and c.kind == "BinaryOperator" and c.op == "<":
            l = c.children[0].strip()
            if l.kind == "DeclRefExpr" and l.d["d"] == i.d["d"]:
                B = sf.poly(c.children[1])
                if B is not None and (E - Poly.sym("S") * B).nonneg(ge_one=("S",)):
                    return True
    return False


# ---- views ---------------------------------------------------------------------------------

def check_views(ctx, unit):
    ctx.rule("B.view-subscript-bounded", "in the searching/comparing members of basic_string_view every subscript of the "
             "character pointer is dominated by index < length (or index-1 with index > 0 counting down from length)", 6)
    ctx.rule("B5.substring-assert", "sub_string() guards its pointer arithmetic with an assertion that cannot wrap: no sum "
             "of two caller-controlled operands is compared against the length", 1)
    ctx.rule("E.prefix-suffix-guard", "starts_with()/ends_with() call sub_string(from, n) only where n <= size() - from is known on that path "
             "(other.size() <= size(), with from = 0 or from = size() - other.size())", 2)
    ctx.rule("E.compare-length-first", "both compare() overloads decide on the lengths before touching characters and walk "
             "exactly length characters", 2)
    for rec in recs_of(unit, VIEW):
        fns = cls_fns(unit, rec["qn"])
        UNCHECKED = {"operator[]": "unchecked element access by contract (as std::string_view::operator[])"}
        for f in fns:
            if f.name in UNCHECKED or f.kind in ("ctor", "dtor"):
                continue
            subs = sorted([n for n in f.events() if n.kind == "ArraySubscriptExpr"
                           and path(n.children[0]) and path(n.children[0])[-1] == "_pointer"], key=lambda n: n.loc)
            runs = {}
            for k, n in enumerate(subs):
                idx = n.children[1]
                base = path(n.children[0])
                facts = flow.facts_at(f, n.id)
                lens_equal = any(_eq_lengths(c, t, f) for c, t in facts) or _lengths_equal_on_all_paths(f, n)
                owners = {base[:-1]} | ({("this",)} if lens_equal else set())
                key = tuple(sorted(owners))
                if key not in runs:
                    def is_len(x, owners=owners, f=f):
                        x = std_unwrap(x)
                        if x.kind == "DeclRefExpr" and x.get("local"):
                            # the length held in a once-initialised local (`const size_t num_chars = chars.size();`)
                            x = std_unwrap(RA.resolve_local(f, x))
                        px = path(x)
                        if px and px[-1] == "_length" and px[:-1] in owners and x.kind == "MemberExpr":
                            return True
                        if x.kind == "CXXMemberCallExpr" and x.callee and x.callee["n"] == "size" and x.callee.get("cls") == VIEW:
                            po = path(x.child("obj"))
                            return po in owners
                        return False
                    from .relbounds import RelBounds
                    runs[key] = RelBounds(f, is_len).run()
                ok, why = runs[key].index_ok(n, idx)
                if ok is None:
                    ok = True
                ctx.inst("B.view-subscript-bounded", "%s: _pointer[] #%d" % (f.sig, k + 1), ok, n.loc,
                         "subscript %s: %s, L = %s._length (relational bounds analysis)" % (canon(idx), why, ".".join(base[:-1])), f)
        # pointer iteration over the characters (`for(auto it = begin() + k; it != end(); ++it) ... *it`): the pointer is
        # tracked by its offset from the view's character pointer; a dereference needs 0 <= offset < length
        by_did = {g.did: g for g in fns}

        def ret_expr(x):
            g = by_did.get(x.callee.get("did")) if x.kind == "CXXMemberCallExpr" and x.callee else None
            if g is None or g.params():
                return None
            rs = g.return_nodes()
            return std_unwrap(rs[0].child("val")) if len(rs) == 1 and rs[0].child("val") is not None else None
        for f in fns:
            if f.name in UNCHECKED or f.kind in ("ctor", "dtor"):
                continue
            owners = {("this",)}

            def is_base(x, owners=owners):
                x = std_unwrap(x)
                px = path(x)
                if px and px[-1] == "_pointer" and px[:-1] in owners and x.kind == "MemberExpr":
                    return True
                if x.kind == "CXXMemberCallExpr" and path(x.child("obj")) in owners:
                    r = ret_expr(x)
                    return r is not None and path(r) == ("this", "_pointer")
                return False

            def is_len2(x, owners=owners):
                x = std_unwrap(x)
                px = path(x)
                if px and px[-1] == "_length" and px[:-1] in owners and x.kind == "MemberExpr":
                    return True
                if x.kind == "CXXMemberCallExpr" and x.callee and path(x.child("obj")) in owners:
                    if x.callee["n"] == "size" and x.callee.get("cls") == VIEW:
                        return True
                    r = ret_expr(x)
                    if r is not None and r.kind == "BinaryOperator" and r.op == "+" and {path(std_unwrap(c)) for c in r.children} == {("this", "_pointer"), ("this", "_length")}:
                        return True         # an end() accessor: base + length
                return False
            from .relbounds import RelBounds
            rbp = RelBounds(f, is_len2, is_base=is_base)
            if not rbp.ptrvars:
                continue
            rbp.run()
            derefs = sorted([n for n in f.events() if n.kind == "UnaryOperator" and n.op == "*" and rbp._ptr_expr(n.children[0])], key=lambda n: n.loc)
            for k, n in enumerate(derefs):
                ok, why = rbp.index_ok(n, n.children[0])
                if ok is None:
                    ok = True
                if not ok and _lockstep_countdown(f, n, is_len2):
                    ok, why = True, "index below L: the pointer moves up in lockstep with a counter that starts at L, moves down and ends the loop at 0"
                ctx.inst("B.view-subscript-bounded", "%s: *iterator #%d" % (f.sig, k + 1), ok, n.loc,
                         "dereference of %s: offset %s, L = this._length (relational bounds analysis over pointer offsets)" % (canon(n.children[0]), why.replace("index", "")), f)
        # element access of ANOTHER view through its (unchecked) operator[]: the index must be inside that view
        for f in fns:
            if f.name in UNCHECKED or f.kind in ("ctor", "dtor"):
                continue
            ocs = sorted([n for n in f.events() if n.kind == "CXXOperatorCallExpr" and n.callee and n.callee.get("op") == "[]"
                          and n.callee.get("cls") == VIEW and len(n.args) == 2 and path(n.args[0])], key=lambda n: n.loc)
            for k, n in enumerate(ocs):
                owner = path(n.args[0])

                def is_len(x, owner=owner):
                    x = std_unwrap(x)
                    px = path(x)
                    if px and px[-1] == "_length" and px[:-1] == owner and x.kind == "MemberExpr":
                        return True
                    if x.kind == "CXXMemberCallExpr" and x.callee and x.callee["n"] == "size" and x.callee.get("cls") == VIEW:
                        return path(x.child("obj")) == owner
                    return False
                from .relbounds import RelBounds
                rb_ = RelBounds(f, is_len).run()
                ok, why = rb_.index_ok(n, n.args[1])
                if ok is None:
                    ok = True
                ctx.inst("B.view-subscript-bounded", "%s: %s[] #%d" % (f.sig, ".".join(owner).split("#")[0], k + 1), ok, n.loc,
                         "subscript %s: %s, L = size of that view (relational bounds analysis)" % (canon(n.args[1]), why), f)
        for f in fns:
            if f.name == "sub_string":
                pids = {p["d"] for p in f.params()}
                arith = [n for n in f.events() if n.kind == "BinaryOperator" and n.op == "+" and (n.get("t") or "").endswith("*")]
                if not arith:
                    raise AnalysisBroken("anchor vanished: pointer arithmetic in sub_string")
                bad = []
                guarded = False
                inits_ = RA.local_inits(f)

                def controlled(o, depth=0):
                    """caller-controlled: a parameter, or a once-initialised local computed from parameters"""
                    o = o.strip()
                    if o.kind == "DeclRefExpr" and o.get("local"):
                        if o.d["d"] in pids:
                            return True
                        ini = inits_.get(o.d["d"])
                        if ini is not None and not RA._reassigned(f, o.d["d"]) and depth < 4:
                            return any(controlled(y, depth + 1) for y in ini.walk() if y.kind == "DeclRefExpr")
                    return False

                def sums_in(x, depth=0):
                    """sums of two caller-controlled operands inside x, also behind the locals x reads"""
                    out = []
                    for y in x.walk():
                        if y.kind == "BinaryOperator" and y.op == "+" and not (y.get("t") or "").endswith("*"):
                            if all(controlled(o) for o in y.children):
                                out.append(y)
                        if y.kind == "DeclRefExpr" and y.get("local") and y.d["d"] not in pids and depth < 4:
                            ini = inits_.get(y.d["d"])
                            if ini is not None and not RA._reassigned(f, y.d["d"]):
                                out += sums_in(ini, depth + 1)
                    return out
                for a in arith:
                    for cond, truth in flow.facts_at(f, a.id):
                        if not any(x.kind == "DeclRefExpr" and controlled(x) for x in cond.walk()):
                            continue
                        guarded = True
                        for x in sums_in(cond):
                            bad.append("assertion compares %s against the length: the unsigned sum wraps for large "
                                       "arguments and the check passes" % canon(x))
                ctx.inst("B5.substring-assert", f.sig, guarded and not bad, f.loc,
                         "; ".join(sorted(set(bad))) if bad else ("bounds assertion present and overflow-safe" if guarded else
                                                                  "pointer arithmetic is not guarded by any assertion on the arguments"), f)
            if f.name in ("starts_with", "ends_with"):
                calls = [n for n in f.events() if n.is_call() and n.callee and n.callee["n"] == "sub_string"]
                ok = bool(calls)
                op_ = f.params()[0]["d"]
                bm_ = f.bind_map()

                def term(x, depth=0):
                    """normal form of a length expression: ('len', 'this'|'other'), ('c', k), ('-', a, b), or its text"""
                    x = std_unwrap(RA.resolve_local(f, std_unwrap(x)))
                    hops = 0
                    while x.kind == "DeclRefExpr" and x.d.get("d") in bm_ and hops < 6:     # parameter of a folded helper
                        x, hops = std_unwrap(RA.resolve_local(f, std_unwrap(f.node(bm_[x.d["d"]])))), hops + 1
                    if depth > 8:
                        return canon(x)
                    c = x.cv() if x.kind not in ("DeclRefExpr", "MemberExpr") else None
                    if c is not None:
                        return ("c", c)

                    def who(o):
                        o = std_unwrap(o)
                        hops = 0
                        while hops < 8:
                            if o.kind in ("CXXConstructExpr", "CXXTemporaryObjectExpr", "MaterializeTemporaryExpr", "CXXBindTemporaryExpr"):
                                src = o.args if o.kind in ("CXXConstructExpr", "CXXTemporaryObjectExpr") else o.children
                                if len(src) != 1:
                                    break
                                o, hops = std_unwrap(src[0]), hops + 1
                            elif o.kind == "DeclRefExpr" and o.d.get("d") in bm_:
                                o, hops = std_unwrap(f.node(bm_[o.d["d"]])), hops + 1     # a by-value view parameter is a copy
                            else:
                                break
                        if o.kind == "CXXThisExpr" or (o.kind == "UnaryOperator" and o.op == "*" and o.children and std_unwrap(o.children[0]).kind == "CXXThisExpr"):
                            return "this"
                        if o.kind == "DeclRefExpr" and o.d.get("d") == op_:
                            return "other"
                        return None
                    if x.kind == "CXXMemberCallExpr" and x.callee and x.callee["n"] == "size" and x.child("obj") is not None:
                        w_ = who(x.child("obj"))
                        if w_:
                            return ("len", w_)
                    if x.kind == "MemberExpr" and x.get("m") == "_length" and x.children:
                        w_ = who(x.children[0])
                        if w_:
                            return ("len", w_)
                    if x.kind == "BinaryOperator" and x.op == "-":
                        return ("-", term(x.children[0], depth + 1), term(x.children[1], depth + 1))
                    return canon(x)
                LT = ("len", "this")
                for c in calls:
                    F, S = term(c.args[-2]), term(c.args[-1])
                    g = False
                    for cond, truth in flow.facts_at(f, c.id):
                        rel = flow.fact_relation(cond, truth)
                        if rel is None or rel[1] not in ("<=", "<"):
                            continue
                        A, B = term(rel[0]), term(rel[2])
                        if A != S:
                            continue
                        # S <= len - F (with F = 0: S <= len), or S <= len with F = len - S
                        if (B == LT and F in (("c", 0), ("-", LT, S))) or B == ("-", LT, F):
                            g = True
                    ok = ok and g
                ctx.inst("E.prefix-suffix-guard", f.sig, ok, f.loc, "sub_string(from, n) reached only where n <= size() - from is known (n <= size() for from = 0 or from = size() - n): %s" % ok, f)
    check_view_equality(ctx, unit)
    check_to_number_exact(ctx, unit)
    for rec in recs_of(unit, STR):
        for f in cls_fns(unit, rec["qn"]):
            if f.name != "compare":
                continue
            subs = [n for n in f.events() if n.kind == "ArraySubscriptExpr" or
                    (n.kind == "CXXOperatorCallExpr" and n.callee and n.callee.get("op") == "[]")]
            ok = bool(subs)
            for s in subs:
                g = False
                b = False
                for cond, truth in flow.facts_at(f, s.id):
                    rel = flow.fact_relation(cond, truth)
                    if rel is None:
                        continue
                    if rel[1] == "==" and ("this", "_length") in (path(rel[0]), path(rel[2])):
                        g = True
                    if rel[1] == "<" and path(rel[2]) == ("this", "_length"):
                        b = True
                    if rel[1] == "==" and {path(rel[0]), path(rel[2])} & {("this", "_length")}:
                        g = True        # (the other length may be a bound parameter of a folded helper)
                if not b:
                    # `while(i != _length && ...) ++i; if(i != _length) ... [i]`: bounded by the relational analysis (an index
                    # that starts at 0, moves up by one and is compared with != stays below the length)
                    try:
                        from .relbounds import RelBounds
                        idxn = s.children[1] if s.kind == "ArraySubscriptExpr" else (s.args[-1] if s.args else None)
                        if idxn is not None:
                            rb_ = RelBounds(f, lambda x: path(std_unwrap(x)) == ("this", "_length")).run()
                            ok_i, _why = rb_.index_ok(s, idxn)
                            b = bool(ok_i)
                    except Exception:
                        b = False
                ok = ok and g and b
            # the length compared with _length must be the other operand's complete length
            full = True
            for blk in f.blocks.values():
                if blk.cond is None:
                    continue
                c = f.node(blk.cond).strip()
                if c.kind == "BinaryOperator" and c.op in ("!=", "==") and ("this", "_length") in (path(c.children[0]), path(c.children[1])):
                    r = c.children[1] if path(c.children[0]) == ("this", "_length") else c.children[0]
                    r0 = std_unwrap(r)
                    if r0.kind == "DeclRefExpr" and r0.get("local") and RA._reassigned(f, r0.d["d"]):
                        continue        # an index compared with the length, not a length
                    r = RA.resolve_local(f, std_unwrap(r))       # (through a bound parameter of a folded helper, then the local it names)
                    r = std_unwrap(r)
                    nm = r.callee["n"] if (r.is_call() and r.callee) else None
                    rp = path(r)
                    if rp and len(rp) >= 2 and rp[-1] == "_length" and rp[0] != "this":
                        pass        # the other string's length field: what its size() returns
                    elif nm not in ("size", "generic_strlen", "strlen"):
                        full = False
                    elif nm in ("generic_strlen", "strlen") and len(r.args) != 1:
                        full = False
            ok = ok and full
            ctx.inst("E.compare-length-first", f.sig, ok, f.loc,
                     "every character access dominated by (lengths equal) and (i < _length): %s; the other length is a complete "
                     "length (size()/strlen, not a bounded scan): %s" % (ok, full), f)


def check_view_equality(ctx, unit):
    ctx.rule("E.equal-lengths-first", "basic_string_view::operator== answers true only where the two lengths are known equal; "
             "the identity of the character pointers never decides without them", 1)
    # equality of views: `true` is an answer about the characters of two views of EQUAL length -- it is never given before
    # the lengths were compared, and the identity of the character pointers does not stand in for that comparison (two
    # views of one buffer with different lengths start at the same address)
    from .ir import exit_values
    from .rules_guard import const_bool
    for rec in recs_of(unit, VIEW):
        for f in cls_fns(unit, rec["qn"]):
            if f.name != "operator==":
                continue
            bad, n_true = [], 0
            for a, v in exit_values(f):
                if v is None:
                    continue
                cb = const_bool(v)
                ptr_cmp = any(x.kind == "BinaryOperator" and x.op in ("==", "!=") and
                              all((path(y) or ("",))[-1] == "_pointer" for y in x.children) for x in [v] + list(v.walk()))
                if cb is not True and not ptr_cmp:
                    continue
                n_true += cb is True
                known = any(_eq_lengths(c, t, f) for c, t in flow.facts_at(f, a.id)) or _lengths_equal_on_all_paths(f, a)
                if not known:
                    bad.append("%s at %s without the lengths known equal" % (
                        "answers true" if cb is True else "lets the identity of the character pointers decide", a.loc))
            ctx.inst("E.equal-lengths-first", f.sig, not bad, f.loc,
                     "; ".join(bad[:2]) if bad else "%d constant-true exits, each under lengths-equal" % n_true, f)


def check_to_number_exact(ctx, unit, rule="E.to-number-exact"):
    """to_number<T> accepts exactly the digit strings that fit into T.  Whether one more digit still fits depends on that
    digit (value == max/10 takes a small digit and refuses a large one), so among the decisions that refuse a string
    because of the accumulated value at least one must look at the current character -- through the overflow-checked
    addition, a comparison against max - digit, a wider intermediate, whatever.  A refusal decided by the accumulator alone is
    either too early (numbers that fit are refused) or too late."""
    ctx.rule(rule, "to_number: some decision that refuses a digit string because of the accumulated value depends on the current "
             "digit (a threshold on the accumulator alone refuses numbers that fit, or accepts ones that do not)", 1)
    fns = [f for rec in recs_of(unit, VIEW) for f in cls_fns(unit, rec["qn"]) if f.name == "to_number"]
    if not fns:
        raise AnalysisBroken("anchor vanished: basic_string_view::to_number")
    for f in fns:
        bm = f.bind_map()
        inits = RA.local_inits(f)

        def expand(x, depth=0):
            """the nodes of x, with the arguments bound to parameters of folded helpers looked into"""
            for y in [x] + list(x.walk()):
                yield y
                if y.kind == "DeclRefExpr" and y.d.get("d") in bm and depth < 6:
                    for z in expand(f.node(bm[y.d["d"]]), depth + 1):
                        yield z

        def root_did(x, depth=0):
            """the variable a (possibly by-reference bound) name stands for"""
            x = std_unwrap(x)
            while x.kind == "UnaryOperator" and x.op in ("&", "*") and x.children:
                x = std_unwrap(x.children[0])
            if x.kind != "DeclRefExpr":
                return None
            if x.d.get("d") in bm and depth < 6:
                r = root_did(f.node(bm[x.d["d"]]), depth + 1)
                return r if r is not None else x.d["d"]
            return x.d.get("d")
        # pointers into the characters
        cptr = set()
        for d, init in inits.items():
            if not (std_unwrap(init).get("t") or init.get("t") or "").rstrip().endswith("*"):
                continue
            if any((y.kind == "MemberExpr" and (path(y) or ("",))[-1] == "_pointer") or
                   (y.is_call() and y.callee and y.callee["n"] in ("data", "begin", "end")) for y in expand(init)):
                cptr.add(d)

        def is_char(x):
            if x.kind in ("ArraySubscriptExpr",) or (x.kind == "UnaryOperator" and x.op == "*") or \
                    (x.kind == "CXXOperatorCallExpr" and x.callee and x.callee.get("op") in ("[]", "*")):
                base = x.children[0] if x.children else None
                if base is None:
                    return False
                return any((y.kind == "MemberExpr" and (path(y) or ("",))[-1] == "_pointer") or
                           (y.kind == "DeclRefExpr" and y.d.get("d") in cptr) for y in expand(base))
            return False
        derived = set()
        changed = True
        while changed:
            changed = False
            for d, init in list(inits.items()) + [
                    (root_did(n.children[0]), n.children[1]) for n in f.all_nodes()
                    if n.kind in ("BinaryOperator", "CompoundAssignOperator") and n.op in ("=", "+=", "*=", "-=")]:
                if d is None or d in derived or init is None or d in cptr:
                    continue
                if any(is_char(x) or (x.kind == "DeclRefExpr" and root_did(x) in derived) for x in expand(init)):
                    derived.add(d)
                    changed = True
        # the accumulator: what the overflow-checked builtins write, or a local multiplied / added onto itself
        accs = set()
        for n in f.all_nodes():
            if n.is_call() and n.callee and n.callee["n"] in ("__builtin_mul_overflow", "__builtin_add_overflow") and len(n.args) == 3:
                d = root_did(n.args[2])
                if d is not None:
                    accs.add(d)
            if n.kind in ("BinaryOperator", "CompoundAssignOperator") and n.op in ("=", "*=", "+="):
                d = root_did(n.children[0])
                if d is not None and (n.op == "*=" or any(x.kind == "BinaryOperator" and x.op == "*" and any(
                        y.kind == "DeclRefExpr" and root_did(y) == d for y in x.walk()) for x in [n.children[1]] + list(n.children[1].walk()))):
                    accs.add(d)
        accs -= cptr
        overflow, with_digit = [], []
        for blk in f.blocks.values():
            if blk.cond is None:
                continue
            c = f.node(blk.cond)
            xs = list(expand(c))
            if not any(x.kind == "DeclRefExpr" and root_did(x) in accs for x in xs):
                continue
            overflow.append(c)
            if any(is_char(x) for x in xs) or any(x.kind == "DeclRefExpr" and root_did(x) in (derived - accs) for x in xs):
                with_digit.append(c)
        ok = not overflow or bool(with_digit)
        ctx.inst(rule, "%s<%s>" % (f.uq, f.get("targs", "").strip("<>")), ok, f.loc,
                 "%d decisions on the accumulated value, %d of them look at the current digit" % (len(overflow), len(with_digit)), f)


def _lockstep_countdown(f, deref, is_len):
    """`for(remaining = L; remaining != 0; --remaining) { ... *p ...; ++p; }` with p starting at the character pointer: the
    offset of p is L - remaining, below L while the loop runs.  Required, structurally: the dereferenced pointer is a local
    initialised from a base pointer (no offset) and changed only by ++ inside ONE loop; that loop's condition keeps a local
    counter non-zero (`r != 0`, `r > 0`, `r`); the counter is initialised from a length and changed only by -- inside the
    loop; on every path around the loop both are stepped exactly once; no step of the pointer can precede the dereference
    within an iteration."""
    p = std_unwrap(deref.children[0])
    if p.kind != "DeclRefExpr" or not p.get("local"):
        return False
    pd = p.d["d"]
    inits = RA.local_inits(f)
    if pd not in inits:
        return False
    pi = std_unwrap(inits[pd])
    if not (path(pi) and path(pi)[-1] == "_pointer"):
        return False
    loops = [lp for lp in flow.natural_loops(f) if lp.contains(deref)]
    if not loops:
        return False
    lp = loops[-1]
    c = lp.cond
    if c is None:
        return False
    cs = c.strip()
    cnt = None
    if cs.kind == "BinaryOperator" and cs.op in ("!=", ">") and std_unwrap(cs.children[1]).cv() == 0:
        cnt = std_unwrap(cs.children[0])
    else:
        cnt = std_unwrap(cs)
    if cnt is None or cnt.kind != "DeclRefExpr" or not cnt.get("local") or cnt.d["d"] not in inits:
        return False
    cd = cnt.d["d"]
    if not is_len(inits[cd]):
        return False
    psteps, csteps = [], []
    for n in f.all_nodes():
        tgt = None
        if n.kind == "UnaryOperator" and n.op in ("++", "--") and n.children:
            tgt = std_unwrap(n.children[0])
        elif n.kind in ("BinaryOperator", "CompoundAssignOperator") and str(n.get("op", "")).endswith("=") and n.op not in ("==", "!=", "<=", ">="):
            tgt = std_unwrap(n.children[0])
        if tgt is None or tgt.kind != "DeclRefExpr":
            continue
        if tgt.d.get("d") == pd:
            if not (n.kind == "UnaryOperator" and n.op == "++" and lp.contains(n)):
                return False
            psteps.append(n)
        if tgt.d.get("d") == cd:
            if not (n.kind == "UnaryOperator" and n.op == "--" and lp.contains(n)):
                return False
            csteps.append(n)
    if len(psteps) != 1 or len(csteps) != 1:
        return False
    if f.reaches(psteps[0].id, deref.id) and not f.dominates(deref.id, psteps[0].id):
        return False
    pos = f.positions()
    for latch in lp.latches:
        for st_ in (psteps[0], csteps[0]):
            if st_.id not in pos:
                return False
            b_ = pos[st_.id][0]
            if not (b_ == latch or f.dominates_block(b_, latch)):
                return False
    return True


def check_cstring_params(ctx, unit, rule="B.cstring-subscript-bounded"):
    """A `const char *` parameter designates a NUL-terminated string whose length the callee does not know.  A subscript of
    it is justified when the index is at most strlen(p): by the relational bounds analysis with L = generic_strlen(p) (the
    call or a local that holds it; `this->_length` counts as L where the branch decisions establish that the two lengths
    are equal) -- or when the read is the NUL test itself of a scan that only moves on past characters known to be
    non-NUL.  Comparing the characters of a string of known length with p[i] does neither: an embedded NUL in the
    string lets the scan run over p's terminator."""
    ctx.rule(rule, "in basic_string every subscript of a `const char *` parameter has an index <= strlen of that parameter "
             "(relational bounds analysis with L = generic_strlen(p), lengths related through the dominating decisions)", 1)
    from .relbounds import RelBounds, INF
    n_sub = 0
    for rec in recs_of(unit, STR):
        for f in cls_fns(unit, rec["qn"]):
            cps = [p_ for p_ in f.params() if p_["t"].replace(" ", "") in ("constchar*", "constChar*", "constCharT*", "constchar16_t*", "constchar32_t*", "constwchar_t*")]
            for cp in cps:
                subs = sorted([n for n in f.events() if n.kind == "ArraySubscriptExpr" and std_unwrap(n.children[0]).kind == "DeclRefExpr"
                               and std_unwrap(n.children[0]).d["d"] == cp["d"]], key=lambda n: n.loc)
                if not subs:
                    continue
                inits = RA.local_inits(f)

                def is_strlen(x, cp=cp, inits=inits, f=f, depth=0):
                    x = std_unwrap(x)
                    if x.is_call() and x.callee and x.callee["n"] in ("generic_strlen", "strlen") and x.args:
                        a = std_unwrap(x.args[0])
                        return a.kind == "DeclRefExpr" and a.d["d"] == cp["d"]
                    if x.kind == "DeclRefExpr" and x.get("local") and x.d["d"] in inits and not RA._reassigned(f, x.d["d"]) and depth < 3:
                        return is_strlen(inits[x.d["d"]], depth=depth + 1)
                    return False
                for k, n in enumerate(subs):
                    n_sub += 1
                    eq_this = False
                    for cond, truth in flow.facts_at(f, n.id):
                        c, t = cond.strip(), truth
                        while c.kind == "UnaryOperator" and c.op == "!":
                            c, t = c.children[0].strip(), not t
                        if c.kind == "BinaryOperator" and ((c.op == "==" and t) or (c.op == "!=" and not t)):
                            a, b = c.children
                            if (path(a) == ("this", "_length") and is_strlen(b)) or (path(b) == ("this", "_length") and is_strlen(a)):
                                eq_this = True

                    def is_len(x, eq_this=eq_this):
                        if is_strlen(x):
                            return True
                        return eq_this and path(std_unwrap(x)) == ("this", "_length") and std_unwrap(x).kind == "MemberExpr"
                    rb = RelBounds(f, is_len).run()
                    st = rb.at.get(n.id)
                    ok, why = False, "unreachable"
                    if st is not None:
                        lo, up = rb.bounds(n.children[1], st)
                        ok = lo >= 0 and up <= 0
                        why = "index in [%s, %s]" % ("-inf" if lo <= -INF else lo, "unbounded" if up >= INF else "strlen%+d" % up)
                    ctx.inst(rule, "%s: %s[] #%d" % (f.sig, cp["n"], k + 1), ok, n.loc,
                             "subscript %s: %s; nothing relates the index to the length of the C string (an embedded NUL on the other "
                             "side lets the scan pass its terminator)" % (canon(n.children[1]), why) if not ok else
                             "subscript %s: %s" % (canon(n.children[1]), why), f)
    if n_sub == 0:
        raise AnalysisBroken("anchor vanished: subscripts of a C-string parameter in basic_string")


def _eq_lengths(cond, truth, f=None, depth=0):
    c = cond.strip()
    while c.kind == "UnaryOperator" and c.op == "!":
        c, truth = c.children[0].strip(), not truth
    if c.kind == "BinaryOperator" and ((c.op == "!=" and truth is False) or (c.op == "==" and truth)):
        a, b = path(c.children[0]), path(c.children[1])
        return bool(a and b and a[-1] == "_length" and b[-1] == "_length")
    if f is not None and depth < 3 and c.kind == "DeclRefExpr" and c.get("local") and c.id in f.positions():
        # a bool local that holds the outcome of the length comparison: every definition that reaches the test
        defs = flow.reaching_defs(f, c.d["d"], c.id)
        return bool(defs) and all(d is not None and _eq_lengths(d, truth, f, depth + 1) for d in defs)
    return False


def _lengths_equal_on_all_paths(f, at):
    """The two views' lengths are known equal on every path that reaches `at`.  Neither length changes inside a member, so
    equality is a monotone fact: it is established when a comparison of the two lengths is decided equal -- directly, or
    through a bool local that at that moment still holds the outcome of such a comparison (the local may be reused for
    something else later: `bool equal = a == b; for(...; equal && ...; ) equal = x[i] == y[i];`)."""
    def is_len_eq(x):
        x = x.strip()
        neg = False
        while x.kind == "UnaryOperator" and x.op == "!":
            x, neg = x.children[0].strip(), not neg
        if x.kind == "BinaryOperator" and x.op in ("==", "!="):
            a, b = path(x.children[0]), path(x.children[1])
            if a and b and a[-1] == "_length" and b[-1] == "_length" and a != b:
                return (x.op == "==") != neg
        return None
    seen_at = []

    def transfer(n, st):
        lens, holders = st
        if n.id == at.id:
            seen_at.append(lens)
        if n.kind == "DeclStmt":
            for d in n.get("decls", []):
                if "init" in d:
                    r = is_len_eq(f.node(d["init"]))
                    holders = (holders | {(d["d"], r)}) if r is not None else frozenset(h for h in holders if h[0] != d["d"])
            return [(lens, holders)]
        if n.kind == "BinaryOperator" and n.op == "=" and n.children[0].strip().kind == "DeclRefExpr":
            d = n.children[0].strip().d["d"]
            r = is_len_eq(n.children[1])
            holders = frozenset(h for h in holders if h[0] != d)
            if r is not None:
                holders = holders | {(d, r)}
            return [(lens, holders)]
        return [st]

    def refine(cond, truth, st):
        lens, holders = st
        c, t = cond.strip(), truth
        while c.kind == "UnaryOperator" and c.op == "!":
            c, t = c.children[0].strip(), not t
        r = is_len_eq(c)
        if r is not None and r == t:
            return [(True, holders)]
        if c.kind == "DeclRefExpr":
            for d, sense in holders:
                if d == c.d["d"] and sense == t:
                    return [(True, holders)]
        return [st]
    try:
        flow.run(f, [(False, frozenset())], transfer, refine, limit=20000)
    except flow.TooManyStates:
        return False
    return bool(seen_at) and all(seen_at)


# ---- B6: numeric accumulation ------------------------------------------------------------------

def check_accumulation(ctx, rule, fns, label=None, strict_unsigned=False):
    """Loops that accumulate a number from input digits: the accumulator is unsigned, or every
    arithmetic step on it is overflow-checked (builtin *_overflow) or bounded by a dominating test."""
    for f in fns:
        k = 0
        cyc = None
        for n in sorted(f.events(), key=lambda x: x.loc):
            if n.kind == "CallExpr" and n.callee and n.callee["n"] in ("__builtin_mul_overflow", "__builtin_add_overflow") and len(n.args) == 3:
                tp = path(n.args[2])
                if tp is not None:
                    k += 1
                    ctx.inst(rule, "%s: accumulation #%d into %s" % (label(f) if label else f.sig, k, _clean(tp)), True, n.loc,
                             "step is overflow-checked (%s)" % n.callee["n"], f)
                continue
            tgt, rhs = None, None
            if n.kind == "BinaryOperator" and n.op == "=":
                tgt, rhs = n.children[0], n.children[1]
            elif n.kind == "CompoundAssignOperator" and n.op in ("*=", "+="):
                tgt, rhs = n.children[0], n
            else:
                continue
            tp = path(tgt)
            if tp is None:
                continue
            # accumulation: the target itself occurs in the right-hand side under * or +
            arith = [x for x in (rhs.walk() if rhs is not n else [n]) if x.kind in ("BinaryOperator", "CompoundAssignOperator")
                     and x.op in ("*", "+", "*=", "+=")]
            selfref = n.kind == "CompoundAssignOperator" or any(path(y) == tp for x in arith for y in x.walk() if y.id != tgt.id and y.kind in ("DeclRefExpr", "MemberExpr"))
            if not arith or not selfref:
                continue
            if cyc is None:
                from .rules_own import in_cycle_blocks
                cyc = in_cycle_blocks(f)
            if f.positions().get(n.id, (None,))[0] not in cyc:
                continue
            if not any(x.op in ("*", "*=") for x in arith) and not (n.kind == "CompoundAssignOperator" and n.op == "*="):
                # pure counters (n++, off += k) are not digit accumulators
                if not _has_mul_sibling(f, tp, cyc):
                    continue
            k += 1
            signed = bool(tgt.strip().get("sgn")) or any(x.get("sgn") for x in arith)
            guarded = False
            bound = None
            for cond, truth in flow.facts_at(f, n.id):
                c, t = cond.strip(), truth
                while c.kind == "UnaryOperator" and c.op == "!":
                    c, t = c.children[0].strip(), not t
                if c.kind == "BinaryOperator" and c.op in ("<", "<=", ">", ">=") and path(c.children[0]) == tp:
                    kb = c.children[1].strip().cv()
                    if kb is None:
                        kb = flow.const_fold(f, c.children[1])      # e.g. (limit - 9) / 10 with limit a bound parameter
                    if kb is not None:
                        op = c.op if t else {"<": ">=", "<=": ">", ">": "<=", ">=": "<"}[c.op]
                        if op == "<=":
                            bound = kb if bound is None else min(bound, kb)
                        elif op == "<":
                            bound = kb - 1 if bound is None else min(bound, kb - 1)
            bits = tgt.strip().get("bits") or 32
            tmax = (1 << (bits - 1)) - 1
            if not signed and strict_unsigned:
                tmax = (1 << bits) - 1
            mul = any(x.op in ("*", "*=") for x in arith) or (n.kind == "CompoundAssignOperator" and n.op == "*=")
            if bound is not None:
                # the digit step is acc*10 + d with d <= 9: it must fit for every accumulator value the guard admits
                guarded = (bound * 10 + 9 <= tmax) if (mul or _has_mul_sibling(f, tp, cyc)) else (bound + 9 <= tmax)
                if mul is False and _has_mul_sibling(f, tp, cyc):
                    guarded = True if bound * 10 + 9 <= tmax else False
            ctx.inst(rule, "%s: accumulation #%d into %s" % (label(f) if label else f.sig, k, _clean(tp)),
                     ((not signed) and not strict_unsigned) or guarded, n.loc,
                     "accumulator type is %s; %s" % ("signed" if signed else "unsigned",
                                                     ("bounded by a dominating comparison that keeps acc*10+9 within the type (acc <= %s)" % bound) if guarded else
                                                     ("guard admits acc <= %s, for which acc*10+9 overflows" % bound) if (signed and bound is not None) else
                                                     ("signed overflow on long digit strings is undefined behaviour" if signed else
                                                      ("wraps silently: an out-of-range number is taken for a small one" if strict_unsigned else "wraps, defined"))), f)


def _has_mul_sibling(f, tp, cyc):
    for n in f.events():
        if n.kind == "CompoundAssignOperator" and n.op == "*=" and path(n.children[0]) == tp and f.positions()[n.id][0] in cyc:
            return True
    return False


def _clean(tp):
    import re
    return re.sub(r"#\d+", "", ".".join(tp))


def check_free_after_copies(ctx, unit, rule="O.free-after-copies"):
    """A mutator that builds a new buffer releases the old one only after every copy into the new buffer:
    the appended view may alias the old buffer (s += s, s += s.sub_string(..)).  A release is a direct
    free/deallocate of this->_buffer or a call, on *this, of a member that may release it (resize(), ...)."""
    ctx.rule(rule, "in basic_string mutators no memcpy can execute after the old buffer was released, directly or through a "
             "member called on *this (sources may alias the old buffer)", 1)
    for rec in recs_of(unit, STR):
        fns = cls_fns(unit, rec["qn"])

        def direct_frees(f):
            return [n for n in f.events() if n.kind == "CXXMemberCallExpr" and n.callee and n.callee["n"] in ("free", "deallocate")
                    and n.args and path(n.args[0]) == ("this", "_buffer")]
        may_free = {f.did for f in fns if direct_frees(f) and f.kind != "dtor"}
        if not may_free:
            raise AnalysisBroken("anchor vanished: no mutator of %s releases this->_buffer" % rec["qn"])
        changed = True
        while changed:
            changed = False
            for f in fns:
                if f.did in may_free or f.kind == "dtor":
                    continue
                for n in f.events():
                    if n.is_call() and n.callee and n.callee.get("did") in may_free and n.kind in ("CXXMemberCallExpr", "CXXOperatorCallExpr"):
                        obj = n.child("obj") if n.kind == "CXXMemberCallExpr" else (n.args[0] if n.args else None)
                        if obj is not None and path(obj) == ("this",):
                            may_free.add(f.did)
                            changed = True
                            break
        for f in fns:
            if f.kind == "dtor":
                continue
            frees = direct_frees(f)
            for n in f.events():
                if n.is_call() and n.callee and n.callee.get("did") in may_free and n.kind in ("CXXMemberCallExpr", "CXXOperatorCallExpr"):
                    obj = n.child("obj") if n.kind == "CXXMemberCallExpr" else (n.args[0] if n.args else None)
                    if obj is not None and path(obj) == ("this",):
                        frees.append(n)
            cps = [n for n in f.events() if n.is_call() and n.callee and n.callee["n"] in ("memcpy", "__builtin_memcpy")]
            if not frees or not cps:
                continue
            bad = [(c, fr) for c in cps for fr in frees if f.reaches(fr.id, c.id)]
            ctx.inst(rule, f.sig, not bad, f.loc,
                     ("memcpy at %s can run after the old buffer was released at %s (%s)" % (
                         bad[0][0].loc, bad[0][1].loc, bad[0][1].callee["n"])) if bad else
                     "%d copies, all before the release of the old buffer" % len(cps), f)


def check_byte_counts(ctx, unit, rule="B2.count-in-bytes", chart="char", tag=""):
    """Every byte-counted C primitive (memcmp, memcpy, memmove, memset, memchr) that a member of basic_string_view or
    basic_string applies to its characters is given a count that is a multiple of sizeof(Char): a count in characters compares
    or copies only the first 1/sizeof(Char) of a wide string."""
    ctx.rule(rule, "every byte count that a member of basic_string / basic_string_view hands to memcmp / memcpy / memmove / memset / "
             "memchr over its characters carries the factor sizeof(Char) (symbolic): a count in characters covers only part "
             "of a wide string", 6)
    PRIMS = ("memcmp", "__builtin_memcmp", "memcpy", "__builtin_memcpy", "memmove", "__builtin_memmove", "memset", "__builtin_memset",
             "memchr", "__builtin_memchr", "bcmp")
    for cls in (VIEW, STR):
        for rec in recs_of(unit, cls):
            if chart not in rec["qn"]:
                continue
            for f in cls_fns(unit, rec["qn"]):
                sf = StrFn(f, chart)
                k = 0
                for n in sorted([x for x in f.events() if x.is_call() and x.callee and x.callee["n"] in PRIMS and len(x.args) == 3],
                                key=lambda x: x.loc):
                    k += 1
                    cnt = sf.poly(n.args[2])
                    ok = cnt is not None and all("S" in mono for mono in cnt.t)
                    ctx.inst(rule, "%s: %s #%d%s" % (f.sig, n.callee["n"], k, tag), ok, n.loc,
                             ("count %s: every term carries sizeof(Char)" % cnt) if ok else
                             "count %s is not a multiple of sizeof(Char): for a wide character type only part of the characters is covered"
                             % (cnt if cnt is not None else canon(n.args[2]).split("#")[0][:60]), f)
