"""Role normalisation of private data-member names.

The rules name data members (`available`, `_usedPages`, `_root` ...). Renaming a private member is a behaviour-
preserving edit, so names must not be what a rule depends on. Instead of de-naming every rule separately, the members
of the classes listed here are identified *structurally* (by their declared type, constness and multiplicity inside the
record) and the IR is rewritten to the canonical names the rules were written with: record field lists, MemberExpr
nodes and constructor initialisers. If a class's members cannot be matched one-to-one (a member was added, removed or
changed type) nothing is renamed for that class and the rules see the real names (an anchor then vanishes -> exit 2,
never a silent pass).
"""
import re

# class uq -> [(canonical name, predicate over (type string, field dict))]   (every predicate must select exactly one field)
def _t(rx):
    r = re.compile(rx)
    return lambda t, f: bool(r.search(t))


INT = r"^(const )?(unsigned |signed )?(size_t|int|long|unsigned int|unsigned long|uint64_t|uint32_t|uintptr_t|long long|unsigned long long|short|char)$"

ROLES = {
    "frg::slab_pool": [
        ("_plcy", _t(r"&$")),
        ("_tree_mutex", lambda t, f: "Mutex" in t and "[" not in t and not t.endswith("&") and "bucket" not in t),
        ("_usedPages", lambda t, f: re.match(INT, t) is not None and not t.startswith("const ")),
        ("_bkts", _t(r"bucket\[\d+\]$")),
    ],
    "frg::slab_pool::bucket": [
        ("bucket_mutex", lambda t, f: "Mutex" in t),
        ("head_slb", _t(r"slab_frame \*$")),
        ("partial_tree", _t(r"tree")),
    ],
    "frg::slab_pool::slab_frame": [
        ("index", _t(r"^const int$")),
        ("num_reserved", lambda t, f: re.match(INT, t) is not None and not t.startswith("const ")),
        ("available", _t(r"freelist \*$")),
        ("partial_hook", _t(r"hook")),
    ],
    "frg::slab_pool::frame": [
        ("type", _t(r"frame_type$")),
        ("sb_base", _t(r"^uintptr_t$")),
        ("sb_reservation", _t(r"^size_t$")),
        ("address", _t(r"^const uintptr_t$")),
        ("length", _t(r"^const size_t$")),
    ],
    "frg::slab_pool::freelist": [
        ("link", _t(r"freelist \*$")),
    ],
    "frg::slab_allocator": [
        ("pool_", _t(r"\*$")),
    ],
    "frg::pairing_heap": [
        ("_root", _t(r"\*$")),
    ],
    "frg::pairing_heap_hook": [
        ("child", None), ("backlink", None), ("sibling", None),      # three same-typed pointers: cannot be told apart by type
    ],
    "frg::unique_lock": [
        ("_mutex", _t(r"\*$")), ("_is_locked", _t(r"^bool$")),
    ],
    "frg::shared_lock": [
        ("_mutex", _t(r"\*$")), ("_is_locked", _t(r"^bool$")),
    ],
    "frg::unique_ptr": [
        ("_ptr", _t(r"\*$")), ("_allocator", lambda t, f: not t.endswith("*")),
    ],
}


def _mapping(rec):
    spec = ROLES.get(rec["uq"])
    if not spec or any(p is None for _, p in spec):
        return None
    fields = [f for f in rec["fields"]]
    # with FRG_SLAB_TRACK_REGIONS the pool has one more member (the frame tree): optional extra roles
    extra = []
    if rec["uq"] == "frg::slab_pool":
        extra = [("_frame_tree", _t(r"frame_tree"))]
    m = {}
    used = set()
    for canon_name, pred in spec + extra:
        hit = [f for f in fields if pred(f["t"], f) and f["n"] not in used]
        if (canon_name, pred) in extra and not hit:
            continue
        if len(hit) != 1:
            return None
        m[hit[0]["n"]] = canon_name
        used.add(hit[0]["n"])
    if len(used) != len(fields):
        return None
    return m


def normalise(d):
    """Rewrite the raw unit dict in place; returns {class uq: {actual: canonical}} for the classes that were renamed."""
    maps = {}
    for rec in d.get("records", []):
        if rec["uq"] in ROLES and rec["uq"] not in maps:
            m = _mapping(rec)
            if m and any(a != c for a, c in m.items()):
                maps[rec["uq"]] = m
    if not maps:
        return {}
    for rec in d.get("records", []):
        m = maps.get(rec["uq"])
        if m:
            for f in rec["fields"]:
                f["n"] = m.get(f["n"], f["n"])
    for fn in d.get("functions", []):
        for n in fn.get("nodes", []):
            k = n.get("k")
            if k == "MemberExpr" and n.get("mk") == "Field":
                m = maps.get(n.get("mc"))
                if m and n.get("m") in m:
                    n["m"] = m[n["m"]]
            elif k == "CtorInit" and n.get("field"):
                m = maps.get(n.get("fieldcls"))
                if m and n["field"] in m:
                    n["field"] = m[n["field"]]
    return maps
