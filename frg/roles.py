"""Role normalisation of private data-member names.

The rules name data members (`available`, `_usedPages`, `_root` ...). Renaming a private member is a behaviour-
preserving edit, so names must not be what a rule depends on. Instead of de-naming every rule separately, the members
of the classes listed here are identified *structurally* (by their declared type, constness and multiplicity inside the
record) and the IR is rewritten to the canonical names the rules were written with: record field lists, MemberExpr
nodes and constructor initialisers. If a class's members cannot be matched one-to-one (a member was added, removed or
changed type) nothing is renamed for that class and the rules see the real names (an anchor then vanishes -> exit 2,
never a silent pass).
"""
import re

# class uq -> [(canonical name, predicate over (type string, field dict))]   (every predicate must select exactly one field)
def _t(rx):
    r = re.compile(rx)
    return lambda t, f: bool(r.search(t))


INT = r"^(const )?(unsigned |signed )?(size_t|int|long|unsigned int|unsigned long|uint64_t|uint32_t|uintptr_t|long long|unsigned long long|short|char)$"

ROLES = {
    "frg::slab_pool": [
        ("_plcy", _t(r"&$")),
        ("_tree_mutex", _t(r"^[\w:]*Mutex$")),
        ("_usedPages", lambda t, f: re.match(INT, t) is not None and not t.startswith("const ")),
        ("_bkts", _t(r"bucket\[\d+\]$")),
    ],
    "frg::slab_pool::bucket": [
        ("bucket_mutex", _t(r"^[\w:]*Mutex$")),
        ("head_slb", _t(r"slab_frame \*$")),
        ("partial_tree", _t(r"tree")),
    ],
    "frg::slab_pool::slab_frame": [
        ("index", _t(r"^const int$")),
        ("num_reserved", lambda t, f: re.match(INT, t) is not None and not t.startswith("const ")),
        ("available", _t(r"freelist \*$")),
        ("partial_hook", _t(r"hook")),
    ],
    "frg::slab_pool::frame": [
        ("type", _t(r"frame_type$")),
        ("sb_base", _t(r"^uintptr_t$")),
        ("sb_reservation", _t(r"^size_t$")),
        ("address", _t(r"^const uintptr_t$")),
        ("length", _t(r"^const size_t$")),
    ],
    "frg::slab_pool::freelist": [
        ("link", _t(r"freelist \*$")),
    ],
    "frg::slab_allocator": [
        ("pool_", _t(r"\*$")),
    ],
    "frg::_pairing::pairing_heap": [("_root", _t(r"\*$"))],
    "frg::_redblack::tree_crtp_struct": [("_root", _t(r"\*$"))],
    "frg::unique_lock": [("_mutex", _t(r"\*$")), ("_is_locked", _t(r"^bool$"))],
    "frg::shared_lock": [("_mutex", _t(r"\*$")), ("_is_locked", _t(r"^bool$"))],
    "frg::lock_guard": [("_mutex", _t(r"\*$")), ("_locked", _t(r"^bool$"))],
    "frg::simple_spinlock": [("lock_", _t(r"."))],
    "frg::qs_node": [("on_grace_period", _t(r"\(\*\)")), ("_target_qs_counter", _t(INT)), ("_queue_node", _t(r"hook"))],
    "frg::qs_agent": [("_dom", _t(r"\*$")), ("_acked_qs_counter", _t(INT)), ("_qs_deferred", _t(r"^bool$")), ("_pending", _t(r"list"))],
    "frg::optional": [("_stor", _t(r"storage")), ("_non_null", _t(r"^bool$"))],
    "frg::manual_box": [("_storage", _t(r"storage")), ("_initialized", _t(r"^bool$"))],
    "frg::eternal": [("_storage", _t(r"storage"))],
    "frg::expected": [("stor_", _t(r"\[\d+\]$")), ("e_", lambda t, f: "[" not in t)],
    "frg::variant": [("tag_", _t(INT)), ("storage_", lambda t, f: re.match(INT, t) is None)],
    "frg::unique_ptr": [("_ptr", _t(r"\*$")), ("_allocator", lambda t, f: not t.endswith("*"))],
    "frg::unique_memory": [("pointer_", _t(r"^void \*$")), ("size_", _t(INT)), ("allocator_", lambda t, f: t.endswith("*") and not t.startswith("void"))],
    "frg::mt19937": [("_st", _t(r"\[\d+\]$")), ("_ctr", _t(INT))],
    "frg::bitset": [("buffer", _t(r"\[\d+\]$"))],
    "frg::bitset::reference": [("index", _t(INT)), ("s", _t(r"&$"))],
    "frg::array": [("_stor", _t(r"\[\d+\]$"))],
    "frg::vector": [("_allocator", lambda t, f: not t.endswith("*") and re.match(INT, t) is None), ("_elements", _t(r"\*$")),
                    ("_size", ("ret", "size")), ("_capacity", _t(INT))],
    "frg::small_vector": [("_allocator", lambda t, f: not t.endswith("*") and re.match(INT, t) is None and "array" not in t),
                          ("_array", _t(r"array<")), ("_elements", _t(r"\*$")), ("_size", ("ret", "size")), ("_capacity", _t(INT))],
    "frg::dyn_array": [("allocator_", lambda t, f: not t.endswith("*") and re.match(INT, t) is None), ("elements_", _t(r"\*$")), ("size_", _t(INT))],
    "frg::list": [("allocator_", lambda t, f: "list" not in t), ("items_", _t(r"list"))],
    "frg::hash_map": [("_hasher", lambda t, f: "hash" in t.lower() and not t.endswith("*")), ("_allocator", lambda t, f: "Alloc" in t and not t.endswith("*")),
                      ("_table", _t(r"\*$")), ("_size", ("ret", "size")), ("_capacity", _t(INT))],
    "frg::hash_map::chain": [("entry", lambda t, f: not t.endswith("*")), ("next", _t(r"\*$"))],
    "frg::basic_string_view": [("_pointer", _t(r"\*$")), ("_length", _t(INT))],
    "frg::basic_string": [("_allocator", lambda t, f: not t.endswith("*") and re.match(INT, t) is None), ("_buffer", _t(r"\*$")), ("_length", _t(INT))],
    "frg::rcu_radixtree": [("_allocator", lambda t, f: "atomic" not in t), ("_root", _t(r"atomic"))],
    "frg::rcu_radixtree::link_node": [("links", _t(r"."))],
    "frg::rcu_radixtree::entry_node": [("mask", _t(r"atomic")), ("entries", lambda t, f: "atomic" not in t)],
    "frg::rcu_radixtree::node": [("prefix", _t(r"^uint64_t$|^unsigned long$")), ("depth", _t(r"^unsigned int$|^int$")), ("parent", _t(r"\*$"))],
    "frg::rcu_radixtree::iterator": [("_n", _t(r"\*$")), ("_idx", _t(INT))],
    "frg::qs_domain": [("_mutex", _t(r"Mutex$")), ("_qs_counter", ("nth", r"atomic<(uint64_t|unsigned long)>", 0)),
                        ("_desired_qs_counter", ("nth", r"atomic<(uint64_t|unsigned long)>", 1)),
                        ("_num_agents", _t(r"^(unsigned int|unsigned|size_t|unsigned long)$")), ("_agents_to_ack", _t(r"atomic<unsigned( int)?>"))],
    "frg::_list::intrusive_list": [("_front", _t(r"owner_pointer$")), ("_back", _t(r"borrow_pointer$"))],
    "frg::_list::intrusive_list::iterator": [("_current", _t(r"."))],
}


def _returned_field(d, rec, method):
    """Name of the data member that `rec`'s parameterless method `method` returns (through casts), else None."""
    for fn in d.get("functions", []):
        if fn.get("clsqn") != rec["qn"] or fn.get("name") != method or fn.get("params"):
            continue
        nodes = fn.get("nodes", [])
        rets = [n for n in nodes if n.get("k") == "ReturnStmt" and "val" in n]
        if len(rets) != 1:
            continue
        x = nodes[rets[0]["val"]]
        hops = 0
        while x.get("k") in ("ImplicitCastExpr", "ParenExpr") and x.get("c") and hops < 6:
            x = nodes[x["c"][0]]
            hops += 1
        if x.get("k") == "MemberExpr" and x.get("mk") == "Field":
            return x.get("m")
    return None


def _mapping(rec, d=None):
    spec = ROLES.get(rec["uq"])
    if not spec or any(p is None for _, p in spec):
        return None
    # accessor selectors first: ("ret", method) = the member that method returns
    resolved = []
    for canon_name, pred in spec:
        if isinstance(pred, tuple) and pred[0] == "nth":
            # ("nth", type regex, k): the k-th member (declaration order) whose type matches
            rx = re.compile(pred[1])
            hits = [f_["n"] for f_ in rec["fields"] if rx.search(f_["t"])]
            if len(hits) <= pred[2]:
                return None
            resolved.append((canon_name, (lambda t, f, nm=hits[pred[2]]: f["n"] == nm)))
        elif isinstance(pred, tuple) and pred[0] == "ret":
            nm = _returned_field(d, rec, pred[1]) if d is not None else None
            if nm is None:
                return None
            resolved.append((canon_name, (lambda t, f, nm=nm: f["n"] == nm)))
        else:
            resolved.append((canon_name, pred))
    # exact-name selectors bind before the type selectors that would also match them
    spec = [x for x in resolved if x[0] in [c for c, p in ROLES[rec["uq"]] if isinstance(p, tuple)]] + \
           [x for x in resolved if x[0] not in [c for c, p in ROLES[rec["uq"]] if isinstance(p, tuple)]]
    fields = [f for f in rec["fields"]]
    # with FRG_SLAB_TRACK_REGIONS the pool has one more member (the frame tree): optional extra roles
    extra = []
    if rec["uq"] == "frg::slab_pool":
        extra = [("_frame_tree", _t(r"frame_tree"))]
    m = {}
    used = set()
    for canon_name, pred in spec + extra:
        hit = [f for f in fields if pred(f["t"], f) and f["n"] not in used]
        if (canon_name, pred) in extra and not hit:
            continue
        if len(hit) != 1:
            return None
        m[hit[0]["n"]] = canon_name
        used.add(hit[0]["n"])
    if len(used) != len(fields):
        return None
    return m


def flatten_state_structs(d):
    """A class may keep some of its private data members in one nested struct member (`struct state { ... } _st;`, every
    use spelled `_st.x`).  That is the same object with the same members in the same order: the nested record is dissolved
    into the class before anything else looks at the unit.  Candidates are record-typed members whose type is declared
    INSIDE the class, is not one of the record types the library had when the rules were written (known_records.json) and
    is the type of exactly one member.  Returns {(class uq, member name): nested uq}."""
    import json, os
    try:
        known = set(json.load(open(os.path.join(os.path.dirname(os.path.abspath(__file__)), "known_records.json"))))
    except Exception:
        return {}
    recs = d.get("records", [])
    by_uq = {}
    for r in recs:
        by_uq.setdefault(r["uq"], []).append(r)
    uses = {}
    for r in recs:
        for f in r["fields"]:
            if f.get("rt"):
                uses.setdefault(f["rt"], set()).add((r["uq"], f["n"]))
    flat = {}
    for r in recs:
        for f in r["fields"]:
            rt = f.get("rt")
            if not rt or f.get("extent") or rt in known or not rt.startswith(r["uq"] + "::") or rt not in by_uq:
                continue
            if len(uses.get(rt, ())) != 1 or any(n_.get("bases") for n_ in by_uq[rt]):
                continue
            flat[(r["uq"], f["n"])] = rt
    if not flat:
        return {}
    nested_owner = {rt: c for (c, _), rt in flat.items()}
    for r in recs:
        out = []
        for f in r["fields"]:
            rt = flat.get((r["uq"], f["n"]))
            if rt is None:
                out.append(f)
                continue
            # the instantiation of the nested record that belongs to this instantiation of the class
            cand = [n_ for n_ in by_uq[rt] if n_["qn"].startswith(r["qn"] + "::")] or by_uq[rt]
            out += [dict(x) for x in cand[0]["fields"]]
        r["fields"] = out
    for fn in d.get("functions", []):
        nodes = fn.get("nodes") or []
        def strip(i):
            hops = 0
            while nodes[i].get("k") in ("ImplicitCastExpr", "ParenExpr") and nodes[i].get("c") and hops < 6:
                i, hops = nodes[i]["c"][0], hops + 1
            return i
        for n in nodes:
            k = n.get("k")
            if k == "MemberExpr" and n.get("mk") == "Field" and n.get("mc") in nested_owner:
                owner = nested_owner[n["mc"]]
                n["mc"] = owner
                if n.get("c"):
                    b = nodes[strip(n["c"][0])]
                    if b.get("k") == "MemberExpr" and b.get("mk") == "Field" and flat.get((b.get("mc"), b.get("m"))) is not None and b.get("c"):
                        n["c"] = [b["c"][0]] + n["c"][1:]
                        if b.get("arrow"):
                            n["arrow"] = True
                        elif "arrow" in n:
                            del n["arrow"]
            elif k == "CtorInit" and n.get("fieldcls") in nested_owner:
                n["fieldcls"] = nested_owner[n["fieldcls"]]
        # what is left of the member itself (`auto &st = _dom->_st;`, `swap(_st, other._st)`) names the enclosing object
        for n in nodes:
            if n.get("k") == "MemberExpr" and n.get("mk") == "Field" and flat.get((n.get("mc"), n.get("m"))) is not None:
                n["flat"] = True
        # `_st{a, b}` in a constructor's initialiser list: one initialiser per member
        blocks = fn.get("blocks") or []
        for n in list(nodes):
            if n.get("k") != "CtorInit" or flat.get((n.get("fieldcls"), n.get("field"))) is None or n.get("init") is None:
                continue
            rt = flat[(n["fieldcls"], n["field"])]
            nf = by_uq[rt][0]["fields"]
            ini = nodes[n["init"]]
            if ini.get("k") == "InitListExpr" and len(ini.get("c") or []) == len(nf) and nf:
                first = True
                added = []
                for fld, ci in zip(nf, ini["c"]):
                    if first:
                        n["field"], n["md"], n["init"] = fld["n"], fld.get("md"), ci
                        first = False
                        continue
                    m = {"i": len(nodes), "synthetic": True, "k": "CtorInit", "l": n.get("l"), "field": fld["n"],
                         "fieldcls": n["fieldcls"], "md": fld.get("md"), "init": ci, "c": []}
                    nodes.append(m)
                    added.append(m["i"])
                for b in blocks:
                    if n["i"] in b.get("elems", []):
                        at = b["elems"].index(n["i"])
                        b["elems"][at + 1:at + 1] = added
                        # the list expression itself is no longer an element of its own
                        if n.get("i") is not None and ini["i"] in b["elems"]:
                            b["elems"].remove(ini["i"])
    return flat



def reattach_moved_members(d):
    """A member function that moved into a (new) base or detail class keeps its name, its parameters and its meaning:
    `hook_access<T, M>::get_left` is the accessor the rules know as `tree_crtp_struct::get_left`.  A function whose
    qualified name is unknown, while a KNOWN function of the same namespace, simple name and arity no longer exists in the
    unit, takes that known name (its definition and every call of it)."""
    from .inline import known_functions, known_arities
    kf, ka = known_functions(), known_arities()
    if not kf or not ka:
        return {}
    fns = d.get("functions", [])
    present = {f.get("uq") for f in fns}
    for f in fns:
        for n in f.get("nodes") or ():
            c = n.get("callee")
            if c and c.get("uq"):
                present.add(c["uq"])
    by_key = {}
    for k in ka:
        uq, ar = k.rsplit("/", 1)
        parts = uq.split("::")
        if len(parts) < 3 or uq in present:
            continue
        by_key.setdefault(("::".join(parts[:-2]), parts[-1], int(ar)), []).append(uq)
    moved = {}

    def target(uq, arity, cls):
        if not uq or uq in kf or uq in moved:
            return moved.get(uq)
        parts = uq.split("::")
        if len(parts) < 3 or not cls:
            return None
        cand = by_key.get(("::".join(parts[:-2]), parts[-1], arity), [])
        if len(cand) == 1:
            moved[uq] = cand[0]
            return cand[0]
        return None
    for f in fns:
        t = target(f.get("uq"), len(f.get("params", [])), f.get("cls"))
        if t:
            f["moved_from"] = f["uq"]
            f["uq"] = t
            f["cls"] = t.rsplit("::", 1)[0]
    for f in fns:
        for n in f.get("nodes") or ():
            c = n.get("callee")
            if c and c.get("uq"):
                t = moved.get(c["uq"]) or target(c["uq"], len(c.get("ptypes") or []), c.get("cls"))
                if t:
                    c["uq"] = t
                    c["cls"] = t.rsplit("::", 1)[0]
    return moved



def normalise(d):
    """Rewrite the raw unit dict in place; returns {class uq: {actual: canonical}} for the classes that were renamed."""
    flatten_state_structs(d)
    reattach_moved_members(d)
    maps = {}
    for rec in d.get("records", []):
        if rec["uq"] in ROLES and rec["uq"] not in maps:
            m = _mapping(rec, d)
            if m and any(a != c for a, c in m.items()):
                maps[rec["uq"]] = m
    if not maps:
        return {}
    for rec in d.get("records", []):
        m = maps.get(rec["uq"])
        if m:
            for f in rec["fields"]:
                f["n"] = m.get(f["n"], f["n"])
    for fn in d.get("functions", []):
        for n in fn.get("nodes", []):
            k = n.get("k")
            if k == "MemberExpr" and n.get("mk") == "Field":
                m = maps.get(n.get("mc"))
                if m and n.get("m") in m:
                    n["m"] = m[n["m"]]
            elif k == "CtorInit" and n.get("field"):
                m = maps.get(n.get("fieldcls"))
                if m and n["field"] in m:
                    n["field"] = m[n["field"]]
    return maps
