"""O6 / D — engaged-flag typestate of optional, expected, variant, manual_box (C17, C16).

Abstract state of one activation: (flag of *this, storage of *this, flag of `other`, relation)
  flag/storage in {'E' engaged/constructed, 'N' empty}; other's flag None when there is no `other`;
  relation in {'same','diff',None}: whether both engaged variants hold the same alternative.
Methods are summarised bottom-up (tag-dispatch chains are distinct instantiations, so the call graph
is acyclic); a summary maps an entry state to the set of exit states (empty = every path traps).
"""
from .ir import path, canon, std_unwrap, AnalysisBroken
from . import flow
from . import rules_atomic as RA
from .rules_guard import write_of, const_bool
from .rules_own import is_dtor_call, cls_fns, recs_of

INVALID = (1 << 64) - 1

CONFIG = {
    "frg::optional": dict(flag="_non_null", stor=("_stor",), acc=("_object", "operator*", "operator->", "value")),
    "frg::manual_box": dict(flag="_initialized", stor=("_storage",), acc=("get", "operator*", "operator->")),
    "frg::expected": dict(flag="e_", stor=("stor_",), acc=("value", "unwrap"), errflag=True),
    "frg::variant": dict(flag="tag_", stor=("storage_",), acc=("get", "access_"), tag=True),
}


class Holder:
    def __init__(self, unit, cls, rec):
        self.unit, self.cls, self.rec = unit, cls, rec
        self.cfg = CONFIG[cls]
        self.fns = [f for f in unit.functions if f.owner_clsqn == rec["qn"]]
        # expected<E,T>'s conditional destructor lives in its base destructor_crtp<E,T,false>
        if cls == "frg::expected":
            targs = rec["qn"][len("frg::expected"):]
            for f in unit.functions:
                if f.owner_cls == "frg::destructor_crtp" and f.kind == "dtor" and f.owner_clsqn.startswith("frg::destructor_crtp" + targs[:-1]):
                    self.fns.append(f)
        self.by_did = {f.did: f for f in self.fns}
        self.memo = {}
        self.violations = {}     # (fn did, node id) -> text
        self.in_progress = set()

    # ---- classification of expressions -----------------------------------------------------
    def _root(self, fn, n):
        """'this' / 'other' / None for the object an expression designates storage or flag of."""
        p = path(n)
        if not p:
            return None, None
        root = p[0]
        if root == "this":
            return "this", p[1:]
        if root.startswith("p:"):
            return "other", p[1:]
        if root.startswith("v:"):
            did = int(root.rsplit("#", 1)[1])
            init = RA.local_inits(fn).get(did)
            if init is not None:
                q = path(init)
                if q == ("this",):
                    return "this", p[1:]
        return None, None

    def storage_owner(self, fn, n, depth=0):
        """n designates (a pointer/reference into) the value storage of this/other -> 'this'/'other'."""
        n = std_unwrap(n)
        if n.kind == "UnaryOperator" and n.op in ("*", "&"):
            return self.storage_owner(fn, n.children[0])
        if n.kind == "DeclRefExpr" and n.get("local") and n.get("dk") == "Var" and depth < 5:
            init = RA.local_inits(fn).get(n.d["d"])
            if init is not None and not RA._reassigned(fn, n.d["d"]):
                return self.storage_owner(fn, init, depth + 1)
        if n.is_call() and n.callee and n.kind in ("CXXMemberCallExpr", "CXXOperatorCallExpr"):
            nm = n.callee["n"]
            if nm in self.cfg["acc"] and n.callee.get("clsqn") == self.rec["qn"]:
                obj = n.child("obj") if n.kind == "CXXMemberCallExpr" else (n.args[0] if n.args else None)
                if obj is not None:
                    r, rest = self._root(fn, obj)
                    if r and not rest:
                        return r
                    po = path(obj)
                    if po == ("this",):
                        return "this"
        r, rest = self._root(fn, n)
        if r and rest and rest[0] in self.cfg["stor"]:
            return r
        return None

    def flag_owner(self, fn, n, depth=0):
        r, rest = self._root(fn, n)
        if r and rest == (self.cfg["flag"],):
            return r
        # a once-initialised local that holds a copy of the flag / error code (`E e = other.e_;`) stands for it, as long
        # as nothing between the copy and the use can change the flag it was taken from
        x = std_unwrap(n)
        if x.kind == "DeclRefExpr" and x.get("local") and x.get("dk") == "Var" and depth < 3:
            did = x.d["d"]
            init = RA.local_inits(fn).get(did)
            if init is not None and not RA._reassigned(fn, did):
                o = self.flag_owner(fn, init, depth + 1)
                if o == "other":
                    return o
                if o == "this":
                    decl = [m for m in fn.events() if m.kind == "DeclStmt" and any(d.get("d") == did for d in m.get("decls", []))]
                    for e in fn.events():
                        w = write_of(e)
                        if w and w[0] == ("this", self.cfg["flag"]) and decl and fn.reaches(decl[0].id, e.id) and fn.reaches(e.id, x.id):
                            return None
                    return o
        return None

    # ---- condition atoms -------------------------------------------------------------------------
    def atom(self, fn, a, ctor_alias=None):
        """-> list of constraints implied when `a` is TRUE:  ('this'|'other', 'E'|'N') / ('rel','same')
        and when FALSE (second list)."""
        a = a.strip()
        T, F = [], []
        if a.kind == "DeclRefExpr" and a.get("local") and (a.get("dk") == "Var" or a.d.get("d") in fn.bind_map()):
            # a bool local that snapshots a flag test (`const bool o = static_cast<bool>(other)`), or a by-value bool
            # parameter of a virtually inlined helper (`_assign_with(other._non_null, ...)`): valid as long as
            # nothing between the snapshot and the test can change the flag it was taken from
            did = a.d["d"]
            if did in fn.bind_map():
                init = fn.node(fn.bind_map()[did])
            else:
                init = RA.local_inits(fn).get(did)
            if init is None or RA._reassigned(fn, did):
                return None
            at = self.atom(fn, init, ctor_alias)
            if at is None:
                return None
            if any(who in ("this", "rel") for who, _ in at[0] + at[1]):
                decl = [n for n in fn.events() if (n.kind == "DeclStmt" and any(d.get("d") == did for d in n.get("decls", [])))
                        or (n.kind == "ParamBind" and n.d.get("d") == did)]
                if not decl:
                    return None
                for e in fn.events():
                    w = write_of(e)
                    changes = bool(w and w[0] == ("this", self.cfg["flag"]))
                    if e.is_call() and e.callee and e.callee.get("did") in self.by_did and not e.callee.get("const"):
                        changes = True
                    if changes and fn.reaches(decl[0].id, e.id) and fn.reaches(e.id, a.id):
                        return None
            return at
        fo = self.flag_owner(fn, a)
        if fo and not self.cfg.get("errflag") and not self.cfg.get("tag"):
            return [(fo, "E")], [(fo, "N")]
        if a.is_call() and a.callee:
            nm = a.callee["n"]
            if nm in ("operator bool", "has_value", "valid") and a.kind == "CXXMemberCallExpr":
                obj = a.child("obj")
                r, rest = self._root(fn, obj) if obj is not None else (None, None)
                if r and not rest and (a.callee.get("cls") in CONFIG):
                    return [(r, "E")], [(r, "N")]
            if nm == "indicates_error" and a.args:
                x = a.args[0]
                fo = self.flag_owner(fn, x)
                if fo:
                    return [(fo, "N")], [(fo, "E")]
                xs = x.strip()
                if ctor_alias is not None and xs.kind == "DeclRefExpr" and xs.d["d"] == ctor_alias:
                    return [("this", "N")], [("this", "E")]
        if a.kind == "BinaryOperator" and a.op in ("==", "!=") and self.cfg.get("tag"):
            l, r = a.children
            fl, fr = self.flag_owner(fn, l), self.flag_owner(fn, r)
            eq = a.op == "=="
            if fl and fr and fl != fr:
                return ([("rel", "same")], [("rel", "diff")]) if eq else ([("rel", "diff")], [("rel", "same")])
            for x, y in ((l, r), (r, l)):
                fo = self.flag_owner(fn, x)
                c = y.strip().cv()
                if fo and c is not None:
                    c &= INVALID
                    if c == INVALID:
                        return ([(fo, "N")], [(fo, "E")]) if eq else ([(fo, "E")], [(fo, "N")])
                    return ([(fo, "E")], []) if eq else ([], [(fo, "E")])
        return None

    # ---- interpretation ------------------------------------------------------------------------------
    def summary(self, fn, state):
        key = (fn.did, state)
        if key in self.memo:
            return self.memo[key]
        if key in self.in_progress:
            return {state}
        self.in_progress.add(key)
        out = self._run(fn, state)
        self.in_progress.discard(key)
        self.memo[key] = out
        return out

    def _apply(self, state, cons):
        tf, ts, of, rel = state
        for who, val in cons:
            if who == "this":
                if tf != val:
                    return None
            elif who == "other":
                if of is None:
                    continue
                if of != val:
                    return None
            elif who == "rel":
                if of is None:
                    continue
                if val == "same":
                    if tf != of:
                        return None
                    if tf == "E":
                        if rel == "diff":
                            return None
                        rel = "same"
                else:
                    if tf == of == "N":
                        return None
                    if tf == of == "E":
                        if rel == "same":
                            return None
                        rel = "diff"
        return (tf, ts, of, rel)

    def _run(self, fn, state):
        ctor_alias = None
        if fn.kind == "ctor" and self.cfg.get("errflag"):
            for n in fn.events():
                if n.kind == "CtorInit" and n.get("field") == self.cfg["flag"] and n.child("init") is not None:
                    for x in n.child("init").walk():
                        if x.kind == "DeclRefExpr" and x.get("dk") == "ParmVar":
                            ctor_alias = x.d["d"]
        other_param = None
        for p in fn.params():
            if (p.get("rt") or "") in CONFIG:
                other_param = p["d"]

        def viol(n, text):
            self.violations.setdefault((fn.did, n.id), (fn, n, text))

        def transfer(n, s):
            tf, ts, of, rel = s
            k = n.kind
            # placement new
            if k == "CXXNewExpr" and n.get("placement") and n.get("pargs"):
                who = self.storage_owner(fn, fn.node(n.get("pargs")[0]))
                if who == "this":
                    if ts == "E":
                        viol(n, "constructs a new object over a live one (storage engaged)")
                    ts = "E"
                return [(tf, ts, of, rel)]
            obj = is_dtor_call(n)
            if obj is not None:
                who = self.storage_owner(fn, obj)
                if who == "this":
                    if ts == "N":
                        viol(n, "destroys the stored object although none exists (storage empty)")
                    ts = "N"
                return [(tf, ts, of, rel)]
            # flag writes
            w = write_of(n)
            if w and w[0] is not None:
                tgt = None
                if w[0] == ("this", self.cfg["flag"]):
                    tgt = "this"
                else:
                    # through a local alias of this (destructor_crtp: self->e_)
                    pass
                if tgt == "this" and w[1] is not None:
                    v = w[1]
                    vs = v.strip()
                    if vs.kind == "InitListExpr":
                        vs = vs.children[0].strip() if vs.children else None
                    if self.cfg.get("tag"):
                        c = vs.cv() if vs is not None else None
                        if c is not None:
                            tf = "N" if (c & INVALID) == INVALID else "E"
                            return [(tf, ts, of, rel)]
                        return [("E", ts, of, rel), ("N", ts, of, rel)]
                    if self.cfg.get("errflag"):
                        if vs is None:
                            return [("E", ts, of, rel)]        # e_{} : value-initialised = no error
                        fo = self.flag_owner(fn, vs)
                        if fo == "other" and of is not None:
                            return [(of, ts, of, rel)]
                        if vs.kind == "DeclRefExpr" and vs.get("dk") == "ParmVar":
                            return [("E", ts, of, rel), ("N", ts, of, rel)]
                        c = vs.cv()
                        if c is not None:
                            return [("E" if c == 0 else "N", ts, of, rel)]
                        return [("E", ts, of, rel), ("N", ts, of, rel)]
                    b = const_bool(v)
                    if b is None:
                        fo = self.flag_owner(fn, vs) if vs is not None else None
                        if fo == "other" and of is not None:
                            return [(of, ts, of, rel)]
                        return [("E", ts, of, rel), ("N", ts, of, rel)]
                    return [("E" if b else "N", ts, of, rel)]
            # delegating constructor
            if k == "CtorInit" and n.get("delegating") and n.child("init") is not None:
                tgt = n.child("init").strip()
                t = self.by_did.get(tgt.callee["did"]) if tgt.callee else None
                if t is not None:
                    res = self.summary(t, ("N", "N", None, None))
                    return [(a, b, of, rel) for (a, b, _, _) in res]
            # calls to own members on *this
            if n.is_call() and n.callee and n.callee["did"] in self.by_did and n.callee["kind"] not in ("ctor",):
                t = self.by_did[n.callee["did"]]
                on_this = False
                if n.kind == "CXXMemberCallExpr":
                    on_this = path(n.child("obj")) == ("this",)
                elif n.kind == "CXXOperatorCallExpr" and n.args:
                    on_this = path(n.args[0]) == ("this",)
                if on_this:
                    # does the callee receive our `other`?
                    passes_other = False
                    for a in n.args:
                        x = std_unwrap(a)
                        if x.kind == "DeclRefExpr" and x.d["d"] == other_param:
                            passes_other = True
                    res = self.summary(t, (tf, ts, of if passes_other else None, rel if passes_other else None))
                    if not res:
                        if t.kind not in ("ctor",) and (fn.did, "trapcall", n.id) not in self.violations:
                            self.violations[(fn.did, "trapcall", n.id)] = (fn, n, "every path of %s ends in an assertion failure "
                                                                             "when entered with this=%s%s" % (
                                                                                 t.name + (t.get("targs") or ""), _nm(tf),
                                                                                 (", other=%s" % _nm(of)) if passes_other and of else ""), s)
                        return []
                    return [(a, b, of, (r if passes_other else rel)) for (a, b, _, r) in res]
            return [(tf, ts, of, rel)]

        def refine(cond, truth, s):
            results = [s]

            def lookup(a):
                # an atom is known when the current abstract state is consistent with only one of its outcomes
                # (needed for `A && B` terminators: in the block that tests B, A already holds)
                at = self.atom(fn, a, ctor_alias)
                if at is None:
                    return None
                t_ok = self._apply(s, at[0]) is not None
                f_ok = self._apply(s, at[1]) is not None
                if t_ok != f_ok:
                    return t_ok
                return None
            cons = []

            def assume(a, v):
                at = self.atom(fn, a, ctor_alias)
                if at is not None:
                    cons.extend(at[0] if v else at[1])
            if not flow.refine_bool(cond, truth, lookup, assume):
                return []
            st = self._apply(s, cons)
            return [st] if st is not None else []

        _, ex = flow.run_ps(fn, [state], transfer, refine, limit=100000)
        return set(ex)


def _nm(x):
    return {"E": "engaged", "N": "empty", None: "-"}[x]


def check_holders(ctx, unit, classes):
    ctx.rule("O6.construct-destroy", "in optional/expected/variant/manual_box a value is placement-constructed only into empty "
             "storage and destroyed only when one exists, on every path from every consistent entry state", len(classes))
    ctx.rule("O6.flag-matches-storage", "every member returns with the engaged flag agreeing with the storage state; "
             "destructors leave the storage empty", len(classes))
    ctx.rule("O6.assignment-engagement", "after assignment the destination is engaged exactly when the source was; emplace "
             "ends engaged", 4)
    ctx.rule("O6.source-read-before-destroy", "an assignment operator that takes its source by reference never destroys the "
             "held object (directly, or through emplace()/reset helpers) before it has finished reading the source: the "
             "source may be *this or live inside the held value", 3)
    ctx.rule("D.dispatch-reachable", "no public member enters a tag-dispatch chain (destruct_/assign_/copy_/move_construct_) "
             "in a state for which every path ends in the chain's terminal assertion", 1)
    ctx.rule("O6.accessor-guarded", "value accessors trap instead of returning when nothing is stored", 4)
    for cls in classes:
        for rec in recs_of(unit, cls):
            if not any(fl["n"] in CONFIG[cls]["stor"] for fl in rec["fields"]):
                continue          # expected<E, void>: nothing is stored
            H = Holder(unit, cls, rec)
            chain = {"destruct_", "assign_", "copy_construct_", "move_construct_", "apply_", "construct_"}
            flag_bad, n_members = [], 0
            for f in H.fns:
                if f.name in chain or f.get("lambda") or f.get("access") == "private":
                    continue
                has_other = any((p.get("rt") or "") in CONFIG for p in f.params())
                entries = []
                if f.kind == "ctor":
                    base = [("N", "N")]
                else:
                    base = [("E", "E"), ("N", "N")]
                for (a, b) in base:
                    if has_other:
                        for o in ("E", "N"):
                            entries.append((a, b, o, None))
                    else:
                        entries.append((a, b, None, None))
                n_members += 1
                for st in entries:
                    res = H.summary(f, st)
                    for (tf, ts, of, rel) in res:
                        if f.kind == "dtor":
                            if ts != "N":
                                flag_bad.append("%s entered %s leaves the stored object alive" % (f.sig, _nm(st[0])))
                        elif tf != ts:
                            flag_bad.append("%s entered this=%s%s returns with flag %s but storage %s" % (
                                f.sig, _nm(st[0]), (" other=%s" % _nm(st[2])) if st[2] else "", _nm(tf), _nm(ts)))
                    if f.name == "operator=" and has_other:
                        bad = [r for r in res if r[0] != st[2]]
                        ctx.inst("O6.assignment-engagement", "%s [this=%s, other=%s]" % (f.sig, _nm(st[0]), _nm(st[2])),
                                 not bad and (bool(res) or True), f.loc,
                                 ("destination ends %s" % sorted({_nm(r[0]) for r in res})) if res else "no normal exit", f,
                                 nontrivial=bool(res))
                    if f.name == "emplace":
                        bad = [r for r in res if r[0] != "E" or r[1] != "E"]
                        ctx.inst("O6.assignment-engagement", "%s [this=%s]" % (f.sig, _nm(st[0])), bool(res) and not bad, f.loc,
                                 "ends %s" % sorted({(_nm(r[0]), _nm(r[1])) for r in res}), f)
                    if f.name in CONFIG[cls]["acc"] and f.name not in ("access_", "_object") and st[0] == "N":
                        ctx.inst("O6.accessor-guarded", "%s%s" % (f.sig, " const" if f.get("const") else ""), not res, f.loc,
                                 "entered empty: %s" % ("traps" if not res else "returns a reference to storage that holds no object"), f)
            # aliasing: an assignment that takes its source by reference must not destroy the held object before it has
            # read the source (x = x, or x = *x->next where the source lives inside the held value)
            def own_dtor_events(fn):
                out = []
                for n in fn.events():
                    o = is_dtor_call(n)
                    if o is not None and H.storage_owner(fn, o) == "this":
                        out.append(n)
                return out
            destroyers = {fn.did for fn in H.fns if own_dtor_events(fn) and fn.kind != "dtor"}
            grew = True
            while grew:
                grew = False
                for fn in H.fns:
                    if fn.did in destroyers or fn.kind == "dtor":
                        continue
                    for n in fn.events():
                        if n.is_call() and n.callee and n.callee.get("did") in destroyers and n.kind == "CXXMemberCallExpr" \
                                and path(n.child("obj")) == ("this",):
                            destroyers.add(fn.did)
                            grew = True
                            break
            for f in H.fns:
                if f.name != "operator=" or not f.params():
                    continue
                p0 = f.params()[0]
                if (p0.get("rt") or "") not in CONFIG or not p0["t"].rstrip().endswith("&"):
                    continue           # by-value source: a private copy, cannot alias
                bad = []
                dts = own_dtor_events(f)
                dts += [n for n in f.events() if n.is_call() and n.callee and n.callee.get("did") in destroyers and n.kind == "CXXMemberCallExpr"
                        and path(n.child("obj")) == ("this",)]
                reads = [n for n in f.events() if n.is_call() and H.storage_owner(f, n) == "other"]
                reads += [n for n in f.events() if n.kind == "MemberExpr" and H.storage_owner(f, n) == "other"]
                # any other member of the source (its engaged flag / error code) is a read of the source as well
                reads += [n for n in f.events() if n.kind == "MemberExpr" and n.get("mk") == "Field" and n.children
                          and std_unwrap(n.children[0]).kind == "DeclRefExpr" and std_unwrap(n.children[0]).d.get("d") == p0["d"]]
                # ... and so is any other mention of the source: asking it whether it is engaged, handing it on to a helper
                reads += [n for n in f.events() if n.kind == "DeclRefExpr" and n.d.get("d") == p0["d"]]
                for d_ in dts:
                    for r_ in reads:
                        if f.reaches(d_.id, r_.id):
                            bad.append("the held object is destroyed at %s and the source is read afterwards at %s" % (d_.loc, r_.loc))
                for n in f.events():
                    if n.is_call() and n.callee and n.callee.get("did") in destroyers and n.kind == "CXXMemberCallExpr" \
                            and path(n.child("obj")) == ("this",):
                        callee = H.by_did.get(n.callee["did"])
                        cps = callee.params() if callee is not None else []
                        for a_, cp_ in zip(n.args, cps):
                            if H.storage_owner(f, a_) == "other" and cp_["t"].rstrip().endswith("&"):
                                bad.append("%s(...) at %s receives a reference into the source and destroys the held object before "
                                           "constructing from it" % (n.callee["n"], n.loc))
                        # a reference to the whole source handed on likewise
                        for a_, cp_ in zip(n.args, cps):
                            x_ = std_unwrap(a_)
                            if x_.kind == "DeclRefExpr" and x_.d["d"] == p0["d"] and cp_["t"].rstrip().endswith("&") and callee.name != "operator=":
                                bad.append("%s(other) at %s may destroy the held object before reading other" % (n.callee["n"], n.loc))
                ctx.inst("O6.source-read-before-destroy", "%s" % f.sig, not bad, f.loc,
                         "; ".join(sorted(set(bad))[:2]) if bad else "no path destroys the held object before the (possibly aliasing) source was read", f)
            # collect violations
            cd = [v for k, v in H.violations.items() if len(k) == 2]
            tc = [v for k, v in H.violations.items() if len(k) == 3]
            ctx.inst("O6.construct-destroy", cls, not cd, cd[0][1].loc if cd else rec["loc"],
                     "; ".join(sorted({"%s: %s at %s" % (v[0].sig, v[2], v[1].loc) for v in cd})) if cd else
                     "%d members interpreted from all consistent entry states (instantiation %s)" % (n_members, rec["qn"]))
            ctx.inst("O6.flag-matches-storage", cls, not flag_bad, rec["loc"],
                     "; ".join(sorted(set(flag_bad))[:4]) if flag_bad else "flag == storage at every exit (instantiation %s)" % rec["qn"])
            if cls == "frg::variant":
                # only report calls made from non-chain members
                rep = [v for v in tc if v[0].name not in chain]
                ctx.inst("D.dispatch-reachable", cls, not rep, rep[0][1].loc if rep else rec["loc"],
                         "; ".join(sorted({"%s: %s (call at %s)" % (v[0].sig, v[2], v[1].loc) for v in rep})) if rep else
                         "every chain entry is made in a state with a non-trapping path (instantiation %s)" % rec["qn"])


def check_holder_specials(ctx, unit, classes, rule="O2.holder-specials"):
    """A class that keeps a T in raw storage together with an engaged flag must not be copyable by the implicit
    member-wise copy: that duplicates the bytes of a live T (no copy constructor runs, both holders later destroy "their"
    object) and, on assignment, overwrites a live T bytewise."""
    ctx.rule(rule, "holders with raw storage + engaged flag (optional, expected, variant, manual_box) have user-provided or "
             "deleted copy construction and copy assignment (no implicit byte-wise copy of the stored object)", len(classes))
    for cls in classes:
        seen = False
        for rec in recs_of(unit, cls):
            if not any(fl["n"] in CONFIG[cls]["stor"] for fl in rec["fields"]):
                continue
            if seen:
                continue
            seen = True
            sp = rec["special"]
            problems = []
            if sp["simple_copy_ctor"]:
                problems.append("implicit member-wise copy constructor is available")
            if sp["simple_copy_assign"]:
                problems.append("implicit member-wise copy assignment is available")
            ctx.inst(rule, cls, not problems, rec["loc"], ("; ".join(problems) + ": the stored object is duplicated / overwritten as raw bytes")
                     if problems else "copies are user-provided or deleted (instantiation %s)" % rec["qn"])


def check_copy_selects_copy(ctx, unit, rule="W.copy-selects-copy"):
    """Overload-resolution witness: in wit::probe_copy_select every holder is copy-constructed from a NON-CONST lvalue of
    its own type.  The constructor clang resolves must be the copy constructor; a forwarding constructor template
    `optional(U &&)` that is viable for U = optional & wins for T = bool (via explicit operator bool) and for any greedily
    constructible T, and turns the copy into `engaged(bool(source))`."""
    ctx.rule(rule, "copy-constructing optional/variant/expected from a non-const lvalue of the same type resolves to the copy "
             "constructor for every witness element type (bool, a class with a catch-all constructor, a plain class)", 4)
    fs = [f for f in unit.functions if f.name in ("probe_copy_select", "probe_copy_select_cv")]
    if len(fs) < 2:
        raise AnalysisBroken("anchor vanished: wit::probe_copy_select / probe_copy_select_cv in the holders unit")
    n_ = 0
    for f in sorted(fs, key=lambda g: g.name):
        k_ = 0
        for n in sorted([x for x in f.events() if x.kind == "CXXConstructExpr" and x.callee and (x.callee.get("cls") or "") in CONFIG],
                        key=lambda x: x.loc):
            a = n.args[0] if n.args else None
            if a is None:
                continue
            n_ += 1
            k_ += 1
            cal = n.callee
            ok = bool(cal.get("copy")) if f.name == "probe_copy_select" else bool(cal.get("copy") or cal.get("move"))
            ctx.inst(rule, "%s from %s #%d" % (cal.get("qn", "?").rsplit("::", 1)[0], "a const lvalue / rvalue / const rvalue of its own type" if f.name != "probe_copy_select" else "a non-const lvalue", k_), ok, n.loc,
                     "resolves to %s(%s)%s" % (cal.get("n"), ", ".join(cal.get("ptypes", [])),
                                               "" if ok else ": a constructor template, not the copy/move constructor — the new object's state "
                                               "becomes engaged(T(source)) instead of the source's state"), f)
    if n_ < 13:
        raise AnalysisBroken("anchor vanished: copy constructions in wit::probe_copy_select* (found %d)" % n_)


def check_brace_assign(ctx, unit, rule="W.brace-assign-empties"):
    """`o = {}` on an optional of a scalar: the call clang resolves must be an assignment from optional itself (the braces
    build an empty optional).  A value-assignment template `operator=(U &&)` with U defaulted to T is viable for the braces
    unless scalars are excluded (as std::optional does) and leaves the optional ENGAGED with T{}."""
    ctx.rule(rule, "`o = {}` on optional<int>, optional<bool> and optional<T *> resolves to the copy or move assignment of optional "
             "(the optional is emptied), not to a value-assignment template", 3)
    fs = [f for f in unit.functions if f.name == "probe_brace_assign"]
    if not fs:
        raise AnalysisBroken("anchor vanished: wit::probe_brace_assign in the holders unit")
    f = fs[0]
    k = 0
    for n in sorted([x for x in f.events() if x.kind == "CXXOperatorCallExpr" and x.callee and x.callee.get("op") == "="
                     and "optional" in (x.callee.get("cls") or "")], key=lambda x: x.loc):
        k += 1
        cal = n.callee
        ok = bool(cal.get("copyassign") or cal.get("moveassign"))
        ctx.inst(rule, "%s = {} #%d" % (cal.get("clsqn", cal.get("cls")), k), ok, n.loc,
                 "resolves to operator=(%s)%s" % (", ".join(cal.get("ptypes", [])), "" if ok else
                                                  ": a value assignment -- the optional ends up engaged with a value-initialised T"), f)
    if k < 3:
        raise AnalysisBroken("anchor vanished: brace assignments in wit::probe_brace_assign (found %d)" % k)


def check_emplace_direct_init(ctx, unit, classes, rule="W.emplace-direct-init"):
    """The in-place constructions that forward their arguments (optional(U &&), emplace, manual_box::initialize, eternal's
    constructor, variant::emplace) build T(args...) -- direct-initialisation, as std::optional / std::variant prescribe -- and
    not T{args...}, which prefers an initializer_list constructor of T and gives initialize(4, 9) two elements instead of four."""
    ctx.rule(rule, "a placement-new that forwards reference-collapsing parameters into the held object uses T(args...), not "
             "T{args...} (list-initialisation selects an initializer_list constructor where the standard holders do not)", len(classes))
    from .ir import std_unwrap
    seen_cls = set()
    for f in unit.functions:
        cls = f.owner_cls or ""
        if cls not in classes:
            continue
        coll = {p["d"] for p in f.params() if p.get("collapsing")}
        if not coll:
            continue
        k = 0
        bm = f.bind_map()

        def fwd(y, depth=0, coll=coll, bm=bm, f=f):
            """y mentions a reference-collapsing parameter of f, directly or as the argument a folded helper's parameter is bound to"""
            if y.kind != "DeclRefExpr" or depth > 8:
                return False
            if y.d.get("d") in coll:
                return True
            if y.d.get("d") in bm:
                return any(fwd(z, depth + 1) for z in f.node(bm[y.d["d"]]).walk())
            return False
        for n in sorted([x for x in f.all_nodes() if x.kind == "CXXNewExpr" and x.get("placement")], key=lambda x: x.loc):
            fw = [x for x in n.walk() if fwd(x)]
            if not fw:
                continue
            k += 1
            lst = [x for x in n.walk() if (x.kind == "CXXConstructExpr" and x.get("listinit")) or x.kind == "InitListExpr"]
            lst = [x for x in lst if any(fwd(y) for y in x.walk())]
            seen_cls.add(cls)
            ctx.inst(rule, "%s #%d" % (f.sig, k), not lst, n.loc,
                     "the forwarded arguments are wrapped in braces: T{args...} prefers an initializer_list constructor" if lst else
                     "direct-initialisation T(args...)", f)
    for cls in classes:
        if cls not in seen_cls:
            raise AnalysisBroken("anchor vanished: forwarding construction in %s" % cls)


def check_returns(ctx, unit, fns, rule="R.returns"):
    """A non-void function must not flow off its end."""
    ctx.rule(rule, "every non-void member returns a value on every path that reaches the end of the function", 10)
    for f in fns:
        if f.kind in ("ctor", "dtor") or f.get("ret") in ("void", "") or not f.blocks:
            continue
        bad = []
        for p in f.blocks[f.exit].preds:
            blk = f.blocks[p]
            ns = blk.nodes()
            if not any(n.kind == "ReturnStmt" for n in ns) and blk.termkind != "ReturnStmt":
                loc = ns[-1].loc if ns else f.loc
                bad.append(loc)
        ctx.inst(rule, f.sig + (" const" if f.get("const") else ""), not bad, bad[0] if bad else f.loc,
                 "control can reach the end of a function returning %s without a return statement" % f.get("ret") if bad
                 else "all paths to the exit return a value", f)


def check_tuple_access(ctx, unit, rule="E.tuple-access"):
    ctx.rule(rule, "tuple access_helper<0> returns the node's own item and access_helper<n> forwards to access_helper<n-1> on "
             "the tail; storage's constructor initialises item from the first argument and tail from the rest", 4)
    fs = [f for f in unit.functions if f.owner_cls == "frg::_tuple::access_helper" and f.name == "access"]
    if len(fs) < 4:
        raise AnalysisBroken("anchor vanished: tuple access_helper::access instantiations (found %d)" % len(fs))
    for f in fs:
        rs = f.return_nodes()
        v = rs[0].child("val").strip() if rs and rs[0].child("val") is not None else None
        idx = None
        import re
        m = re.search(r"access_helper<(\d+)", f.owner_clsqn or "")
        idx = int(m.group(1)) if m else None
        ok, why = False, "unexpected shape"
        if v is not None and idx == 0:
            p = path(v)
            ok = bool(p) and len(p) == 2 and p[1] == "item"
            why = "returns %s" % canon(v).split("#")[0]
        elif v is not None and idx is not None and v.is_call() and v.callee and v.callee["n"] == "access":
            m2 = re.search(r"access_helper<(\d+)", v.callee.get("clsqn", ""))
            p = path(v.args[0]) if v.args else None
            ok = bool(m2) and int(m2.group(1)) == idx - 1 and bool(p) and len(p) == 2 and p[1] == "tail"
            why = "forwards to access_helper<%s> on %s" % (m2.group(1) if m2 else "?", canon(v.args[0]).split("#")[0] if v.args else "?")
        ctx.inst(rule, "%s::access%s" % ((f.owner_clsqn or "")[:60], " const" if "const" in f.params()[0]["t"] else ""), ok, f.loc, why, f)
    st = [f for f in unit.functions if f.owner_cls == "frg::_tuple::storage" and f.kind == "ctor" and len(f.params()) >= 1
          and not f.get("copy") and not f.get("move") and "storage<" not in f.params()[0]["t"]]
    for f in st:
        inits = {n.get("field"): n for n in f.events() if n.kind == "CtorInit" and n.get("field")}
        ok = set(inits) == {"item", "tail"}
        if ok:
            iv = inits["item"].child("init")
            ok = iv is not None and any(x.kind == "DeclRefExpr" and x.d["d"] == f.params()[0]["d"] for x in iv.walk())
            tv = inits["tail"].child("init")
            rest = {p["d"] for p in f.params()[1:]}
            used = {x.d["d"] for x in tv.walk() if x.kind == "DeclRefExpr" and x.get("dk") == "ParmVar"} if tv is not None else set()
            ok = ok and used == rest
        ctx.inst(rule, "%s::<ctor>(item, tail...)" % (f.owner_clsqn or "")[:60], ok, f.loc,
                 "item <- first argument, tail <- remaining arguments: %s" % ok, f)
