"""H — link protocol of intrusive structures: per-path write sets over hook fields."""
from .ir import path, canon, std_unwrap, AnalysisBroken
from . import flow
from . import rules_atomic as RA
from .rules_guard import write_of


def hook_write(n, accessor_names=("h",)):
    """If element n assigns a hook field reached through an accessor call h(X) (or a plain path),
    return (field, X node or None, value node)."""
    if n.kind != "BinaryOperator" or n.op != "=":
        return None
    l = n.children[0].strip()
    if l.kind != "MemberExpr":
        return None
    base = l.children[0].strip() if l.children else None
    # `hook_struct *hk = h(node); hk->left = ...`: a once-initialised local that holds the accessor's result
    hops = 0
    while base is not None and base.kind == "DeclRefExpr" and base.get("local") and hops < 4:
        from . import rules_atomic as _RA
        ini = _RA.local_inits(n.fn).get(base.d["d"])
        if ini is None or _RA._reassigned(n.fn, base.d["d"]):
            break
        base, hops = std_unwrap(ini).strip(), hops + 1
    if base is not None and base.is_call() and base.callee and base.callee["n"] in accessor_names:
        args = base.args
        return (l.m, args[-1] if args else None, n.children[1])
    return None


def _strip(t):
    import re
    return re.sub(r"#\d+", "", t)


def path_sets(fn, label, skip_if=None):
    """Set of frozensets: for every normal path entry->exit the set of labels of the writes on it.
    label(n) -> hashable or None. Paths on which skip_if(n) is true for some element get the
    marker '<delegates>' added."""
    def transfer(n, s):
        l = label(n)
        if l is not None:
            s = s | {l}
        if skip_if is not None and skip_if(n):
            s = s | {"<delegates>"}
        return [s]
    _, ex = flow.run(fn, [frozenset()], transfer, None, limit=200000)
    return ex


def check_intrusive_list(ctx, unit, cls="frg::_list::intrusive_list"):
    ctx.rule("H.list-insert", "every non-delegating path of push_front/push_back/insert marks the element in_list and repairs "
             "the links on both sides: an empty-list path sets both list ends, a neighbour path writes the neighbour's link "
             "and the element's own link, and the list end that moved is updated", 3)
    ctx.rule("H.list-erase", "every path of erase() repairs exactly one backward link (the tail or next.previous) and exactly "
             "one forward link (the head or previous.next), nulls both links of the erased element and clears in_list", 1)
    ctx.rule("H.list-splice", "splice() either does nothing or links the two lists on both sides, takes over the tail and "
             "empties the source list", 1)
    recs = [r for r in unit.record(cls)]
    if not recs:
        raise AnalysisBroken("anchor vanished: %s" % cls)
    for rec in recs:
        fns = {}
        for f in unit.functions:
            if f.owner_clsqn == rec["qn"]:
                fns.setdefault(f.name, []).append(f)

        def who(fn, x, new_dids):
            """classify the node whose hook is written: 'new' (the element being inserted / erased) or 'nbr'."""
            if x is None:
                return "?"
            # through once-initialised locals, parameters of folded helpers, helper results and traits::decay(y) (the
            # identity on raw pointers), in any nesting
            xs = std_unwrap(x)
            for _ in range(12):
                ys = std_unwrap(RA.resolve_local(fn, xs))
                if ys.kind == "CallExpr" and ys.callee and ys.callee["n"] == "decay" and ys.args:
                    ys = std_unwrap(ys.args[0])
                if ys is xs or ys.id == xs.id:
                    break
                xs = ys
            if xs.kind == "DeclRefExpr" and xs.d["d"] in new_dids:
                return "new"
            p = path(xs)
            if p and any(p[0].endswith("#%d" % d) for d in new_dids) and len(p) > 1 and p[-1] == "_current":
                return "new"
            return "nbr"

        for name in ("push_front", "push_back", "insert"):
            for f in fns.get(name, []):
                ps = f.params()
                elem = [ps[-1]["d"]] if ps else []       # the element to insert is the last parameter
                if not elem:
                    raise AnalysisBroken("anchor vanished: parameter element of %s" % f.qn)
                new = set(elem)
                # borrow = traits::decay(element)
                for did, init in RA.local_inits(f).items():
                    v = std_unwrap(init)
                    if v.kind == "CallExpr" and v.callee and v.callee["n"] == "decay" and v.args:
                        a = std_unwrap(v.args[0])
                        if a.kind == "DeclRefExpr" and a.d["d"] in new:
                            new.add(did)

                def label(n, f=f, new=new):
                    hw = hook_write(n)
                    if hw:
                        return "%s.%s" % (who(f, hw[1], new), hw[0])
                    w = write_of(n)
                    if w and w[0] in (("this", "_front"), ("this", "_back")):
                        return w[0][1]
                    return None

                def deleg(n):
                    return n.kind == "CXXMemberCallExpr" and n.callee and n.callee["n"] in ("push_back", "push_front") \
                        and path(n.child("obj")) == ("this",)
                sets = path_sets(f, label, deleg)
                bad = []
                n_real = 0
                for s in sets:
                    if "<delegates>" in s:
                        continue
                    n_real += 1
                    if "new.in_list" not in s:
                        bad.append("a path does not mark the element in_list (writes %s)" % sorted(s))
                    fwd = {x for x in s if x in ("_front", "nbr.next", "new.next")}
                    bwd = {x for x in s if x in ("_back", "nbr.previous", "new.previous")}
                    if name == "push_front":
                        ok = "_front" in s and ((("_back" in s) and "nbr.previous" not in s) or
                                                ({"nbr.previous", "new.next"} <= s and "_back" not in s))
                    elif name == "push_back":
                        ok = "_back" in s and ((("_front" in s) and "nbr.next" not in s) or
                                               ({"nbr.next", "new.previous"} <= s and "_front" not in s))
                    else:
                        ok = {"nbr.next", "nbr.previous", "new.next", "new.previous"} <= s
                    if not ok:
                        bad.append("a path leaves one side unrepaired: writes %s" % sorted(s))
                if n_real == 0:
                    bad.append("no non-delegating path found")
                ctx.inst("H.list-insert", "%s::%s" % (cls, name), not bad, f.loc,
                         "; ".join(sorted(set(bad))) if bad else "%d link-writing paths examined" % n_real, f)
        for f in fns.get("erase", []):
            it = [p["d"] for p in f.params()]
            new = set(it)

            def label(n, f=f, new=new):
                hw = hook_write(n)
                if hw:
                    v = hw[2].strip()
                    kind = who(f, hw[1], new)
                    if kind == "new":
                        isnull = v.get("nullc") or v.kind == "CXXNullPtrLiteralExpr" or v.cv() == 0 or \
                            (v.kind == "CXXBoolLiteralExpr" and not v.get("bv"))
                        return "self.%s:=%s" % (hw[0], "null" if isnull else "other")
                    return "nbr.%s" % hw[0]
                w = write_of(n)
                if w and w[0] in (("this", "_front"), ("this", "_back")):
                    return w[0][1]
                return None
            sets = path_sets(f, label)
            bad = []
            for s in sets:
                b = len({x for x in s if x in ("_back", "nbr.previous")})
                fw = len({x for x in s if x in ("_front", "nbr.next")})
                if b != 1 or fw != 1:
                    bad.append("a path repairs %d backward and %d forward links (writes %s)" % (b, fw, sorted(s)))
                for need in ("self.next:=null", "self.previous:=null", "self.in_list:=null"):
                    if need not in s:
                        bad.append("a path does not reset %s of the erased element" % need.split(":")[0].split(".")[1])
            ctx.inst("H.list-erase", "%s::erase" % cls, not bad and bool(sets), f.loc,
                     "; ".join(sorted(set(bad))) if bad else "%d paths examined" % len(sets), f)
        # any OTHER member that takes an element out of the list itself (clears its in_list flag) instead of delegating to
        # erase() owes the list the same repairs, on every path on which it does so
        for name_, fl_ in sorted(fns.items()):
            if name_ == "erase":
                continue
            for f in fl_:
                clears = []
                for n in f.events():
                    hw = hook_write(n)
                    if hw and hw[0] == "in_list" and hw[1] is not None:
                        v = hw[2].strip()
                        if v.cv() == 0 or (v.kind == "CXXBoolLiteralExpr" and not v.get("bv")):
                            clears.append(hw)
                if not clears:
                    continue

                def keyof(x, f=f):
                    xs = std_unwrap(RA.resolve_local(f, x))
                    while xs.kind == "CallExpr" and xs.callee and xs.callee["n"] == "decay" and xs.args:
                        xs = std_unwrap(RA.resolve_local(f, xs.args[0]))
                    return _strip(canon(xs))
                victim = {keyof(c[1]) for c in clears}

                def label(n, f=f, victim=victim):
                    hw = hook_write(n)
                    if hw and hw[1] is not None:
                        v = hw[2].strip()
                        if keyof(hw[1]) in victim:
                            isnull = v.get("nullc") or v.kind == "CXXNullPtrLiteralExpr" or v.cv() == 0 or \
                                (v.kind == "CXXBoolLiteralExpr" and not v.get("bv"))
                            return "self.%s:=%s" % (hw[0], "null" if isnull else "other")
                        return "nbr.%s" % hw[0]
                    w = write_of(n)
                    if w and w[0] in (("this", "_front"), ("this", "_back")):
                        return w[0][1]
                    return None
                sets = path_sets(f, label)
                bad = []
                n_real = 0
                for s_ in sets:
                    if "self.in_list:=null" not in s_:
                        continue
                    n_real += 1
                    b = len({x for x in s_ if x in ("_back", "nbr.previous")})
                    fw = len({x for x in s_ if x in ("_front", "nbr.next")})
                    if b != 1 or fw != 1:
                        bad.append("a path repairs %d backward and %d forward links (writes %s)" % (b, fw, sorted(s_)))
                    for need in ("self.next:=null", "self.previous:=null"):
                        if need not in s_:
                            bad.append("a path does not reset %s of the removed element" % need.split(":")[0].split(".")[1])
                ctx.inst("H.list-erase", "%s::%s (removes an element itself)" % (cls, name_), not bad and n_real > 0, f.loc,
                         "; ".join(sorted(set(bad))) if bad else "%d removing paths examined" % n_real, f)
        ctx.rule("R.no-use-after-move", "an owner pointer (list end, hook link, parameter) that was passed to std::move is not read "
                 "again on that path before it is assigned a new value", 2)
        check_no_use_after_move(ctx, "R.no-use-after-move", [f for fl_ in fns.values() for f in fl_])
        for f in fns.get("splice", []):
            oth = [p for p in f.params() if p.get("rt") == cls]
            if not oth:
                raise AnalysisBroken("anchor vanished: parameter other of splice")
            root = "p:%s#%d" % (oth[0]["n"], oth[0]["d"])

            def label(n, f=f):
                hw = hook_write(n)
                if hw:
                    return "elem.%s" % hw[0]
                w = write_of(n)
                if w and w[0]:
                    if w[0] in (("this", "_front"), ("this", "_back")):
                        return w[0][1]
                    if w[0][0] == root and len(w[0]) == 2:
                        v = w[1].strip() if w[1] is not None else None
                        isnull = v is not None and (v.get("nullc") or v.kind == "CXXNullPtrLiteralExpr")
                        return "other.%s:=%s" % (w[0][1], "null" if isnull else "x")
                return None
            sets = path_sets(f, label)
            bad = []
            for s in sets:
                if not s:
                    continue   # empty source list: nothing to do
                if "_back" not in s:
                    bad.append("a path does not take over the tail")
                if not ("_front" in s or {"elem.next", "elem.previous"} <= s):
                    bad.append("a path links only one direction (writes %s)" % sorted(s))
                if not {"other._front:=null", "other._back:=null"} <= s:
                    bad.append("a path leaves the source list non-empty (writes %s)" % sorted(s))
            # "takes over the tail": whatever splice() stores into its own tail is the source list's tail
            from . import rules_atomic as RA_
            for n in f.events():
                w = write_of(n)
                if w and w[0] == ("this", "_back") and w[1] is not None:
                    v = RA_.resolve_local(f, std_unwrap(w[1]))
                    if path(v) != (root, "_back") and path(std_unwrap(w[1])) != (root, "_back"):
                        bad.append("the tail is set to %s at %s, not to the tail of the spliced list" % (canon(std_unwrap(w[1])).split("#")[0], n.loc))
            ctx.inst("H.list-splice", "%s::splice" % cls, not bad and len(sets) >= 2, f.loc,
                     "; ".join(sorted(set(bad))) if bad else "%d paths examined" % len(sets), f)


def check_no_use_after_move(ctx, rule, fns):
    """An owner pointer that was handed on with std::move holds an unspecified (for unique-style owners: null) value:
    reading the same place again on that path before it is assigned reads the moved-from owner.  (Invisible with raw
    pointers, where std::move copies.)  Per-path typestate over places, a place being the canonical text of the moved
    expression; the store `p = ...` revives it."""
    for f in fns:
        moved_args = {}
        for n in f.events():
            if n.kind == "CallExpr" and n.callee and n.callee["uq"] == "std::move" and n.args:
                a = n.args[0].strip()
                if a.kind in ("MemberExpr", "DeclRefExpr"):
                    moved_args[n.id] = (canon(a), {x.id for x in n.args[0].walk()})
        if not moved_args:
            continue
        bad = []
        lhs_ids = set()
        for n in f.all_nodes():
            if n.kind == "BinaryOperator" and n.op == "=":
                for x in n.children[0].walk():
                    if x.strip().id == n.children[0].strip().id:
                        lhs_ids.add(x.id)
                lhs_ids.add(n.children[0].strip().id)
        own_arg_ids = set()
        for _k, (_t, ids) in moved_args.items():
            own_arg_ids |= ids

        def transfer(n, st, f=f):
            if n.id in moved_args:
                return [st | {moved_args[n.id][0]}]
            if n.kind == "BinaryOperator" and n.op == "=":
                t = canon(n.children[0].strip())
                if t in st:
                    return [st - {t}]
            if st and n.kind in ("MemberExpr", "DeclRefExpr") and n.id not in lhs_ids and n.id not in own_arg_ids:
                t = canon(n)
                if t in st:
                    par = f.parent(n)
                    if not (par is not None and par.kind == "MemberExpr" and canon(par) in st):
                        bad.append("%s is read at %s after it was moved from (std::move) on the same path: for an owner pointer whose "
                                   "moved-from state is null this dereferences null" % (t.split("#")[0], n.loc))
            return [st]
        flow.run(f, [frozenset()], transfer, None, limit=200000)
        ctx.inst(rule, f.sig, not bad, f.loc, "; ".join(sorted(set(bad))[:2]) if bad else
                 "%d std::move site(s); no moved-from place is read before it is assigned again" % len(moved_args), f)


# ---- read of a link that was just cleared / use of a value derived through a pointer that has moved ------

def check_read_after_clear(ctx, rule, fns, accessor_names=("h",), fields=None):
    """A hook field read h(P).f that is dominated (same P, no intervening write of f or redefinition of P)
    by the write h(P).f = null always yields null: the link it was meant to carry is already gone."""
    from .rules_tree import Ser, is_assert_stmt
    for f in fns:
        ser = Ser(f, sound=True)
        ser.never = True
        bad = []
        n_reads = [0]

        def transfer(n, s, f=f, ser=ser):
            hw = hook_write(n, accessor_names)
            if hw and hw[1] is not None:
                fld, obj = hw[0], ser.expr(hw[1])
                v = hw[2].strip()
                s = frozenset(x for x in s if len(x) != 2 or x[1] != fld)
                if v.get("nullc") or v.kind == "CXXNullPtrLiteralExpr":
                    s = s | {(obj, fld)}
                    # the same element under another name on this path (x = c ? a : b, x = a)
                    for x in list(s):
                        if len(x) == 3 and x[0] == "=" and x[1] == obj:
                            s = s | {(x[2], fld)}
                        if len(x) == 3 and x[0] == "=" and x[2] == obj:
                            s = s | {(x[1], fld)}
                return [s]
            w = write_of(n)
            if w is None and n.kind == "DeclStmt":
                for d in n.get("decls", []):
                    if "init" in d and (f.node(d["init"]).get("t") or "").rstrip().endswith("*"):
                        w = (("v:%s#%d" % (d["n"], d["d"]),), f.node(d["init"]))
            if w and w[0] and len(w[0]) == 1:
                nm = w[0][0].split(":")[1].split("#")[0]
                s = frozenset(x for x in s if not ((len(x) == 2 and nm in x[0]) or (len(x) == 3 and x[0] == "=" and (nm in x[1] or nm in x[2]))))
                # path-sensitive alias: which element does the assigned local name on THIS path?
                if w[1] is not None:
                    rv = w[1].strip()
                    tgt = None
                    if rv.kind == "ConditionalOperator" and len(rv.children) == 3:
                        cid = rv.children[0].strip().id
                        for x in s:
                            if len(x) == 3 and x[0] == "br" and x[1] == cid:
                                tgt = rv.children[1] if x[2] else rv.children[2]
                    elif rv.kind == "DeclRefExpr" and rv.get("local"):
                        tgt = rv
                    if tgt is not None:
                        tt = tgt.strip()
                        if tt.kind == "DeclRefExpr" and tt.get("local"):
                            s = s | {("=", nm, ser.expr(tt))}
                return [s]
            if n.is_call() and n.callee and n.callee["n"] not in Ser.PURE and n.kind != "CXXConstructExpr":
                return [frozenset()]
            if n.kind == "MemberExpr" and n.get("mk") == "Field":
                base = n.children[0].strip() if n.children else None
                if base is not None and base.is_call() and base.callee and base.callee["n"] in accessor_names and base.args:
                    par = f.parent(n)
                    # a read (not the target of an assignment), outside assertions
                    is_target = par is not None and par.kind == "BinaryOperator" and par.op == "=" and par.children[0].id == n.id
                    if not is_target and n.get("mac") not in ("FRG_ASSERT",):
                        n_reads[0] += 1
                        key = (ser.expr(base.args[-1]), n.m)
                        if key in s:
                            bad.append("h(%s).%s is read at %s right after it was cleared" % (key[0], key[1], n.loc))
            return [s]

        def refine(cond, truth, s, f=f):
            # remember which arm of a conditional expression this path took (for `x = c ? a : b`)
            c = cond.strip()
            par = f.parent(cond)
            hops = 0
            while par is not None and par.kind in ("ImplicitCastExpr", "ParenExpr") and hops < 4:
                par = f.parent(par)
                hops += 1
            if par is not None and par.kind == "ConditionalOperator":
                s = frozenset(x for x in s if not (len(x) == 3 and x[0] == "br" and x[1] == c.id)) | {("br", c.id, truth)}
            return [s]
        flow.run(f, [frozenset()], transfer, refine, limit=200000)
        if n_reads[0]:
            ctx.inst(rule, f.sig, not bad, f.loc, "; ".join(sorted(set(bad))[:3]) if bad else
                     "%d link reads, none of a link cleared on the way" % n_reads[0], f)


def check_stale_derived(ctx, rule, fns):
    """A local loaded *through* a cursor (V->..., V.load(), f(.., V->...)) is stale once V is reassigned;
    it must not be used after that without being recomputed."""
    for f in fns:
        inits = RA.local_inits(f)
        # cursor candidates: pointer-typed locals / fields of this that are assigned somewhere in f
        assigned = {}
        for n in f.events():
            w = write_of(n)
            if w and w[0] and n.kind == "BinaryOperator":
                assigned.setdefault(w[0], []).append(n)
        derived = {}   # local did -> cursor path
        for did, init in inits.items():
            for x in init.walk():
                if x.kind == "MemberExpr" and x.get("arrow"):
                    p = path(x.children[0]) if x.children else None
                    if p in assigned and (p[0].startswith("v:") or p[0] == "this") and not p[0].endswith("#%d" % did):
                        derived[did] = p
        if not derived:
            continue
        bad = []
        uses = [0]

        def transfer(n, s):
            if n.kind == "DeclStmt":
                for d in n.get("decls", []):
                    if d["d"] in derived:
                        s = s | {d["d"]}
            w = write_of(n)
            if w and w[0] and n.kind == "BinaryOperator":
                s = frozenset(d for d in s if derived[d] != w[0])
            if n.kind == "DeclRefExpr" and n.d["d"] in derived:
                par = f.parent(n)
                if not (par is not None and par.kind == "DeclStmt"):
                    uses[0] += 1
                    if n.d["d"] not in s:
                        bad.append("%s (loaded through %s) is used at %s after %s moved on" % (
                            n.n, ".".join(x.split("#")[0] for x in derived[n.d["d"]]), n.loc,
                            ".".join(x.split("#")[0] for x in derived[n.d["d"]])))
            return [s]
        flow.run(f, [frozenset()], transfer, None, limit=200000)
        ctx.inst(rule, f.sig, not bad, f.loc, "; ".join(sorted(set(bad))[:3]) if bad else
                 "%d uses of %d cursor-derived locals, all current" % (uses[0], len(derived)), f)


def check_conditional_snapshot(ctx, rule, fns, accessor_names=("h",)):
    """A local that snapshots a hook field  L = h(X).f  and is used after a write to that same h(X).f which happens on
    SOME of the paths between the snapshot and the use: on those paths the code continues with the old value, on the
    others with the current one, and nothing at the use distinguishes them.  (A write on EVERY path before the use is
    the deliberate save-old-value idiom and is fine; so is no write at all.)"""
    from .rules_tree import Ser
    for f in fns:
        ser = Ser(f, sound=True)
        ser.never = True
        inits = RA.local_inits(f)
        snaps = {}
        for did, init in inits.items():
            x = init.strip()
            if x.kind == "MemberExpr" and x.get("mk") == "Field" and x.children and not RA._reassigned(f, did):
                b = x.children[0].strip()
                if b.is_call() and b.callee and b.callee["n"] in accessor_names and b.args:
                    snaps[did] = (ser.expr(b.args[-1]), x.m)
        if not snaps:
            continue
        seen = {}      # (did, use node id) -> set of stale flags observed

        def transfer(n, st, f=f):
            if n.kind == "DeclStmt":
                for d in n.get("decls", []):
                    if d["d"] in snaps:
                        st = frozenset(x for x in st if x[0] != d["d"])
                return [st]
            hw = hook_write(n, accessor_names)
            if hw and hw[1] is not None:
                key = (ser.expr(hw[1]), hw[0])
                add = {(d, n.id) for d, k in snaps.items() if k == key}
                if add:
                    st = st | frozenset(add)
                return [st]
            if n.kind == "DeclRefExpr" and n.d.get("d") in snaps:
                par = f.parent(n)
                if not (par is not None and par.kind == "DeclStmt"):
                    seen.setdefault((n.d["d"], n.id), set()).add(frozenset(w for (d, w) in st if d == n.d["d"]))
            return [st]
        flow.run(f, [frozenset()], transfer, None, limit=200000)
        bad = []
        for (did, nid), flags in sorted(seen.items()):
            # the same writes to the snapshotted field must have happened on every path to this use
            if len(flags) > 1:
                obj, fld = snaps[did]
                bad.append("local snapshot of h(%s).%s is used at %s although that field is rewritten on some (not all) of the paths "
                           "leading there" % (obj, fld, f.node(nid).loc))
        ctx.inst(rule, f.sig, not bad, f.loc, "; ".join(sorted(set(bad))[:2]) if bad else
                 "%d field snapshots, each either never or always overwritten before its uses" % len(snaps), f)
