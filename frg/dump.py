"""Debug helper: python3 -m frg.dump <unit> <uq-substring> — prints event CFGs."""
import sys
from .ir import load_unit, canon

def show(fn):
    print("==", fn.qn, fn.get("targs", ""), fn.loc, "entry", fn.entry, "exit", fn.exit)
    for bid in sorted(fn.blocks, reverse=True):
        b = fn.blocks[bid]
        print(" B%d%s succs=%s reach=%s term=%s" % (bid, " NORET" if b.noret else "", b.succs, b.reach, b.termkind))
        for n in b.nodes():
            extra = ""
            if n.get("synthetic"):
                extra = str({k: v for k, v in n.d.items() if k not in ("i", "k", "synthetic")})[:150]
            else:
                extra = canon(n)[:150]
            print("    %4d %-26s %s   @%s" % (n.id, n.kind, extra, n.loc.split("/")[-1]))
        if b.cond is not None:
            print("    cond: #%d %s" % (b.cond, canon(fn.node(b.cond))[:150]))

if __name__ == "__main__":
    u = load_unit(sys.argv[1])
    for f in u.functions:
        if sys.argv[2] in f.qn or sys.argv[2] in f.uq:
            show(f)
