"""Y.bytewise-on-bytes: byte-wise library routines applied to typed storage.

memchr / strlen-style routines look for a zero BYTE and memcmp compares object representations.  Both are right for arrays of
byte-sized characters; a search over wider characters stops inside the first character that has a zero byte, and a byte
comparison is not the `==` of the element type where a value has several representations or a representation is not a value
(signed zeros and NaNs, padding, user-defined equality).

  search routines (memchr, strlen, strnlen, strchr, rawmemchr and their __builtin_ spellings): the pointer argument points to a
      byte-sized character type;
  memcmp / bcmp: the pointer arguments point to integers, enumerations' underlying integers, characters or pointers.

The element type is read off the argument expression underneath its conversions to `const void *`, so a cast does not hide
it.  Counts zero on the unchanged tree; the positive examples wit::probe_bytewise_search / wit::probe_bytewise_equal must be
recognised on every run."""
from .ir import AnalysisBroken, std_unwrap, canon

SEARCH = {"memchr", "strlen", "strnlen", "strchr", "strrchr", "rawmemchr", "memrchr"}
COMPARE = {"memcmp", "bcmp"}
BYTES = {"char", "signed char", "unsigned char", "char8_t", "std::byte", "uint8_t", "int8_t", "unsigned __int8"}
INTS = BYTES | {"short", "unsigned short", "int", "unsigned int", "long", "unsigned long", "long long", "unsigned long long",
                "wchar_t", "char16_t", "char32_t", "bool", "size_t", "uintptr_t", "intptr_t", "ptrdiff_t", "unsigned", "std::size_t",
                "uint16_t", "uint32_t", "uint64_t", "int16_t", "int32_t", "int64_t", "__int128", "unsigned __int128"}


def _pointee(arg):
    """type the argument pointed to before it was converted for the call: the innermost pointer type under the casts"""
    x = arg
    last = None
    hops = 0
    while x is not None and hops < 12:
        t = (x.get("t") or "").strip()
        if t.endswith("*") or t.endswith("]"):
            last = t
        if x.kind in ("ImplicitCastExpr", "CStyleCastExpr", "CXXStaticCastExpr", "CXXReinterpretCastExpr", "CXXConstCastExpr",
                      "CXXFunctionalCastExpr", "ParenExpr") and x.children:
            x, hops = x.children[0], hops + 1
            continue
        break
    if last is None:
        return None
    t = last
    if t.endswith("]"):
        t = t[:t.rindex("[")].strip()
    else:
        t = t[:-1].strip()
    for q in ("const ", "volatile ", " const", " volatile"):
        t = t.replace(q, " ")
    return " ".join(t.split())


def bytewise_calls(fn):
    out = []
    for n in fn.all_nodes():
        if not (n.is_call() and n.callee):
            continue
        nm = (n.callee.get("n") or "")
        if nm.startswith("__builtin_"):
            nm = nm[len("__builtin_"):]
        if nm not in SEARCH and nm not in COMPARE:
            continue
        for a in (n.args[:1] if nm in SEARCH else n.args[:2]):
            pt = _pointee(a)
            if pt is None or pt == "void":
                continue
            if nm in SEARCH:
                ok = pt in BYTES
                why = "%s() looks for a zero/given BYTE in an array of %s" % (nm, pt)
            else:
                ok = pt in INTS or pt.endswith("*")
                why = "%s() compares the bytes of %s objects, which is not their ==" % (nm, pt)
            out.append((n, nm, pt, ok, why))
    return out


def check_bytewise(ctx, unit, prefixes=("frg::",), rule="Y.bytewise-on-bytes"):
    ctx.rule(rule, "byte-wise routines on typed storage: memchr/strlen-style searches only over byte-sized characters, memcmp only "
             "over integers, characters and pointers (never floating point or class types): the element type is read underneath "
             "the conversion to void *", 1)
    probes = [f for f in unit.functions if f.uq in ("wit::probe_bytewise_search", "wit::probe_bytewise_equal")]
    seen = [c for f in probes for c in bytewise_calls(f) if not c[3]]
    if len(probes) < 2 or len(seen) < 2:
        raise AnalysisBroken("positive examples wit::probe_bytewise_* are not recognised (%d probes, %d reports)" % (len(probes), len(seen)))
    fns = [f for f in unit.functions if f.blocks and any(f.uq.startswith(p) for p in prefixes)]
    if not fns:
        raise AnalysisBroken("anchor vanished: no library function in unit %s" % unit.name)
    bad, n = [], 0
    for f in fns:
        for c, nm, pt, ok, why in bytewise_calls(f):
            n += 1
            if not ok:
                bad.append((c.loc, "%s: %s" % (f.sig, why), f))
    seenb = set()
    for loc, why, f in bad:
        if why in seenb:
            continue
        seenb.add(why)
        ctx.inst(rule, why[:150], False, loc, why, f)
    ctx.inst(rule, "unit %s" % unit.name, not bad, fns[0].loc,
             "%d functions, %d byte-wise calls with a typed argument, %d of them on a type they are not exact for" % (len(fns), n, len(bad)), None)


WIDE = ("wchar_t", "char16_t", "char32_t")


def check_literal_width(ctx, unit, prefixes=("frg::",), rule="Y.literal-width"):
    """A pointer that is read as wide characters never holds a narrow string literal: for every conversion of a `void *`
    local into `const wchar_t *` (char16_t, char32_t) the definitions of that local that reach the conversion are followed
    back through casts; a `"..."` among them (where `L"..."` was meant) is read as characters four times as wide, past its
    end."""
    from . import flow
    ctx.rule(rule, "no narrow string literal reaches a conversion to a wide-character pointer (the placeholder of a null %ls "
             "argument is a wide literal)", 1)
    fns = [f for f in unit.functions if f.blocks and any(f.uq.startswith(p) for p in prefixes)]
    n, bad = 0, []
    for f in fns:
        pos = None
        for x in f.all_nodes():
            if x.kind not in ("CStyleCastExpr", "CXXStaticCastExpr", "CXXReinterpretCastExpr", "ImplicitCastExpr") or not x.children:
                continue
            tt = (x.get("t") or "").replace("const ", "").replace(" ", "")
            if not any(tt == w + "*" for w in WIDE):
                continue
            n += 1
            # sources of the operand
            todo, seen = [x.children[0]], set()
            while todo:
                y = todo.pop()
                if y.id in seen or len(seen) > 60:
                    continue
                seen.add(y.id)
                z = std_unwrap(y)
                hops = 0
                while z.kind in ("CStyleCastExpr", "CXXStaticCastExpr", "CXXReinterpretCastExpr", "ImplicitCastExpr", "ParenExpr") and z.children and hops < 8:
                    z, hops = std_unwrap(z.children[0]), hops + 1
                if z.kind == "StringLiteral":
                    zt = (z.get("t") or "")
                    if not any(w in zt for w in WIDE):
                        bad.append((z.loc, "%s: the narrow literal at %s reaches the conversion to %s at %s" % (
                            f.sig, z.loc.split("/")[-1], x.get("t"), x.loc.split("/")[-1]), f))
                    continue
                if z.kind == "ConditionalOperator" and len(z.children) == 3:
                    todo += [z.children[1], z.children[2]]
                    continue
                if z.kind == "DeclRefExpr" and z.get("local"):
                    if pos is None:
                        pos = f.positions()
                    a, hops = x, 0
                    while a is not None and a.id not in pos and hops < 12:
                        a, hops = f.parent(a), hops + 1
                    if a is None:
                        continue
                    for d_ in flow.reaching_defs(f, z.d["d"], a.id):
                        if d_ is not None:
                            todo.append(d_)
    seenb = set()
    for loc, why, f in bad:
        if why not in seenb:
            seenb.add(why)
            ctx.inst(rule, why[:150], False, loc, why, f)
    ctx.inst(rule, "unit %s" % unit.name, not bad, fns[0].loc if fns else "",
             "%d conversions to wide-character pointers, %d of them reached by a narrow literal" % (n, len(bad)), None)
