"""Relational bounds of integer locals against ONE symbolic length L >= 0 (zone-like abstract domain).

Abstract value of an integer local x:  (lo, up)  meaning  lo <= x  and  x <= L + up   (lo in Z u {-INF}, up in Z u {+INF}).
The analysis is a classic non-disjunctive forward fixpoint over the event CFG with widening at the third visit of
a block, branch refinement on comparisons (through && / || / !, in either operand order) and transfer over
`x = e`, `x op= c`, `++x`, `--x`, declarations.  Unsigned locals that may have been decremented below zero are
treated as wrapped (any value).  A subscript `p[e]` is in range when bounds(e) = (lo, up) has lo >= 0 and up <= -1.

Loop form, direction of counting, where the decrement sits, whether the index is first copied to a local or a
`const T &` is bound to the element: none of that matters to the verdict.
"""
from .ir import path, std_unwrap

INF = 10 ** 12


def _clamp(v):
    return max(-INF, min(INF, v))


class RelBounds:
    def __init__(self, fn, is_len, entry=None, is_base=None):
        """is_len(node) -> True when the (stripped) expression denotes the length L.
        is_base(node) -> True when the expression denotes the start of the array the indices refer to (optional): pointer
        locals derived from it (`it = begin() + k`, `++it`) are then tracked by their offset, `base + L` (an end()
        accessor) is the length, and `it != end()` refines like `i != L`."""
        self.fn = fn
        self._is_len = is_len
        self.is_base = is_base
        self.at = {}          # element id -> state dict (a copy) just before the element
        self.entry = entry or {}
        self.ptrvars = set()
        if is_base is not None:
            grew = True
            while grew:
                grew = False
                for n in fn.all_nodes():
                    if n.kind == "DeclStmt":
                        for d in n.get("decls", []):
                            if "init" in d and d["d"] not in self.ptrvars and self._ptr_expr(fn.node(d["init"])):
                                self.ptrvars.add(d["d"])
                                grew = True

    def _is_end(self, n, depth=0):
        if self.is_base is None:
            return False
        n = std_unwrap(n)
        if n.kind == "BinaryOperator" and n.op == "+":
            a, b = n.children
            return (self.is_base(a) and self._is_len(std_unwrap(b))) or (self.is_base(b) and self._is_len(std_unwrap(a)))
        if n.kind == "DeclRefExpr" and n.get("local") and depth < 4:
            # `const Char *const end = base + length;`: a once-initialised, never reassigned local that holds the end
            from . import rules_atomic as _RA
            ini = _RA.local_inits(self.fn).get(n.d["d"])
            if ini is not None and not _RA._reassigned(self.fn, n.d["d"]):
                return self._is_end(ini, depth + 1)
        return False

    def is_len(self, n, depth=0):
        if bool(self._is_len(n)) or self._is_end(n):
            return True
        n = std_unwrap(n)
        if n.kind == "DeclRefExpr" and n.get("local") and depth < 4:
            # the length held in a once-initialised, never reassigned local (`const size_t num_chars = chars.size();`)
            from . import rules_atomic as _RA
            ini = _RA.local_inits(self.fn).get(n.d["d"])
            if ini is not None and not _RA._reassigned(self.fn, n.d["d"]):
                return self.is_len(ini, depth + 1)
        return False

    def _ptr_expr(self, n, depth=0):
        """pointer expression whose offset from the base is tracked"""
        if self.is_base is None or depth > 6:
            return False
        n = std_unwrap(n)
        if self.is_base(n) or self._is_end(n):
            return True
        if n.kind == "BinaryOperator" and n.op in ("+", "-") and (n.get("t") or "").rstrip().endswith("*"):
            return self._ptr_expr(n.children[0], depth + 1) or (n.op == "+" and self._ptr_expr(n.children[1], depth + 1))
        if n.kind == "DeclRefExpr" and n.get("local") and n.d["d"] in self.ptrvars:
            return True
        return False

    # ---- expressions ----------------------------------------------------------------------------------
    def unsigned(self, n):
        return n.get("sgn") is False

    def bounds(self, n, st):
        n = std_unwrap(n)
        if self.is_len(n):
            return (0, 0)
        if self.is_base is not None:
            if self.is_base(n):
                return (0, 0)
            if n.kind == "BinaryOperator" and n.op == "+" and (n.get("t") or "").rstrip().endswith("*"):
                a, b = n.children
                for p_, k_ in ((a, b), (b, a)):
                    if self.is_base(std_unwrap(p_)):
                        return self.bounds(k_, st)          # base + k has offset k
        c = n.cv() if n.kind not in ("DeclRefExpr", "MemberExpr") else None
        if c is not None:
            return (c, c if c <= 0 else INF)
        if n.kind == "DeclRefExpr" and n.get("local"):
            d = n.d["d"]
            if d in st:
                return st[d]
            return (0 if self.unsigned(n) else -INF, INF)
        if n.kind == "BinaryOperator" and n.op in ("+", "-"):
            a = self.bounds(n.children[0], st)
            cb = std_unwrap(n.children[1])
            k = cb.cv() if cb.kind not in ("DeclRefExpr", "MemberExpr") else None
            if k is not None:
                if n.op == "-":
                    k = -k
                lo, up = _clamp(a[0] + k) if a[0] > -INF else -INF, _clamp(a[1] + k) if a[1] < INF else INF
                if self.unsigned(n) and lo < 0:
                    return (0, INF)            # may wrap around
                return (lo, up)
            if n.op == "-" and self.is_len(cb) is False:
                pass
            # L - x : lo = -(up_x), relative to L: L - x <= L - lo_x
            if n.op == "-" and self.is_len(std_unwrap(n.children[0])):
                b = self.bounds(n.children[1], st)
                lo = -b[1] if b[1] < INF else -INF
                up = -b[0] if b[0] > -INF else INF
                if self.unsigned(n) and lo < 0:
                    return (0, INF)
                return (lo, up)
        return (0 if self.unsigned(n) else -INF, INF)

    # ---- transfer -------------------------------------------------------------------------------------------------
    def _var(self, n):
        n = n.strip()
        if n.kind == "DeclRefExpr" and n.get("local") and n.get("dk") in ("Var", "ParmVar") and n.d["d"] not in self.fn.bind_map():
            if n.get("dk") == "Var" and self.is_len(n):
                return None         # a local that only names the length is the length, not a variable
            t = n.get("t") or ""
            if t.endswith("*") and n.d["d"] in self.ptrvars:
                return n.d["d"]
            if t.endswith("*") or t.endswith("&"):
                return None
            return n.d["d"]
        return None

    def transfer(self, n, st):
        k = n.kind
        if k == "DeclStmt":
            for d in n.get("decls", []):
                if "init" in d:
                    init = self.fn.node(d["init"])
                    t = init.get("t") or ""
                    if (init.get("bits") and not t.endswith("*")) or d["d"] in self.ptrvars:
                        st = dict(st)
                        st[d["d"]] = self.bounds(init, st)
                elif d["d"] in st:
                    st = dict(st)
                    del st[d["d"]]
            return st
        if k == "ParamBind":
            return st
        if k == "BinaryOperator" and n.op == "=":
            v = self._var(n.children[0])
            if v is not None:
                st = dict(st)
                st[v] = self.bounds(n.children[1], st)
            return st
        if k == "CompoundAssignOperator" and n.op in ("+=", "-="):
            v = self._var(n.children[0])
            if v is not None:
                st = dict(st)
                cb = std_unwrap(n.children[1])
                c = cb.cv() if cb.kind not in ("DeclRefExpr", "MemberExpr") else None
                cur = st.get(v, self.bounds(n.children[0], st))
                if c is None:
                    st[v] = (0 if self.unsigned(n.children[0].strip()) else -INF, INF)
                else:
                    if n.op == "-=":
                        c = -c
                    st[v] = self._shift(cur, c, self.unsigned(n.children[0].strip()))
            return st
        if k == "CompoundAssignOperator":
            v = self._var(n.children[0])
            if v is not None:
                st = dict(st)
                st[v] = (0 if self.unsigned(n.children[0].strip()) else -INF, INF)
            return st
        if k == "UnaryOperator" and n.op in ("++", "--"):
            v = self._var(n.children[0])
            if v is not None:
                st = dict(st)
                cur = st.get(v, self.bounds(n.children[0], st))
                st[v] = self._shift(cur, 1 if n.op == "++" else -1, self.unsigned(n.children[0].strip()))
            return st
        if k == "UnaryOperator" and n.op == "&":
            v = self._var(n.children[0])
            if v is not None and v in st:        # address taken: anything may happen to it
                st = dict(st)
                del st[v]
            return st
        return st

    @staticmethod
    def _shift(cur, c, unsigned):
        lo = _clamp(cur[0] + c) if cur[0] > -INF else -INF
        up = _clamp(cur[1] + c) if cur[1] < INF else INF
        if unsigned and lo < 0:
            return (0, INF)
        return (lo, up)

    # ---- refinement -----------------------------------------------------------------------------------------------
    def refine(self, cond, truth, st):
        """-> refined state or None when the edge is infeasible."""
        c = cond.strip()
        if c.kind == "UnaryOperator" and c.op == "!":
            return self.refine(c.children[0], not truth, st)
        if c.kind == "BinaryOperator" and c.op in ("&&", "||"):
            if (c.op == "&&") == truth:
                s1 = self.refine(c.children[0], truth, st)
                if s1 is None:
                    return None
                return self.refine(c.children[1], truth, s1)
            return st
        if c.kind == "BinaryOperator" and c.op in ("<", "<=", ">", ">=", "==", "!="):
            a, b, op = c.children[0], c.children[1], c.op
            if not truth:
                op = {"<": ">=", "<=": ">", ">": "<=", ">=": "<", "==": "!=", "!=": "=="}[op]
            if op in (">", ">="):
                a, b, op = b, a, {">": "<", ">=": "<="}[op]
            st = dict(st)
            ba, bb = self.bounds(a, st), self.bounds(b, st)
            va, vb = self._var(std_unwrap(a)), self._var(std_unwrap(b))
            if op in ("<", "<="):
                k = 1 if op == "<" else 0
                # a <= b - k
                if va is not None:
                    up = bb[1] - k if bb[1] < INF else INF
                    st[va] = (ba[0], min(ba[1], up))
                if vb is not None:
                    lo = ba[0] + k if ba[0] > -INF else -INF
                    st[vb] = (max(bb[0], lo), bb[1])
            elif op == "==":
                if va is not None:
                    st[va] = (max(ba[0], bb[0]), min(ba[1], bb[1]))
                if vb is not None:
                    st[vb] = (max(ba[0], bb[0]), min(ba[1], bb[1]))
            elif op == "!=":
                # x != L with x <= L known: x <= L - 1
                for v_, mine, other_node in ((va, ba, b), (vb, bb, a)):
                    if v_ is not None and self.is_len(std_unwrap(other_node)) and mine[1] <= 0:
                        st[v_] = (mine[0], min(mine[1], -1))
                for v_, mine, other in ((va, ba, bb), (vb, bb, ba)):
                    if v_ is not None and other[0] == 0 and other[1] == 0 and not self.is_len(std_unwrap(b if v_ == va else a)) and mine[0] == 0:
                        st[v_] = (1, mine[1])
            return st
        v = self._var(c)
        if v is not None:
            cur = st.get(v, self.bounds(c, st))
            st = dict(st)
            if truth:
                if cur[0] == 0:
                    st[v] = (1, cur[1])
            else:
                st[v] = (max(cur[0], 0), min(cur[1], 0)) if cur[0] >= 0 else cur
            return st
        return st

    # ---- fixpoint -------------------------------------------------------------------------------------------------
    @staticmethod
    def _join(a, b):
        out = {}
        for k in a.keys() & b.keys():
            out[k] = (min(a[k][0], b[k][0]), max(a[k][1], b[k][1]))
        return out

    @staticmethod
    def _widen(old, new):
        out = {}
        for k in old.keys() & new.keys():
            lo = old[k][0] if new[k][0] >= old[k][0] else (0 if old[k][0] >= 0 and new[k][0] >= 0 else -INF)
            up = old[k][1] if new[k][1] <= old[k][1] else INF
            out[k] = (lo, up)
        return out

    def run(self):
        fn = self.fn
        ins = {fn.entry: dict(self.entry)}
        visits = {}
        work = [fn.entry]
        while work:
            bid = work.pop()
            blk = fn.blocks[bid]
            st = dict(ins[bid])
            for n in blk.nodes():
                self.at[n.id] = st
                st = self.transfer(n, st)
            if blk.noret:
                continue
            for succ, cond, truth in fn.branch_edges(bid):
                out = st if cond is None else self.refine(cond, truth, st)
                if out is None:
                    continue
                if succ not in ins:
                    ins[succ] = dict(out)
                    work.append(succ)
                    continue
                old = ins[succ]
                j = self._join(old, out)
                if j != old:
                    visits[succ] = visits.get(succ, 0) + 1
                    if visits[succ] > 3:
                        j = self._widen(old, j)
                    ins[succ] = j
                    if succ not in work:
                        work.append(succ)
        return self

    def index_ok(self, sub_elem, index_node):
        st = self.at.get(sub_elem.id)
        if st is None:
            return None, "unreachable"
        lo, up = self.bounds(index_node, st)
        ok = lo >= 0 and up <= -1
        def show(v):
            return "-inf" if v <= -INF else ("+inf" if v >= INF else str(v))
        return ok, "index in [%s, %s]" % (show(lo), "unbounded" if up >= INF else "L%+d" % up)
