"""Radix tree rules: C09 (index arithmetic, descent agreement, address stability) and
C10 (publication order, acquire/release table)."""
from .ir import path, canon, std_unwrap, AnalysisBroken
from . import flow
from . import rules_atomic as RA
from . import rules_bounds as RB
from .rules_guard import write_of

TREE = "frg::rcu_radixtree"


def _fn(unit, name, allow_many=False):
    fs = unit.fns(uq=TREE + "::" + name)
    if not fs:
        raise AnalysisBroken("anchor vanished: %s::%s" % (TREE, name))
    return fs


def local_aliases(fn):
    """did -> did of the variable it is a (cast) copy of, for once-initialised locals."""
    out = {}
    from .ir import value_leaves
    for did, init in RA.local_inits(fn).items():
        v = init.strip()
        if not (v.kind == "DeclRefExpr"):
            # a cast spelled as a small accessor (`as_leaf(n)`, folded in): what it returns
            ls = value_leaves(fn, init)
            if len(ls) == 1:
                v = std_unwrap(ls[0])
                hops = 0
                while v.kind in ("CXXStaticCastExpr", "CStyleCastExpr", "ImplicitCastExpr", "CXXReinterpretCastExpr") and v.children and hops < 6:
                    v, hops = std_unwrap(v.children[0]), hops + 1
        if v.kind == "DeclRefExpr" and v.get("dk") in ("Var", "ParmVar") and v.get("local") and not RA._reassigned(fn, did) and v.d["d"] != did:
            out[did] = v.d["d"]
    return out


def root_did(p):
    if p and (p[0].startswith("v:") or p[0].startswith("p:")):
        return int(p[0].rsplit("#", 1)[1])
    return None


def resolve_alias(al, did):
    seen = 0
    while did in al and seen < 10:
        did = al[did]
        seen += 1
    return did


def fresh_nodes(fn):
    """did of locals initialised from frg::construct<...>() (objects not yet reachable by readers)."""
    out = {}
    for did, init in RA.local_inits(fn).items():
        v = init.strip()
        if v.kind == "CallExpr" and v.callee and v.callee["uq"] == "frg::construct":
            out[did] = v
    return out


def node_writes(fn, fresh, al):
    """Elements that write into a fresh node: plain field writes, atomic stores on its fields,
    placement-new into its storage. -> [(element, did of node, field path tail)]"""
    out = []
    for n in fn.events():
        w = write_of(n)
        if w and w[0]:
            d = root_did(w[0])
            if d is not None and resolve_alias(al, d) in fresh and len(w[0]) > 1:
                out.append((n, resolve_alias(al, d), w[0][1:]))
        if n.kind == "CXXNewExpr" and n.get("placement"):
            pa = [fn.node(i) for i in n.get("pargs", [])]
            if pa:
                p = path(pa[0])
                d = root_did(p) if p else None
                if d is not None and resolve_alias(al, d) in fresh:
                    out.append((n, resolve_alias(al, d), p[1:]))
    for a in RA.accesses(fn):
        if a.op != "load" and a.obj:
            d = root_did(a.obj)
            if d is not None and resolve_alias(al, d) in fresh:
                out.append((a.node, resolve_alias(al, d), a.obj[1:]))
    return out


def check_C10(ctx, unit):
    ctx.rule("A1.publish-release", "every atomic store whose target is reachable by readers (the root, a link slot or "
             "the presence mask of a node that is not fresh in this activation) has release semantics", 5)
    ctx.rule("A1.reader-acquire", "every atomic load in find() has acquire semantics", 3)
    ctx.rule("A2.init-before-publish", "a fresh node is completely initialised (all header fields, every link slot, the "
             "value) before the store that publishes it, and nothing writes to a fresh node after any publishing store", 4)
    ctx.rule("A2.value-before-bit", "inserting into an existing leaf constructs the value before the release store of the "
             "mask, the new mask is old|bit; erase only clears its bit and frees nothing", 2)
    ctx.rule("E.find-guarded", "find() returns a value address only under (prefix matches) and (acquire-loaded mask has the bit)", 1)
    rec_fields = {}
    for r in unit.records:
        if r["uq"].startswith(TREE + "::"):
            rec_fields[r["uq"]] = r
    for f in _fn(unit, "find_or_insert"):
        al = local_aliases(f)
        fresh = fresh_nodes(f)
        if len(fresh) < 3:
            raise AnalysisBroken("anchor vanished: construct<> sites in find_or_insert (found %d)" % len(fresh))
        acc = RA.accesses(f)
        pubs = []
        cnt = 0
        for a in sorted([a for a in acc if a.op in ("store", "xchg", "cas", "rmw")], key=lambda a: a.loc):
            if not a.obj:
                ctx.broken("atomic store with unresolved target at %s" % a.loc)
                continue
            d = root_did(a.obj)
            is_fresh = d is not None and resolve_alias(al, d) in fresh
            if is_fresh:
                continue
            cnt += 1
            ok = a.order in RA.REL
            ctx.inst("A1.publish-release", "%s: publishing store #%d (%s)" % (f.uq, cnt, a.obj[-1] if a.obj[-1][0] != "[" else a.obj[-2]),
                     ok, a.loc, "store to %s is %s; needs release or stronger" % (".".join(a.obj), a.oname()), f)
            pubs.append(a)
        writes = node_writes(f, fresh, al)
        # completeness + order per publishing store of a fresh node
        pc = 0
        for a in pubs:
            v = std_unwrap(a.value) if a.value is not None else None
            vd = resolve_alias(al, v.d["d"]) if (v is not None and v.kind == "DeclRefExpr") else None
            if vd not in fresh:
                continue
            pc += 1
            problems = []
            # nothing written to any fresh node after this store
            for (w, d, tail) in writes:
                if f.reaches(a.node.id, w.id):
                    problems.append("write to fresh node field %s at %s can follow the publishing store" % (".".join(tail), w.loc))
            # the set of nodes published by this store: vd plus fresh nodes linked into it
            group = {vd}
            for (w, d, tail) in writes:
                if d == vd and w.kind == "CXXMemberCallExpr" and w.args:
                    x = std_unwrap(w.args[0])
                    if x.kind == "DeclRefExpr" and resolve_alias(al, x.d["d"]) in fresh:
                        group.add(resolve_alias(al, x.d["d"]))
            for g in group:
                ctor = fresh[g]
                rt = (ctor.callee.get("targs") or "")
                kind = "entry_node" if "entry_node" in rt else ("link_node" if "link_node" in rt else None)
                if kind is None:
                    problems.append("cannot tell the node kind constructed at %s" % ctor.loc)
                    continue
                need = {"prefix", "depth", "parent"} | ({"mask", "entries"} if kind == "entry_node" else {"links"})
                have = set()
                for (w, d, tail) in writes:
                    if d != g:
                        continue
                    dominating = f.dominates(w.id, a.node.id)
                    if tail[0] == "links" and len(tail) > 1 and tail[1] == "[*]" and not dominating:
                        # initialising loop over all slots: loop header must dominate, bound == extent
                        if _full_loop(f, w, a.node, rec_fields):
                            have.add("links*")
                        continue
                    if dominating:
                        have.add(tail[0])
                if kind == "link_node":
                    if "links*" not in have:
                        problems.append("link slots of the new inner node are not all initialised before it is published")
                    have.add("links") if "links*" in have else None
                miss = need - have
                if miss:
                    problems.append("%s %s: field(s) %s not written on every path before the publishing store" % (
                        kind, g, sorted(miss)))
            if len(group) > 1:
                # case 2: the old subtree must be linked into the new inner node before publication
                old_linked = False
                for (w, d, tail) in writes:
                    if d == vd and tail[0] == "links" and w.kind == "CXXMemberCallExpr" and w.args:
                        x = std_unwrap(w.args[0])
                        if x.kind == "DeclRefExpr" and resolve_alias(al, x.d["d"]) not in fresh and f.dominates(w.id, a.node.id):
                            old_linked = True
                if not old_linked:
                    problems.append("existing subtree is not linked into the new inner node before it is published")
            ctx.inst("A2.init-before-publish", "%s: publication #%d of fresh node" % (f.uq, pc), not problems, a.loc,
                     "; ".join(sorted(set(problems))) if problems else
                     "nodes %s fully initialised before %s" % (sorted(group), ".".join(a.obj)), f)
        # case 3
        mask_pubs = [a for a in pubs if a.obj[-1] == "mask"]
        for i, a in enumerate(mask_pubs):
            news = [n for n in f.events() if n.kind == "CXXNewExpr" and n.get("placement")
                    and path(f.node(n.get("pargs")[0])) and path(f.node(n.get("pargs")[0]))[0] == a.obj[0]]
            dom = any(f.dominates(n.id, a.node.id) for n in news)
            v = a.value.strip() if a.value is not None else None
            okv = False
            if v is not None and v.kind == "BinaryOperator" and v.op == "|":
                l = RA.resolve_local(f, v.children[0])
                okv = any(x.node.id == l.id and x.op == "load" and x.obj == a.obj for x in acc)
            ctx.inst("A2.value-before-bit", "%s: mask publication #%d" % (f.uq, i + 1), dom and okv, a.loc,
                     "value constructed before the mask store: %s; new mask is (loaded mask | bit): %s" % (dom, okv), f)
    for f in _fn(unit, "erase"):
        acc = RA.accesses(f)
        st = [a for a in acc if a.op != "load"]
        ok = len(st) == 1 and st[0].obj and st[0].obj[-1] == "mask" and st[0].order in RA.REL
        v = st[0].value.strip() if st and st[0].value is not None else None
        okv = v is not None and v.kind == "BinaryOperator" and v.op == "&"
        frees = [n for n in f.events() if n.is_call() and n.callee and (n.callee["uq"] in ("frg::destruct",) or n.callee["kind"] == "dtor")]
        frees += [n for n in f.events() if n.kind in ("CXXPseudoDestructorExpr", "CXXDeleteExpr")]
        ctx.inst("A2.value-before-bit", "%s: clears one bit only" % f.uq, ok and okv and not frees,
                 st[0].loc if st else f.loc,
                 "one release store to mask: %s; value is mask & ~bit: %s; destroy/free calls: %d" % (ok, okv, len(frees)), f)
        for i, a in enumerate(st):
            ctx.inst("A1.publish-release", "%s: publishing store #%d (%s)" % (f.uq, i + 1, a.obj[-1]),
                     a.order in RA.REL, a.loc, "store is %s" % a.oname(), f)
    for f in _fn(unit, "find"):
        acc = RA.accesses(f)
        lds = sorted([a for a in acc if a.op == "load"], key=lambda a: a.loc)
        if len(lds) < 3:
            raise AnalysisBroken("anchor vanished: atomic loads in find() (found %d)" % len(lds))
        for i, a in enumerate(lds):
            ctx.inst("A1.reader-acquire", "%s: load #%d (%s)" % (f.uq, i + 1, a.obj[-1] if a.obj and a.obj[-1][0] != "[" else (a.obj[-2] if a.obj else "?")),
                     a.order in RA.ACQ, a.loc, "load of %s is %s; readers need acquire" % (".".join(a.obj or ("?",)), a.oname()), f)
        wr = [a for a in acc if a.op != "load"]
        from .ir import exit_values
        # (every place the result is decided: early returns, or the assignments to a `result` local of a single-exit form)
        rets = [a_ for a_, v_ in exit_values(f) if v_ is not None
                and not (v_.strip().get("nullc") or v_.get("nullc") or v_.strip().kind == "CXXNullPtrLiteralExpr")]
        if not rets:
            raise AnalysisBroken("anchor vanished: value return in find()")
        for r in rets:
            facts = flow.facts_at(f, r.id)
            pfx_ok = bit_ok = False
            for cond, truth in facts:
                c, t = cond.strip(), truth
                while c.kind == "UnaryOperator" and c.op == "!":
                    c, t = c.children[0].strip(), not t
                cs = canon(c)
                if c.kind == "BinaryOperator" and "pfx_of" in cs and ".prefix" in cs and \
                        ((c.op == "!=" and not t) or (c.op == "==" and t)):
                    pfx_ok = True
                if c.kind == "BinaryOperator" and c.op == "&" and t:
                    l = RA.resolve_local(f, c.children[0])
                    if any(x.node.id == l.id and x.op == "load" and x.order in RA.ACQ and x.obj and x.obj[-1] == "mask" for x in acc):
                        bit_ok = True
            ctx.inst("E.find-guarded", "%s: value return" % f.uq, pfx_ok and bit_ok and not wr, r.loc,
                     "dominated by prefix match: %s; by acquire-loaded mask bit: %s; atomic writes in find: %d" % (pfx_ok, bit_ok, len(wr)), f)


def _full_loop(fn, w, pub, rec_fields):
    """w is a store to links[i] inside `for(i = 0; i < N; ++i)` with N == extent(links), and the loop
    header dominates the publishing store."""
    pos = fn.positions()
    if w.id not in pos:
        return False
    extent = None
    for r in rec_fields.values():
        for fl in r["fields"]:
            if fl["n"] == "links" and fl.get("extent"):
                extent = int(fl["extent"])
    if extent is None:
        return False
    wb = pos[w.id][0]
    dom = fn.dominators()
    for hb in dom.get(wb, ()):
        blk = fn.blocks[hb]
        if blk.termkind != "ForStmt" or blk.cond is None:
            continue
        c = fn.node(blk.cond).strip()
        if c.kind == "BinaryOperator" and c.op == "<" and c.children[1].strip().cv() == extent:
            # induction variable starts at 0 and subscripts links
            iv = c.children[0].strip()
            init = RA.local_inits(fn).get(iv.d["d"]) if iv.kind == "DeclRefExpr" else None
            if init is not None and init.strip().cv() == 0 and fn.dominates_block(hb, pos[pub.id][0]):
                return True
    return False


# ------------------------------------------------------------------ C09

def check_C09(ctx, unit):
    ctx.rule("B3.shift-range", "shift counts in pfx_of/idx_of stay inside [0, 64) for every depth in the documented "
             "domain [0, 15]", 2)
    ctx.rule("E.index-of-own-depth", "every subscript of a node's link/entry array in find/find_or_insert/erase is "
             "idx_of(key, that node's own depth), and a mask bit tested or set for a slot uses the same index", 8)
    ctx.rule("E.descent-agreement", "find, find_or_insert and erase agree on the prefix test, the leaf test (depth == ll) "
             "and the key used for indexing", 3)
    ctx.rule("O.entry-stable", "entry storage is never moved, copied or freed outside the destructor, and a value is "
             "placement-constructed only into a fresh leaf or under a clear mask bit; find_or_insert reports false only "
             "on the bit-set path, which constructs nothing", 2)
    ll = 15
    for f in _fn(unit, "pfx_of"):
        RB.check_shifts(ctx, "B3.shift-range", f, {f.params()[1]["n"]: RB.Iv(0, ll)})
    for f in _fn(unit, "idx_of"):
        RB.check_shifts(ctx, "B3.shift-range", f, {f.params()[1]["n"]: RB.Iv(0, ll)})
    sigs = {}
    for name in ("find", "find_or_insert", "erase"):
        for f in _fn(unit, name):
            al = local_aliases(f)
            fresh = fresh_nodes(f)
            inits = RA.local_inits(f)
            # depth assigned to fresh nodes
            fresh_depth = {}
            for n in f.events():
                w = write_of(n)
                if w and w[0] and len(w[0]) == 2 and w[0][1] == "depth" and w[1] is not None:
                    d = root_did(w[0])
                    if d is not None and resolve_alias(al, d) in fresh:
                        fresh_depth[resolve_alias(al, d)] = canon(w[1])
            kparam = [f.params()[0]["d"]] if f.params() and "int" in f.params()[0]["t"] or (f.params() and "uint64" in f.params()[0]["t"]) else []
            if not kparam:
                raise AnalysisBroken("anchor vanished: key parameter k of %s" % f.qn)
            cnt = 0
            subs = [n for n in f.events() if n.kind == "ArraySubscriptExpr"]
            subs.sort(key=lambda n: n.loc)
            for n in subs:
                base = n.children[0]
                bp = path(base)
                if not bp or bp[-1] not in ("links", "entries"):
                    continue
                yd = root_did(bp)
                if yd is None:
                    continue
                yd = resolve_alias(al, yd)
                idx = RA.resolve_local(f, n.children[1], inits)
                if idx.kind == "DeclRefExpr" and idx.get("local") and RA._reassigned(f, idx.d["d"]):
                    idx = std_unwrap(RA.resolve_at(f, n.children[1]))      # (an index variable assigned once per iteration)
                hops_ = 0
                while idx.kind == "DeclRefExpr" and idx.d.get("d") in f.bind_map() and hops_ < 6:
                    # parameter of a folded helper (entry_at(leaf, idx)): the caller's index
                    idx, hops_ = RA.resolve_local(f, std_unwrap(f.node(f.bind_map()[idx.d["d"]])), inits), hops_ + 1
                cnt += 1
                inst = "%s: %s[] #%d" % (f.uq, bp[-1], cnt)
                if idx.kind == "DeclRefExpr" and _is_loop_var(f, idx):
                    ctx.inst("E.index-of-own-depth", inst, True, n.loc, "initialising loop over all slots", f, nontrivial=False)
                    continue
                ok, why = False, ""
                if idx.kind in ("CXXMemberCallExpr", "CallExpr") and idx.callee and idx.callee["n"] == "idx_of":
                    karg, darg = std_unwrap(idx.args[0]), idx.args[1]
                    # depth must be Y.depth (alias-resolved) or the value assigned to fresh Y.depth
                    dp = path(darg)
                    depth_ok = False
                    if dp and dp[-1] == "depth" and root_did(dp) is not None and resolve_alias(al, root_did(dp)) == yd:
                        depth_ok = True
                    elif yd in fresh_depth and canon(darg) == fresh_depth[yd]:
                        depth_ok = True
                    key_ok = karg.kind == "DeclRefExpr" and karg.d["d"] in kparam
                    if not key_ok:
                        kp = path(karg)
                        # slot of an existing node stored into a fresh inner node: keyed by that node's prefix
                        par = f.parent(n)
                        gp = f.parent(par) if par is not None else None
                        stored = None
                        for x in (par, gp, f.parent(gp) if gp is not None else None):
                            if x is not None and x.kind == "CXXMemberCallExpr" and x.callee and x.callee["n"] == "store" and x.args:
                                stored = path(x.args[0])
                        if kp and kp[-1] == "prefix" and stored and kp[0] == stored[0]:
                            key_ok = True
                    ok = depth_ok and key_ok
                    why = "index %s; depth is the subscripted node's own: %s; key ok: %s" % (canon(idx), depth_ok, key_ok)
                else:
                    why = "index %s is not idx_of(key, depth)" % canon(idx)
                ctx.inst("E.index-of-own-depth", inst, ok, n.loc, why, f)
            # mask-bit shifts use the same index as the entries subscript of the same node
            ent_idx = {}
            for n in subs:
                bp = path(n.children[0])
                if bp and bp[-1] == "entries" and root_did(bp) is not None:
                    ent_idx.setdefault(resolve_alias(al, root_did(bp)), set()).add(canon(RA.resolve_local(f, n.children[1], inits)))
            sh = [n for n in f.events() if n.kind == "BinaryOperator" and n.op == "<<" and n.children[0].strip().cv() == 1]
            sh.sort(key=lambda n: n.loc)
            for i, n in enumerate(sh):
                ci = canon(RA.resolve_local(f, n.children[1], inits))
                allidx = set().union(*ent_idx.values()) if ent_idx else set()
                ok = ci in allidx
                if not ok:
                    ix = RA.resolve_local(f, n.children[1], inits)
                    if ix.kind == "DeclRefExpr" and ix.get("local") and RA._reassigned(f, ix.d["d"]):
                        ix = std_unwrap(RA.resolve_at(f, n.children[1]))
                    if ix.kind in ("CXXMemberCallExpr", "CallExpr") and ix.callee and ix.callee["n"] == "idx_of":
                        ka = std_unwrap(ix.args[0])
                        dp = path(ix.args[1])
                        ok = ka.kind == "DeclRefExpr" and ka.d["d"] in kparam and bool(dp) and dp[-1] == "depth"
                ctx.inst("E.index-of-own-depth", "%s: mask bit #%d" % (f.uq, i + 1), ok, n.loc,
                         "bit index %s; entry subscripts in this function: %s" % (ci, sorted(allidx)), f)
            # descent signature
            sig = {"prefix": set(), "leaf": set(), "key": set()}
            cursor = None
            # the tests may sit in a branch condition or be captured in a bool local first: look at every comparison
            for c in [None]:
                for x in f.all_nodes():
                    if x.kind == "BinaryOperator" and x.op in ("==", "!="):
                        l, r = x.children
                        for a, b in ((l, r), (r, l)):
                            a_, b_ = a.strip(), b.strip()
                            if a_.kind in ("CXXMemberCallExpr", "CallExpr") and a_.callee and a_.callee["n"] == "pfx_of":
                                pb = path(b_)
                                pd = path(a_.args[1])
                                if pb and pb[-1] == "prefix" and pd and pd[-1] == "depth" and pd[0] == pb[0]:
                                    ka = a_.args[0].strip()
                                    sig["prefix"].add("pfx_of(k, N.depth) vs N.prefix" if ka.kind == "DeclRefExpr" and ka.d["d"] in kparam
                                                      else "pfx_of(%s, N.depth) vs N.prefix" % canon(ka))
                            pa = path(a_)
                            if pa and pa[-1] == "depth" and len(pa) == 2 and b_.cv() is not None and a_.kind == "MemberExpr":
                                sig["leaf"].add("N.depth %s %d" % ("==", b_.cv()))
            sigs[name] = sig
            ctx.inst("E.descent-agreement", "%s: descent tests" % f.uq,
                     len(sig["prefix"]) >= 1 and all(s.startswith("pfx_of(k,") for s in sig["prefix"]) and sig["leaf"] == {"N.depth == %d" % ll},
                     f.loc, "prefix tests %s; leaf tests %s" % (sorted(sig["prefix"]), sorted(sig["leaf"])), f)
    # the depth of the inner node that a split inserts: a counter that is only advanced past digits that were compared
    ctx.rule("E.split-depth-tested", "the depth given to the inner node of a split counts common leading digits: the counter is "
             "advanced only on a path on which pfx_of(k, d+1) == pfx_of(sibling prefix, d+1) was just found true", 1)
    n_split = 0
    for f in _fn(unit, "find_or_insert"):
        fresh = fresh_nodes(f)
        al = local_aliases(f)
        dvars = set()
        for n in f.events():
            w = write_of(n)
            if w and w[0] and len(w[0]) == 2 and w[0][1] == "depth" and w[1] is not None:
                d = root_did(w[0])
                v = std_unwrap(w[1])
                if d is not None and resolve_alias(al, d) in fresh and v.kind == "DeclRefExpr" and v.get("local") and v.cv() is None \
                        and v.d["d"] not in {p_["d"] for p_ in f.params()}:
                    dvars.add(v.d["d"])
        for dv in sorted(dvars):
            n_split += 1
            bad = []

            def is_dv(x, dv=dv):
                x = x.strip()
                return x.kind == "DeclRefExpr" and x.d["d"] == dv

            def next_digit_test(c, dv=dv):
                c = c.strip()
                if not (c.kind == "BinaryOperator" and c.op in ("==", "!=")):
                    return None
                sides = []
                for a in c.children:
                    a = std_unwrap(a)
                    if not (a.is_call() and a.callee and a.callee["n"] == "pfx_of" and len(a.args) >= 2):
                        return None
                    d = a.args[-1].strip()
                    if not (d.kind == "BinaryOperator" and d.op == "+" and ((is_dv(d.children[0]) and d.children[1].strip().cv() == 1) or
                                                                            (is_dv(d.children[1]) and d.children[0].strip().cv() == 1))):
                        return None
                    sides.append(canon(a.args[-2]))
                if len(set(sides)) != 2:
                    return None
                return c.op

            def transfer(n, st, dv=dv):
                adv = False
                if n.kind == "UnaryOperator" and n.op == "++" and is_dv(n.children[0]):
                    adv = True
                elif n.kind == "CompoundAssignOperator" and n.op == "+=" and is_dv(n.children[0]) and n.children[1].strip().cv() == 1:
                    adv = True
                elif n.kind == "BinaryOperator" and n.op == "=" and is_dv(n.children[0]):
                    r = n.children[1].strip()
                    if r.kind == "BinaryOperator" and r.op == "+" and any(is_dv(c_) for c_ in r.children):
                        adv = True
                    else:
                        return ["untested"]
                if adv:
                    if st != "tested":
                        bad.append(n.loc)
                    return ["untested"]
                return [st]

            def refine(cond, truth, st):
                op = next_digit_test(cond)
                if op is None:
                    return [st]
                return ["tested" if (op == "==") == truth else "untested"]
            flow.run(f, ["untested"], transfer, refine)
            ctx.inst("E.split-depth-tested", "%s: depth counter #%d" % (f.uq, n_split), not bad, (bad[0] if bad else f.loc),
                     ("the counter is advanced at %s on a path that did not compare digit d+1 of the key with digit d+1 of the "
                      "sibling's prefix: the split node may get a depth at which the two already differ" % bad[0]) if bad else
                     "every advance follows a successful comparison of the next digit", f)
    if n_split == 0:
        raise AnalysisBroken("anchor vanished: depth counter of the split node in find_or_insert")
    check_iterator_present(ctx, unit)
    check_leaf_walk_total(ctx, unit)
    check_parent_matches_link(ctx, unit)
    # address stability
    for r in unit.record(TREE):
        inst = r["qn"]
        fns = [f for f in unit.functions if (f.owner_clsqn or "").startswith(inst)]
        bad = []
        n_new = 0
        for f in fns:
            for n in f.events():
                if n.is_call() and n.callee and n.callee["uq"] == "frg::destruct" and "entry_node" in (n.callee.get("targs") or "") \
                        and f.kind != "dtor":
                    bad.append("%s frees an entry_node at %s" % (f.uq, n.loc))
                if n.is_call() and n.callee and n.callee["n"] in ("memcpy", "memmove"):
                    bad.append("%s copies raw memory at %s" % (f.uq, n.loc))
                w = write_of(n)
                if w and w[0] and "entries" in w[0] and n.kind != "CtorInit":
                    bad.append("%s assigns into entry storage at %s" % (f.uq, n.loc))
                if n.kind == "CXXNewExpr" and n.get("placement"):
                    pp = path(f.node(n.get("pargs")[0]))
                    if pp and "entries" in pp:
                        n_new += 1
                        d = resolve_alias(local_aliases(f), root_did(pp)) if root_did(pp) is not None else None
                        if d in fresh_nodes(f):
                            continue
                        clear = False
                        for cond, truth in flow.facts_at(f, n.id):
                            c, t = cond.strip(), truth
                            while c.kind == "UnaryOperator" and c.op == "!":
                                c, t = c.children[0].strip(), not t
                            if c.kind == "BinaryOperator" and c.op == "&" and t is False and "<<" in canon(c):
                                clear = True
                        if not clear:
                            bad.append("%s constructs a value over an existing leaf slot at %s without the mask bit known clear" % (f.uq, n.loc))
        ctx.inst("O.entry-stable", TREE + "::<entry storage>", not bad and n_new >= 3, r["loc"],
                 "; ".join(bad) if bad else "%d placement constructions examined in %d functions" % (n_new, len(fns)))
    for f in _fn(unit, "find_or_insert"):
        rets = [n for n in f.events() if n.kind == "ReturnStmt"]
        nf = 0
        bad = []
        news = [n for n in f.events() if n.kind == "CXXNewExpr"]
        for r in rets:
            v = r.child("val").strip() if r.child("val") is not None else None
            flag = None
            if v is not None:
                for x in v.walk():
                    if x.kind == "CXXBoolLiteralExpr":
                        flag = bool(x.get("bv"))
            if flag is False:
                nf += 1
                set_ok = False
                for cond, truth in flow.facts_at(f, r.id):
                    c, t = cond.strip(), truth
                    while c.kind == "UnaryOperator" and c.op == "!":
                        c, t = c.children[0].strip(), not t
                    if c.kind == "BinaryOperator" and c.op == "&" and t is True:
                        set_ok = True
                if not set_ok:
                    bad.append("returns 'not inserted' at %s without the mask bit known set" % r.loc)
                if any(f.reaches(n.id, r.id) for n in news):
                    bad.append("a value is constructed on a path that reports 'not inserted' (%s)" % r.loc)
            elif flag is True:
                if not any(f.dominates(n.id, r.id) for n in news):
                    bad.append("returns 'inserted' at %s without constructing a value on that path" % r.loc)
        ctx.inst("O.entry-stable", "%s: inserted flag" % f.uq, not bad and nf >= 1, f.loc,
                 "; ".join(bad) if bad else "%d returns examined, %d report 'not inserted'" % (len(rets), nf), f)


def _is_loop_var(fn, idx):
    did = idx.d["d"]
    for blk in fn.blocks.values():
        if blk.termkind == "ForStmt" and blk.cond is not None:
            c = fn.node(blk.cond).strip()
            if c.kind == "BinaryOperator":
                l = c.children[0].strip()
                if l.kind == "DeclRefExpr" and l.d["d"] == did:
                    return True
    return False


def check_radix_dtor(ctx, unit, rule="O6.radix-dtor"):
    ctx.rule(rule, "~rcu_radixtree destroys exactly the entries whose mask bit is set, releases both node kinds through "
             "frg::destruct, and clears a link before descending into it (so no node is visited after it was freed)", 1)
    from .rules_own import is_dtor_call
    fs = [f for f in unit.functions if f.owner_cls == TREE and f.kind == "dtor"]
    if not fs:
        raise AnalysisBroken("anchor vanished: ~rcu_radixtree")
    for f in fs:
        problems = []
        dts = [n for n in f.events() if is_dtor_call(n) is not None]
        if not dts:
            problems.append("no element destructor call")
        for d in dts:
            ok = False
            for cond, truth in flow.facts_at(f, d.id):
                c, t = cond.strip(), truth
                while c.kind == "UnaryOperator" and c.op == "!":
                    c, t = c.children[0].strip(), not t
                if c.kind == "BinaryOperator" and c.op == "&" and t and "<<" in canon(c):
                    ok = True
            if not ok:
                problems.append("value destroyed at %s without its mask bit known set" % d.loc)
        kinds = set()
        for n in f.events():
            if n.is_call() and n.callee and n.callee["uq"] == "frg::destruct":
                ta = n.callee.get("targs") or ""
                kinds.add("entry_node" if "entry_node" in ta else ("link_node" if "link_node" in ta else ta))
        if kinds != {"entry_node", "link_node"}:
            problems.append("node kinds released: %s" % sorted(kinds))
        # descending: tn = cn->links[idx] must be followed (same path, before leaving the loop) by links[idx] = null
        inits_l = RA.local_inits(f)
        ref_dids = {d_["d"] for n_ in f.all_nodes() if n_.kind == "DeclStmt" for d_ in n_.get("decls", [])
                    if (d_.get("t") or "").rstrip().endswith("&") or (d_.get("n") or "").startswith("__")}

        def of_links(x, depth=0):
            """x mentions the links array -- directly, or as the element variable of a range-based for over it"""
            if "links" in canon(x):
                return True
            if depth > 5:
                return False
            for y in x.walk():
                if y.kind == "DeclRefExpr" and y.get("local") and y.d["d"] in inits_l and y.d["d"] in ref_dids:
                    if of_links(inits_l[y.d["d"]], depth + 1):
                        return True
            return False
        desc = [n for n in f.events() if n.kind == "BinaryOperator" and n.op == "=" and of_links(n.children[1])
                and path(n.children[0]) and len(path(n.children[0])) == 1]
        # (the link may equally be taken into a freshly declared local)
        desc += [n for n in f.events() if n.kind == "DeclStmt" and any(
            "init" in d and (d.get("t") or "").rstrip().endswith("*") and not (d.get("n") or "").startswith("__")
            and "atomic" not in (d.get("t") or "") and of_links(f.node(d["init"])) for d in n.get("decls", []))]
        for dsc in desc:
            cleared = False
            for n in f.events():
                if n.is_call() and n.callee and n.callee["n"] in ("operator=", "store") and of_links(n) and \
                        f.postdominates(n.id, dsc.id):
                    a = n.args[-1].strip() if n.args else None
                    if a is not None and (a.get("nullc") or a.kind == "CXXNullPtrLiteralExpr" or any(x.kind == "CXXNullPtrLiteralExpr" for x in a.walk())):
                        cleared = True
            if not cleared:
                problems.append("link taken at %s is not cleared before descending" % dsc.loc)
        if not desc:
            problems.append("no descent into child links found")
        ctx.inst(rule, TREE + "::~rcu_radixtree", not problems, f.loc,
                 "; ".join(problems) if problems else "%d element destructions guarded by the mask bit; both node kinds released; links cleared before descent" % len(dts), f)


def check_entry_reuse(ctx, unit):
    """erase() only clears the presence bit: the value is neither destroyed nor handed back.  find_or_insert() later
    placement-constructs a new value into that very slot: a new object is constructed over one that was never destroyed
    (its resources leak), the destructor of the tree skips slots with a clear bit, and a reader that obtained the address
    before the erase watches the constructor run.  Either erase (after a grace period the caller can signal) or the
    re-insertion has to end the old value's lifetime."""
    ctx.rule("O.entry-reuse", "a slot of an existing leaf is constructed into only if the value it held before was destroyed: "
             "erase() (or the re-inserting path) runs the destructor of the erased value", 1)
    er = _fn(unit, "erase")
    fi = _fn(unit, "find_or_insert")
    for f in er[:1]:
        dtors = [n for n in f.events() if (n.is_call() and n.callee and (n.callee.get("kind") == "dtor" or n.callee["uq"] in ("frg::destruct",)))
                 or n.kind in ("CXXPseudoDestructorExpr",)]
        g = fi[0]
        fresh = fresh_nodes(g)
        al = local_aliases(g)
        reuse = []
        redestroy = False
        for n in g.events():
            if n.kind == "CXXNewExpr" and n.get("placement"):
                pp = path(g.node(n.get("pargs")[0]))
                if pp and "entries" in pp:
                    d = resolve_alias(al, root_did(pp)) if root_did(pp) is not None else None
                    if d not in fresh:
                        reuse.append(n)
        for n in g.events():
            if n.is_call() and n.callee and n.callee.get("kind") == "dtor":
                redestroy = True
        ok = bool(dtors) or redestroy or not reuse
        ctx.inst("O.entry-reuse", TREE + "::erase / find_or_insert", ok, f.loc,
                 ("erase() runs no destructor and find_or_insert() constructs into the slot of an existing leaf at %s: insert(k); erase(k); "
                  "insert(k) constructs a new value over a live one and the erased value is never destroyed" % reuse[0].loc) if not ok else
                 "erased values are destroyed before their slot is reused", f)



# ---- E.iterator-present: an iterator position handed out designates a slot whose mask bit was seen set -------------------

def _strip_casts(x):
    hops = 0
    x = std_unwrap(x)
    while x.kind in ("CStyleCastExpr", "CXXStaticCastExpr", "ImplicitCastExpr", "ParenExpr", "CXXFunctionalCastExpr") and x.children and hops < 8:
        x, hops = std_unwrap(x.children[0]), hops + 1
    return x


def _mask_owner(f, m):
    """canon of the node whose mask is loaded by expression m (possibly shifted right, possibly held in a local)"""
    for _ in range(6):
        m = _strip_casts(RA.resolve_local(f, _strip_casts(m)))
        if m.kind == "BinaryOperator" and m.op == ">>":
            m = m.children[0]
            continue
        break
    m = _strip_casts(m)
    if m.kind == "CXXMemberCallExpr" and m.callee and m.callee["n"] == "load" and m.child("obj") is not None:
        o = std_unwrap(m.child("obj"))
        if o.kind == "MemberExpr" and o.m == "mask" and o.children:
            return canon(std_unwrap(o.children[0]))
    return None


def _bit_test(c):
    c = _strip_casts(c)
    if c.kind == "BinaryOperator" and c.op == "&":
        for a, b in ((c.children[0], c.children[1]), (c.children[1], c.children[0])):
            b_ = _strip_casts(b)
            if b_.kind == "BinaryOperator" and b_.op == "<<" and _strip_casts(b_.children[0]).cv() == 1:
                return a, b_.children[1]
    return None


def check_iterator_present(ctx, unit, rule="E.iterator-present"):
    ctx.rule(rule, "begin() and operator++ hand out a position (leaf, index) only when that leaf's mask bit for the index was seen "
             "set on that path (tested directly, or the index is the count of trailing zeros of a mask known to be non-zero), or "
             "the end position", 2)
    n_inst = 0
    for f in unit.functions:
        oc = f.owner_cls or ""
        if not oc.startswith(TREE):
            continue
        sites = []      # (at node, node canon, index node or None-for-field, label)
        if f.name == "begin" and oc == TREE:
            for r in f.events():
                if r.kind == "ReturnStmt" and r.child("val") is not None:
                    for x in r.child("val").walk():
                        if x.kind in ("CXXTemporaryObjectExpr", "CXXConstructExpr", "InitListExpr") and "iterator" in (x.get("t") or ""):
                            a = x.args if x.kind != "InitListExpr" else x.children
                            if len(a) == 2:
                                sites.append((r, canon(std_unwrap(a[0])), a[1], "iterator{leaf, index}"))
                            break
        elif f.name == "operator++" and oc.endswith("::iterator"):
            for r in f.events():
                if r.kind == "ReturnStmt":
                    sites.append((r, "this._n", None, "return"))
            # falling off the end of the function is an exit like any other
            live = f.reachable_blocks()
            for pb in f.blocks[f.exit].preds:
                blk = f.blocks[pb]
                if pb not in live or f.exit not in blk.live_succs():
                    continue        # e.g. the continuation block of a folded bool helper whose every return was threaded past it
                ns = blk.nodes()
                if ns and not any(x.kind == "ReturnStmt" for x in ns) and blk.termkind != "ReturnStmt":
                    sites.append((ns[-1], "this._n", None, "end of function"))
        for k, (at, ncanon, inode, what) in enumerate(sites):
            facts = list(flow.facts_at(f, at.id))
            if what == "end of function":
                # ... reached over the edge on which the block's own condition came out one way (`} while(_n);`)
                for succ, cond, truth in f.branch_edges(f.positions()[at.id][0]):
                    if succ == f.exit and cond is not None and truth is not None:
                        facts.append((cond, truth))
            ok, why = False, "no test of the mask bit for this index (and no non-zero mask behind a trailing-zero count) dominates it"
            for cond, truth in facts:
                cs = cond.strip()
                # the end position: the leaf pointer is null
                t, c2 = truth, cs
                while c2.kind == "UnaryOperator" and c2.op == "!":
                    c2, t = c2.children[0].strip(), not t
                if inode is None and not t and path(c2) == ("this", "_n"):
                    ok, why = True, "end position (no further leaf)"
                bt = _bit_test(cs) if truth else None
                if bt is not None:
                    mo = _mask_owner(f, bt[0])
                    idx_same = (path(bt[1]) == ("this", "_idx")) if inode is None else (canon(std_unwrap(bt[1])) == canon(std_unwrap(inode)))
                    node_same = mo is not None and (mo == ncanon or (inode is None and mo in ("this._n", canon_this_n(f))))
                    if idx_same and node_same:
                        ok, why = True, "mask bit tested for this leaf and index"
            if not ok:
                # path by path: a small forward analysis over (index-like variable -> "its mask bit was seen set" / "it is
                # >= 16"), copied along assignments and through the value a folded search helper returns; a guard `x < 16`
                # prunes the paths on which x is known >= 16 (`idx = first_slot(from, pred); if(idx < 16) return {n, idx};`)
                seen_states = []

                def keyof_(x):
                    x = std_unwrap(x)
                    hops = 0
                    while x.kind in ("ImplicitCastExpr", "CStyleCastExpr", "CXXStaticCastExpr", "ParenExpr") and x.children and hops < 6:
                        x, hops = std_unwrap(x.children[0]), hops + 1
                    if x.kind == "DeclRefExpr" and x.get("local"):
                        return ("v", x.d["d"])
                    p_ = path(x)
                    if p_ and p_[-1] == "_idx":
                        return ("p",) + tuple(p_)
                    return None

                def value_key(e):
                    from .ir import value_leaves as _vl3
                    ls = _vl3(f, e)
                    return keyof_(ls[0]) if len(ls) == 1 else None

                def tr_(n, st):
                    if n.id == at.id:
                        seen_states.append(st)
                    tgt, rhs = None, None
                    if n.kind == "BinaryOperator" and n.op == "=":
                        tgt, rhs = keyof_(n.children[0]), n.children[1]
                    elif n.kind == "DeclStmt":
                        for d_ in n.get("decls", []):
                            if "init" in d_:
                                st = tr_assign(st, ("v", d_["d"]), f.node(d_["init"]))
                        return [st]
                    elif n.kind == "ParamBind" and n.d.get("init") is not None:
                        return [tr_assign(st, ("v", n.d["d"]), f.node(n.d["init"]))]
                    elif n.kind in ("UnaryOperator", "CompoundAssignOperator") and n.get("op") in ("++", "--", "+=", "-=") and n.children:
                        k_ = keyof_(n.children[0])
                        if k_ is not None:
                            return [frozenset(x for x in st if x[1] != k_)]
                    if tgt is not None:
                        return [tr_assign(st, tgt, rhs)]
                    return [st]

                def tr_assign(st, tgt, rhs):
                    st = frozenset(x for x in st if x[1] != tgt)
                    src = value_key(rhs)
                    if src is not None and src != tgt:
                        st = st | frozenset((x[0], tgt) for x in st if x[1] == src)
                    elif std_unwrap(rhs).cv() is not None and std_unwrap(rhs).cv() >= 16:
                        st = st | {("ge", tgt)}
                    return st

                def rf_(cond, truth, st):
                    cs = cond.strip()
                    t = truth
                    if cs.kind == "BinaryOperator" and cs.op == "&&" and not t:
                        # (A && B) false where A is known true on this path: B is false
                        a0, b0 = cs.children[0], cs.children[1]
                        ra = flow.fact_relation(a0, True)
                        if ra is not None and ra[1] == "<" and keyof_(ra[0]) is not None and std_unwrap(ra[2]).cv() == 16 \
                                and ("lt", keyof_(ra[0])) in st:
                            return rf_(b0, False, st)
                        return [st]
                    if cs.kind == "BinaryOperator" and cs.op == "&&" and t:
                        out_ = [st]
                        for part in (cs.children[0], cs.children[1]):
                            out_ = [s2 for s1 in out_ for s2 in rf_(part, True, s1)]
                        return out_
                    while cs.kind == "UnaryOperator" and cs.op == "!":
                        cs, t = cs.children[0].strip(), not t
                    hops = 0
                    while cs.d.get("inlined") and isinstance(cs.d.get("rets"), list) and len(cs.d["rets"]) == 1 and hops < 4:
                        cs, hops = f.node(cs.d["rets"][0]).strip(), hops + 1
                        while cs.kind == "UnaryOperator" and cs.op == "!":
                            cs, t = cs.children[0].strip(), not t
                    bt = _bit_test(cs) if t else None
                    if bt is not None:
                        mo = _mask_owner(f, bt[0])
                        node_same = mo is not None and (mo == ncanon or (inode is None and mo in ("this._n", canon_this_n(f))))
                        k_ = keyof_(bt[1])
                        if node_same and k_ is not None:
                            return [st | {("bit", k_)}]
                    rel = flow.fact_relation(cond, truth)
                    if rel is not None:
                        a_, op_, b_ = rel
                        ka, kb = keyof_(a_), keyof_(b_)
                        ca, cb_ = std_unwrap(a_).cv(), std_unwrap(b_).cv()
                        # x < 16 true with x known >= 16: not this path;  16 <= x (x < 16 false): x >= 16
                        if op_ in ("<",) and ka is not None and cb_ == 16 and ("ge", ka) in st:
                            return []
                        if op_ == "<" and ka is not None and cb_ == 16:
                            return [st | {("lt", ka)}]
                        if op_ == "!=" and ka is not None and cb_ == 16 and ("ge", ka) in st:
                            return []
                        if op_ == "<=" and kb is not None and ca == 16:
                            return [st | {("ge", kb)}]
                        if op_ == "==" and ka is not None and cb_ == 16:
                            return [st | {("ge", ka)}]
                    return [st]
                try:
                    flow.run(f, [frozenset()], tr_, rf_, limit=100000)
                    want = ("p", "this", "_idx") if inode is None else keyof_(inode)
                    if want is not None and seen_states and all(("bit", want) in st_ for st_ in seen_states):
                        ok, why = True, "on every path to this position the mask bit of its index was seen set (followed through the search helper)"
                except flow.TooManyStates:
                    pass
            if not ok:
                # index = count of trailing zeros of M, with M known non-zero on this path
                tz = None
                if inode is not None:
                    v = _strip_casts(RA.resolve_local(f, _strip_casts(inode)))
                    if v.is_call() and v.callee and v.callee["n"] in ("__builtin_ctz", "__builtin_ctzl", "__builtin_ctzll", "countr_zero") and v.args:
                        tz = v.args[0]
                else:
                    blk = f.blocks[f.positions()[at.id][0]]
                    for e in blk.elems:
                        if e == at.id:
                            break
                        x = f.node(e)
                        if x.kind in ("CompoundAssignOperator", "BinaryOperator") and x.get("op") in ("+=", "=") and path(x.children[0]) == ("this", "_idx"):
                            for y in x.children[1].walk():
                                if y.is_call() and y.callee and y.callee["n"] in ("__builtin_ctz", "__builtin_ctzl", "__builtin_ctzll", "countr_zero") and y.args:
                                    tz = y.args[0]
                if tz is not None:
                    mo = _mask_owner(f, tz)
                    for cond, truth in facts:
                        cs = _strip_casts(cond)
                        if truth and canon(cs) == canon(_strip_casts(tz)) and mo is not None and (mo == ncanon or inode is None):
                            ok, why = True, "index is the trailing-zero count of a mask tested non-zero"
                    if not ok:
                        why = "the index is the trailing-zero count of a mask that is not known to be non-zero on this path (an emptied leaf has mask 0)"
            n_inst += 1
            ctx.inst(rule, "%s: %s #%d" % (f.uq, what, k + 1), ok, at.loc, why, f)
    if n_inst < 2:
        raise AnalysisBroken("anchor vanished: positions handed out by begin()/operator++ of the radix tree iterator")


def check_parent_matches_link(ctx, unit, rule="H.parent-matches-link"):
    """The destructor and the iterator climb through `parent`; find_or_insert links downwards.  Wherever a node X is stored
    into a link slot of node Y, the parent field of X was assigned Y on the way (resolved through locals and casts; a value
    read from a parent field that the function has itself just overwritten is the value it wrote there)."""
    from .rules_attr import _is_null
    ctx.rule(rule, "find_or_insert: every node stored into `Y->links[..]` has had its parent field set to Y before the store "
             "(a parent that does not match the link makes the destructor's climb free a node twice or skip one)", 3)
    fs = [f for f in unit.functions if (f.owner_cls or "") == TREE and f.name == "find_or_insert"]
    if not fs:
        raise AnalysisBroken("anchor vanished: rcu_radixtree::find_or_insert")
    for f in fs[:1]:
        inits = RA.local_inits(f)

        def res(e):
            # through casts and alias locals (`auto cp = static_cast<link_node *>(p)`), never into what a node was built from
            x = _strip_casts(e)
            hops = 0
            while x.kind == "DeclRefExpr" and x.get("local") and x.d["d"] in inits and not RA._reassigned(f, x.d["d"]) and hops < 8:
                y = _strip_casts(inits[x.d["d"]])
                if y.kind not in ("DeclRefExpr", "MemberExpr"):
                    break
                x, hops = y, hops + 1
            return x
        pw = []     # (node, owner canon, value node)
        for n in f.events():
            if n.kind == "BinaryOperator" and n.op == "=":
                l = n.children[0].strip()
                if l.kind == "MemberExpr" and l.get("m") == "parent" and l.children:
                    pw.append((n, canon(res(l.children[0])), n.children[1]))

        def value_of(w):
            n, own, v = w
            x = res(v)
            if x.kind == "MemberExpr" and x.get("m") == "parent" and x.children:
                src = canon(res(x.children[0]))
                prev = [w2 for w2 in pw if w2[1] == src and f.dominates(w2[0].id, n.id) and w2[0].id != n.id]
                if prev:
                    return value_of(prev[-1])
            return canon(x)
        k = 0
        for n in sorted([x for x in f.events() if x.kind == "CXXMemberCallExpr" and x.callee and x.callee["n"] == "store" and x.args], key=lambda x: x.loc):
            o = n.child("obj")
            if o is None:
                continue
            ob = std_unwrap(o)
            if ob.kind != "ArraySubscriptExpr":
                continue
            base = ob.children[0].strip()
            if base.kind == "ImplicitCastExpr" and base.children:
                base = base.children[0].strip()
            if base.kind != "MemberExpr" or base.get("m") != "links" or not base.children:
                continue
            if _is_null(n.args[0]):
                continue
            k += 1
            Y, X = canon(res(base.children[0])), canon(res(n.args[0]))
            ws = [w for w in pw if w[1] == X and f.dominates(w[0].id, n.id)]
            vals = [value_of(w) for w in ws]
            ok = bool(ws) and vals[-1] == Y
            ctx.inst(rule, "%s::find_or_insert: link store #%d" % (TREE, k), ok, n.loc,
                     "%s is stored into a link of %s; its parent field was set to %s" % (
                         X.split("#")[0], Y.split("#")[0], (vals[-1].split("#")[0] if vals else "nothing")), f)
        if k < 3:
            raise AnalysisBroken("anchor vanished: stores of nodes into link slots in find_or_insert (found %d)" % k)


def check_leaf_walk_total(ctx, unit, rule="E.leaf-walk-total"):
    """operator++ and begin() take a null from next_leaf() for "no further leaf".  So next_leaf() may produce null only where it
    has climbed past the root (the parent link of its cursor is null); wherever it hands on the result of another member
    (first_leaf of a sibling subtree), that member must not be able to return null there -- its own null returns are all
    under "my argument is null", and the argument is tested non-null at the call."""
    from .ir import value_leaves
    from .rules_attr import _is_null
    ctx.rule(rule, "next_leaf() returns null only where the parent link of its cursor is null; a member whose result it forwards "
             "(first_leaf) returns null only for a null argument, and is called with an argument tested non-null: a null from "
             "next_leaf never hides leaves that follow", 1)
    fs = {}
    for f in unit.functions:
        if (f.owner_cls or "") == TREE:
            fs.setdefault(f.name, f)
    nl = fs.get("next_leaf")
    if nl is None:
        raise AnalysisBroken("anchor vanished: rcu_radixtree::next_leaf")
    memo = {}

    def neg_fact(cond, truth):
        c, t = cond.strip(), truth
        while c.kind == "UnaryOperator" and c.op == "!":
            c, t = c.children[0].strip(), not t
        return std_unwrap(c), t

    def null_returns(g, depth=0):
        """[(where, param index or None)]: returns of g whose value may be null; param index k: only when parameter k is null"""
        if g.d["did"] in memo:
            return memo[g.d["did"]]
        memo[g.d["did"]] = []
        out = []
        params = [p_["d"] for p_ in g.params()]
        for r in g.return_nodes():
            for x in value_leaves(g, r.child("val")):
                facts = flow.facts_at(g, r.id)
                if _is_null(x):
                    k = None
                    for cond, truth in facts:
                        cu, t = neg_fact(cond, truth)
                        if not t and cu.kind == "DeclRefExpr" and cu.d.get("d") in params and not RA._reassigned_before(g, cu.d["d"], r.id):
                            k = params.index(cu.d["d"])
                    out.append((r.loc, k))
                else:
                    c = _strip_casts(x)
                    if c.is_call() and c.callee and c.callee["n"] in fs and depth < 6 and fs[c.callee["n"]].d["did"] != g.d["did"]:
                        for loc, k in null_returns(fs[c.callee["n"]], depth + 1):
                            a = c.args[k] if (k is not None and len(c.args) > k) else None
                            known = a is not None and any(t_ and canon(_strip_casts(cd_)) == canon(_strip_casts(a)) for cd_, t_ in flow.facts_at(g, c.id))
                            if not known:
                                out.append((r.loc, None))
        memo[g.d["did"]] = out
        return out
    inits = RA.local_inits(nl)

    def from_parent(e):
        e = _strip_casts(e)
        return e.kind == "MemberExpr" and e.get("m") == "parent"
    bad = []
    n_ret = 0
    for r in nl.return_nodes():
        n_ret += 1
        for x in value_leaves(nl, r.child("val")):
            facts = flow.facts_at(nl, r.id)
            if _is_null(x):
                top = False
                for cond, truth in facts:
                    cu, t = neg_fact(cond, truth)
                    if t:
                        continue
                    if from_parent(cu):
                        top = True
                    if cu.kind == "DeclRefExpr":
                        if cu.d.get("d") in inits and from_parent(inits[cu.d["d"]]):
                            top = True
                        # a cursor re-assigned from a parent link on the way round (`for(p = n->parent; p; p = n->parent)`)
                        for y in nl.all_nodes():
                            if y.kind == "BinaryOperator" and y.op == "=" and std_unwrap(y.children[0]).kind == "DeclRefExpr" \
                                    and std_unwrap(y.children[0]).d.get("d") == cu.d.get("d") and from_parent(y.children[1]):
                                top = True
                if not top:
                    bad.append("returns null at %s although the parent link of the cursor is not known to be null there" % r.loc)
            else:
                c = _strip_casts(x)
                if c.is_call() and c.callee and c.callee["n"] in fs and fs[c.callee["n"]].d["did"] != nl.d["did"]:
                    for loc, k in null_returns(fs[c.callee["n"]]):
                        a = c.args[k] if (k is not None and len(c.args) > k) else None
                        known = a is not None and any(t_ and canon(_strip_casts(cd_)) == canon(_strip_casts(a)) for cd_, t_ in flow.facts_at(nl, c.id))
                        if not known:
                            bad.append("hands on the result of %s() at %s, which may be null (%s): the walk would end with leaves still ahead" % (
                                c.callee["n"], r.loc, loc))
    if n_ret < 2:
        raise AnalysisBroken("anchor vanished: return sites of next_leaf (found %d)" % n_ret)
    ctx.inst(rule, TREE + "::next_leaf", not bad, nl.loc, "; ".join(sorted(set(bad))[:2]) if bad else
             "%d return sites: null only past the root, forwarded results cannot be null" % n_ret, nl)


def canon_this_n(f):
    return "this._n"


def check_depth_shifts(ctx, unit, rule="B3.depth-shift"):
    """Every shift in the radix tree whose count is computed from a node's `depth` (outside pfx_of / idx_of, which B3.shift-range
    decides with their parameter domains) is evaluated for every depth a node can have, 0..15, under the decisions on that
    depth that dominate it: the count stays inside [0, 64).  `x << (64 - depth * 4)` is a shift by 64 for a root at depth 0."""
    ctx.rule(rule, "rcu_radixtree: a shift count computed from a node's depth is within [0, 64) for every depth 0..15 that the "
             "dominating decisions admit", 0)
    fns = [f for f in unit.functions if (f.owner_cls or "").startswith("frg::rcu_radixtree") and f.blocks and f.name not in ("pfx_of", "idx_of")]
    if not fns:
        raise AnalysisBroken("anchor vanished: members of rcu_radixtree")

    def ev(x, d):
        x = std_unwrap(x)
        hops = 0
        while x.kind in ("ImplicitCastExpr", "CStyleCastExpr", "CXXStaticCastExpr", "CXXFunctionalCastExpr", "ParenExpr") and x.children and hops < 8:
            x, hops = std_unwrap(x.children[0]), hops + 1
        p = path(x)
        if p and p[-1] == "depth":
            return d
        c = x.cv()
        if c is not None:
            return c
        if x.kind == "DeclRefExpr" and x.get("local"):
            i = RA.local_inits(x.fn).get(x.d["d"])
            if i is not None and not RA._reassigned(x.fn, x.d["d"]):
                return ev(i, d)
            return None
        if x.kind == "BinaryOperator" and x.op in ("+", "-", "*") and len(x.children) == 2:
            a, b = ev(x.children[0], d), ev(x.children[1], d)
            if a is None or b is None:
                return None
            return a + b if x.op == "+" else (a - b if x.op == "-" else a * b)
        return None
    n_sites, bad = 0, []
    for f in fns:
        for s in f.all_nodes():
            if s.kind not in ("BinaryOperator", "CompoundAssignOperator") or s.get("op") not in ("<<", ">>", "<<=", ">>="):
                continue
            cnt = s.children[1]
            if not any((path(y) or ("",))[-1] == "depth" for y in [cnt] + list(cnt.walk())) and \
                    not any(y.kind == "DeclRefExpr" and y.get("local") and y.d["d"] in RA.local_inits(f) and any(
                        (path(z) or ("",))[-1] == "depth" for z in RA.local_inits(f)[y.d["d"]].walk()) for y in [std_unwrap(cnt)] + list(cnt.walk())):
                continue
            n_sites += 1
            pos = f.positions()
            a, hops = s, 0
            while a is not None and a.id not in pos and hops < 12:
                a, hops = f.parent(a), hops + 1
            facts = flow.facts_at(f, a.id) if a is not None else []
            for d in range(16):
                feasible = True
                for c, t in facts:
                    v = flow.sem_eval(c, lambda leaf, d=d: (d if (path(leaf) or ("",))[-1] == "depth" else None))
                    if v is not None and bool(v) != bool(t):
                        feasible = False
                if not feasible:
                    continue
                v = ev(cnt, d)
                if v is not None and not (0 <= v < 64):
                    bad.append((s.loc, "%s: shift by %s at %s is a shift by %d for depth %d" % (f.name, _ids(canon(cnt)) if "_ids" in globals() else canon(cnt), s.loc.split("/")[-1], v, d), f))
                    break
    seen = set()
    for loc, why, f in bad:
        if why not in seen:
            seen.add(why)
            ctx.inst(rule, why[:140], False, loc, why, f)
    ctx.inst(rule, "rcu_radixtree: shifts by a depth-derived count", not bad, fns[0].loc,
             "%d such shifts outside pfx_of/idx_of, %d out of range for some depth" % (n_sites, len(bad)), None, nontrivial=bool(n_sites))


def check_insert_forwards(ctx, unit, rule="A2.insert-constructs-in-place"):
    """insert(k, args...) is find_or_insert(k, args...): the value is constructed from the caller's arguments BEFORE its mask
    bit is published.  An insert that lets find_or_insert publish a default-constructed value and assigns the real one
    afterwards shows concurrent readers a value that was never inserted."""
    ctx.rule(rule, "rcu_radixtree::insert hands all its arguments to find_or_insert and stores nothing through the entry pointer it "
             "gets back (the published value is the inserted one, not a placeholder assigned later)", 1)
    fs = [f for f in unit.functions if (f.owner_cls or "") == "frg::rcu_radixtree" and f.name == "insert" and f.blocks]
    if not fs:
        raise AnalysisBroken("anchor vanished: rcu_radixtree::insert")
    for f in fs:
        calls = [n for n in f.all_nodes() if n.is_call() and n.callee and n.callee["n"] == "find_or_insert"]
        bad = []
        if not calls:
            bad.append("does not call find_or_insert")
        for c in calls:
            if len(c.args) != len(f.params()):
                bad.append("find_or_insert is handed %d of the %d arguments at %s" % (len(c.args), len(f.params()), c.loc.split("/")[-1]))
        for n in f.all_nodes():
            lhs = None
            if n.kind == "BinaryOperator" and n.op == "=":
                lhs = n.children[0]
            elif n.kind == "CXXOperatorCallExpr" and n.callee and n.callee.get("op") == "=" and n.args:
                lhs = n.args[0]
            if lhs is not None:
                l = std_unwrap(lhs)
                if l.kind == "UnaryOperator" and l.op == "*" or (l.kind == "MemberExpr" and l.get("arrow")):
                    bad.append("stores through a pointer at %s after the entry was published" % n.loc.split("/")[-1])
        ctx.inst(rule, "%s(%s)" % (f.uq, ", ".join(p["t"] for p in f.params())), not bad, f.loc,
                 "; ".join(bad[:2]) if bad else "forwards %d arguments, no store through the returned entry" % len(f.params()), f)


def check_walk_slots(ctx, unit, rule="E.index-of-own-depth"):
    """The leaf walk (first_leaf / next_leaf, the iterator) finds a node's slot in its parent by scanning the parent's links.
    If a slot is COMPUTED there, it is idx_of(prefix or key, depth) with the depth FIELD of the node whose links are walked
    next: arithmetic on a node's own depth (`n->depth - 1`) is not its parent's depth -- with path compression the parent
    may sit several levels higher."""
    fs = [f for f in unit.functions if (f.owner_cls or "").startswith("frg::rcu_radixtree") and f.blocks
          and f.name not in ("find", "find_or_insert", "erase", "pfx_of", "idx_of", "insert")]
    k = 0
    for f in fs:
        al = local_aliases(f)
        subscripted = set()
        for x in f.events():
            if x.kind == "ArraySubscriptExpr":
                bp = path(x.children[0])
                if bp and bp[-1] == "links" and root_did(bp) is not None:
                    subscripted.add(resolve_alias(al, root_did(bp)))
        for c in f.all_nodes():
            if not (c.kind in ("CXXMemberCallExpr", "CallExpr") and c.callee and c.callee["n"] == "idx_of" and len(c.args) >= 2):
                continue
            k += 1
            dp = path(c.args[-1])
            own = bool(dp) and dp[-1] == "depth" and root_did(dp) is not None
            ok = own and (not subscripted or resolve_alias(al, root_did(dp)) in subscripted)
            ctx.inst(rule, "%s: computed slot #%d (leaf walk)" % (f.uq, k), ok, c.loc,
                     "slot %s: the depth is the depth field of a node whose links are subscripted here: %s" % (canon(c)[:80], ok), f)
