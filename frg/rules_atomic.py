"""A — atomic access table, order floors, RMW requirements, publication order."""
from .ir import path, canon, std_unwrap, AnalysisBroken
from . import flow

ORDER_NAMES = {0: "relaxed", 1: "consume", 2: "acquire", 3: "release", 4: "acq_rel", 5: "seq_cst"}
ACQ = {2, 4, 5}      # orders with acquire semantics
REL = {3, 4, 5}      # orders with release semantics

STD_ATOMIC_OPS = {
    "load": "load", "store": "store", "exchange": "xchg",
    "fetch_add": "rmw", "fetch_sub": "rmw", "fetch_and": "rmw", "fetch_or": "rmw", "fetch_xor": "rmw",
    "compare_exchange_weak": "cas", "compare_exchange_strong": "cas",
    "operator++": "rmw", "operator--": "rmw", "operator+=": "rmw", "operator-=": "rmw",
    "operator=": "store", "operator unsigned long": "load", "operator unsigned int": "load",
}
BUILTIN_OPS = {
    "__atomic_load_n": "load", "__atomic_load": "load", "__atomic_store_n": "store", "__atomic_store": "store",
    "__atomic_exchange_n": "xchg", "__atomic_exchange": "xchg",
    "__atomic_compare_exchange_n": "cas", "__atomic_compare_exchange": "cas",
}


class Access:
    def __init__(self, node, fn, obj, op, name, order, order_fail=None, value=None):
        self.node, self.fn, self.obj, self.op, self.name = node, fn, obj, op, name
        self.order, self.order_fail, self.value = order, order_fail, value

    @property
    def loc(self):
        return self.node.loc

    def oname(self):
        return ORDER_NAMES.get(self.order, "non-constant")

    def __repr__(self):
        return "<%s %s %s %s @%s>" % (self.name, ".".join(self.obj or ("?",)), self.op, self.oname(), self.loc)


def _order_of(n):
    if n is None:
        return None
    c = n.strip().cv()
    if c is None:
        # constexpr variable std::memory_order_x read as lvalue carries cv on the DeclRefExpr
        for x in n.walk():
            if x.get("cv") is not None:
                return int(x.get("cv"))
    return c


def accesses(fn):
    """All atomic accesses in fn as Access objects, in CFG element order per block."""
    out = []
    for n in fn.events():
        if n.kind == "AtomicExpr":
            an = n.get("aname")
            op = BUILTIN_OPS.get(an)
            if op is None:
                op = "rmw" if "fetch" in an or an.endswith("_fetch") else None
            if op is None:
                continue
            obj = path(n.child("ptr"))
            order = _order_of(n.child("order"))
            of = _order_of(n.child("orderfail")) if n.get("orderfail") is not None else None
            val = n.child("val1") if n.get("val1") is not None else None
            if op == "cas":
                val = n.child("val2") if n.get("val2") is not None else None
            out.append(Access(n, fn, obj, op, an, order, of, val))
        elif n.kind in ("CXXMemberCallExpr", "CXXOperatorCallExpr") and n.callee and \
                n.callee.get("cls") in ("std::atomic", "std::__atomic_base", "std::atomic_flag"):
            nm = n.callee["n"]
            op = STD_ATOMIC_OPS.get(nm)
            if nm.startswith("operator ") and op is None:
                op = "load"
            if op is None:
                continue
            if n.kind == "CXXMemberCallExpr":
                obj = path(n.child("obj"))
                args = n.args
            else:
                a = n.args
                obj = path(a[0]) if a else None
                args = a[1:]
            order, of, val = 5, None, None  # operators are seq_cst
            if nm in ("load",):
                order = _order_of(args[0]) if args else 5
            elif nm in ("store", "exchange") or nm.startswith("fetch_"):
                val = args[0] if args else None
                order = _order_of(args[1]) if len(args) > 1 else 5
            elif nm.startswith("compare_exchange"):
                val = args[1] if len(args) > 1 else None
                order = _order_of(args[2]) if len(args) > 2 else 5
                of = _order_of(args[3]) if len(args) > 3 else None
            out.append(Access(n, fn, obj, op, nm, order, of, val))
    return out


def last_decisions_at_exit(fn):
    """Set of (cond node id, truth) pairs: the last two-way branch decision on each
    normal path to the function exit (None if a path has no branch)."""
    def transfer(n, s):
        return [s]

    def refine(cond, truth, s):
        if cond.strip().cv() is not None:
            return [s]           # constant conditions (while(true), do{}while(0)) decide nothing
        return [(cond.id, truth)]
    _, ex = flow.run(fn, [None], transfer, refine)
    return ex


def implies_eq(cond, truth):
    """If taking `cond == truth` implies a == b, return (a, b) nodes."""
    c = cond.strip()
    hops = 0
    while hops < 8:
        hops += 1
        if c.kind == "UnaryOperator" and c.op == "!":
            c = c.children[0].strip()
            truth = not truth
            continue
        x = c
        while x.kind in ("ImplicitCastExpr", "ParenExpr", "ExprWithCleanups") and x.children:
            x = x.children[0].strip()
        if x.d.get("inlined") and isinstance(x.d.get("rets"), list) and len(x.d["rets"]) == 1:
            c = c.fn.node(x.d["rets"][0]).strip()       # the predicate of a folded closure (`spin_until([&]{ return a == b; })`)
            continue
        break
    if c.kind == "BinaryOperator" and ((c.op == "==" and truth) or (c.op == "!=" and not truth)):
        return c.children[0], c.children[1]
    return None


def local_inits(fn):
    """decl id -> init node for locals declared with an initialiser (single definition)."""
    out = {}
    for n in fn.all_nodes():
        if n.kind == "DeclStmt":
            for d in n.get("decls", []):
                if "init" in d:
                    out[d["d"]] = fn.node(d["init"])
    return out


def resolve_local(fn, n, inits=None):
    """Follow a read of a once-initialised, never reassigned local to its initialiser."""
    inits = inits if inits is not None else local_inits(fn)
    n = n.strip()
    seen = 0
    while n.kind == "DeclRefExpr" and n.get("local") and n.d["d"] in inits and seen < 10:
        did = n.d["d"]
        if _reassigned(fn, did):
            break
        n = inits[did].strip()
        seen += 1
    return n


def _reassigned(fn, did):
    for x in fn.all_nodes():
        if x.kind in ("BinaryOperator", "CompoundAssignOperator") and x.get("op", "").endswith("=") \
                and x.op not in ("==", "!=", "<=", ">="):
            l = x.children[0].strip()
            if l.kind == "DeclRefExpr" and l.d["d"] == did:
                return True
        if x.kind == "UnaryOperator" and x.op in ("++", "--", "&"):
            l = x.children[0].strip()
            if l.kind == "DeclRefExpr" and l.d["d"] == did:
                return True
    return False


# ---- spinlocks (C12) -----------------------------------------------------

def check_spinlocks(ctx, unit):
    ctx.rule("A.ticket.draw", "ticket lock: the ticket is drawn by one atomic read-modify-write fetch_add(1) "
             "(a load/store pair would hand two waiters the same ticket)", 1)
    ctx.rule("A.ticket.enter", "ticket lock: every exit of lock() is the decision 'acquire-load(serving) == my ticket'", 1)
    ctx.rule("A.ticket.release", "ticket lock: unlock() publishes serving+1 with a release (or stronger) store, "
             "the only atomic write", 1)
    ctx.rule("A.simple.enter", "simple lock: every exit of lock() is the decision 'exchange(true) with acquire "
             "(or stronger) returned false'", 1)
    ctx.rule("A.simple.release", "simple lock: unlock() stores false with release (or stronger), the only atomic write", 1)

    def one(uq):
        fs = unit.fns(uq=uq)
        if len(fs) != 1:
            raise AnalysisBroken("anchor vanished: %s" % uq)
        return fs[0]

    # ticket
    lk, ul = one("frg::ticket_spinlock::lock"), one("frg::ticket_spinlock::unlock")
    acc = accesses(lk)
    rmw = [a for a in acc if a.op in ("rmw", "xchg", "cas")]
    ok = len(rmw) == 1 and rmw[0].name.endswith("fetch_add") and rmw[0].value is not None \
        and rmw[0].value.strip().cv() == 1 and not [a for a in acc if a.op == "store"]
    ctx.inst("A.ticket.draw", "frg::ticket_spinlock::lock", ok, lk.loc,
             "atomic accesses in lock(): %s" % acc, lk)
    next_field = rmw[0].obj if rmw else None
    inits = local_inits(lk)
    decs = last_decisions_at_exit(lk)
    bad = []
    for d in decs:
        if d is None:
            bad.append("a path reaches the exit without any decision")
            continue
        cond = lk.node(d[0])
        eq = implies_eq(cond, d[1])
        if not eq:
            bad.append("exit decision %s=%s does not establish serving == ticket" % (canon(cond), d[1]))
            continue
        sides = [resolve_local(lk, x, inits) for x in eq]
        loads = [a for a in acc if a.op == "load" and any(a.node.id == s.id for s in sides)]
        tick = [s for s in sides if rmw and s.id == rmw[0].node.id]
        if len(loads) != 1 or len(tick) != 1:
            bad.append("exit decision %s does not compare an atomic load with the drawn ticket" % canon(cond))
            continue
        if loads[0].order not in ACQ:
            bad.append("spin load at %s is %s, needs acquire or stronger" % (loads[0].loc, loads[0].oname()))
        if loads[0].obj == next_field:
            bad.append("spin load reads the ticket dispenser, not the serving counter")
    ctx.inst("A.ticket.enter", "frg::ticket_spinlock::lock", not bad and bool(decs), lk.loc,
             "; ".join(bad) if bad else "all %d exit decisions are acquire-load(serving)==ticket" % len(decs), lk)
    acc_u = accesses(ul)
    writes = [a for a in acc_u if a.op != "load"]
    bad = []
    if len(writes) != 1 or writes[0].op != "store":
        bad.append("expected exactly one atomic store, found %s" % writes)
    else:
        w = writes[0]
        if w.order not in REL:
            bad.append("hand-over store at %s is %s, needs release or stronger" % (w.loc, w.oname()))
        if w.obj == next_field or w.obj is None:
            bad.append("hand-over store targets %s" % (w.obj,))
        v = w.value.strip() if w.value is not None else None
        okv = False
        if v is not None:
            # the stored value, as a polynomial over the atomic loads of the function, on every path to the store:
            # load(serving) + 1 whether it is spelled `load + 1`, `++local`, `local += 1` or through several locals
            from .poly import Poly, to_poly
            loads = {l.node.id: l for l in acc_u if l.op == "load"}
            seen_vals = set()

            def leaf_with(env):
                def leaf(x):
                    x = x.strip()
                    if x.id in loads:
                        return Poly.sym("load(%s)" % (loads[x.id].obj,))
                    if x.kind == "DeclRefExpr" and x.get("local"):
                        return dict(env).get(x.d["d"], Poly.sym("v#%d" % x.d["d"]))
                    return Poly.sym("e:" + canon(x))
                return leaf

            def transfer(n, env):
                if n.id == w.node.id:
                    seen_vals.add(to_poly(v, leaf_with(env)))
                    return [env]
                e = dict(env)
                if n.kind == "DeclStmt":
                    for d in n.get("decls", []):
                        if "init" in d:
                            pv = to_poly(ul.node(d["init"]), leaf_with(env))
                            if pv is not None:
                                e[d["d"]] = pv
                elif n.kind == "UnaryOperator" and n.op in ("++", "--"):
                    t = n.children[0].strip()
                    if t.kind == "DeclRefExpr" and t.get("local"):
                        cur = e.get(t.d["d"], Poly.sym("v#%d" % t.d["d"]))
                        e[t.d["d"]] = cur + Poly.const(1 if n.op == "++" else -1)
                elif n.kind in ("BinaryOperator", "CompoundAssignOperator") and n.op in ("=", "+=", "-="):
                    t = n.children[0].strip()
                    if t.kind == "DeclRefExpr" and t.get("local"):
                        rv = to_poly(n.children[1], leaf_with(env))
                        cur = e.get(t.d["d"], Poly.sym("v#%d" % t.d["d"]))
                        if rv is None:
                            e.pop(t.d["d"], None)
                        else:
                            e[t.d["d"]] = rv if n.op == "=" else (cur + rv if n.op == "+=" else cur - rv)
                return [tuple(sorted(e.items(), key=lambda kv: kv[0]))]
            flow.run(ul, [()], transfer, None)
            want = Poly.sym("load(%s)" % (w.obj,)) + Poly.const(1)
            okv = bool(seen_vals) and all(x is not None and x == want for x in seen_vals)
        if not okv:
            bad.append("stored value is not load(serving)+1: %s" % (canon(v) if v is not None else None))
    ctx.inst("A.ticket.release", "frg::ticket_spinlock::unlock", not bad, ul.loc,
             "; ".join(bad) if bad else "release store of serving+1", ul)

    # the two counters run freely modulo 2^32: they may be compared for (in)equality only, in every member
    ctx.rule("A.ticket.wrap-safe", "ticket lock: the free-running ticket counters are never compared with an ordering "
             "relation (<, <=, >, >=) in any member: such a comparison gives the wrong answer once the dispenser has wrapped", 1)
    tfns = [f for f in unit.functions if f.owner_cls == "frg::ticket_spinlock" and f.blocks]
    recs = unit.record("frg::ticket_spinlock")
    ctrs = {fl["n"] for r in recs for fl in r["fields"]}
    n_cmp, bad = 0, []
    for f in tfns:
        inits_f = local_inits(f)
        acc_f = accesses(f)
        for n in f.all_nodes():
            if n.kind == "BinaryOperator" and n.op in ("<", "<=", ">", ">=", "==", "!="):
                sides = [resolve_local(f, x, inits_f) for x in n.children]
                touches = [a for a in acc_f if a.obj and a.obj[-1] in ctrs and any(a.node.id == s_.id for s_ in sides)]
                if not touches:
                    continue
                n_cmp += 1
                if n.op not in ("==", "!="):
                    bad.append("%s compares ticket counters with `%s` at %s" % (f.name, n.op, n.loc))
    ctx.inst("A.ticket.wrap-safe", "frg::ticket_spinlock", not bad and n_cmp > 0, tfns[0].loc if tfns else "",
             "; ".join(bad) if bad else "%d comparisons on the counters, all == / !=" % n_cmp)

    # simple
    lk, ul = one("frg::simple_spinlock::lock"), one("frg::simple_spinlock::unlock")
    acc = accesses(lk)
    decs = last_decisions_at_exit(lk)
    bad = []
    for d in decs:
        if d is None:
            bad.append("a path reaches the exit without any decision")
            continue
        cond = lk.node(d[0])
        c, truth = cond.strip(), d[1]
        while c.kind == "UnaryOperator" and c.op == "!":
            c = c.children[0].strip()
            truth = not truth
        c = resolve_local(lk, c)
        x = [a for a in acc if a.node.id == c.id]
        if not x or x[0].op != "xchg" or truth is not False:
            bad.append("exit decision %s=%s is not 'exchange returned false'" % (canon(cond), d[1]))
            continue
        if x[0].order not in ACQ:
            bad.append("exchange at %s is %s, needs acquire or stronger" % (x[0].loc, x[0].oname()))
        if x[0].value is None or x[0].value.strip().cv() != 1:
            bad.append("exchange does not store true")
    ctx.inst("A.simple.enter", "frg::simple_spinlock::lock", not bad and bool(decs), lk.loc,
             "; ".join(bad) if bad else "all %d exit decisions are acquire-exchange(true)==false" % len(decs), lk)
    acc_u = accesses(ul)
    writes = [a for a in acc_u if a.op != "load"]
    bad = []
    if len(writes) != 1 or writes[0].op != "store":
        bad.append("expected exactly one atomic store, found %s" % writes)
    else:
        w = writes[0]
        if w.order not in REL:
            bad.append("unlock store at %s is %s, needs release or stronger" % (w.loc, w.oname()))
        if w.value is None or w.value.strip().cv() != 0:
            bad.append("unlock does not store false")
        lockobj = [a.obj for a in acc if a.op == "xchg"]
        if lockobj and w.obj != lockobj[0]:
            bad.append("unlock stores to %s, lock exchanges %s" % (w.obj, lockobj[0]))
    ctx.inst("A.simple.release", "frg::simple_spinlock::unlock", not bad, ul.loc,
             "; ".join(bad) if bad else "release store of false", ul)


def _reassigned_before(fn, did, at_id):
    """some assignment to the local/parameter can execute before element at_id"""
    for x in fn.all_nodes():
        hit = False
        if x.kind in ("BinaryOperator", "CompoundAssignOperator") and x.get("op", "").endswith("=") and x.op not in ("==", "!=", "<=", ">="):
            l = x.children[0].strip()
            hit = l.kind == "DeclRefExpr" and l.d["d"] == did
        if x.kind == "UnaryOperator" and x.op in ("++", "--"):
            l = x.children[0].strip()
            hit = l.kind == "DeclRefExpr" and l.d["d"] == did
        if hit and fn.reaches(x.id, at_id):
            return True
    return False


def resolve_at(fn, n, depth=0):
    """resolve_local, and for a local with several definitions (`if(auto slb = head; slb) ... else { slb = make(); ... }`) the
    one definition that reaches this use, if there is exactly one."""
    from . import flow
    n = n.strip()
    if depth > 8 or n.kind != "DeclRefExpr" or not n.get("local"):
        return n
    inits = local_inits(fn)
    did = n.d["d"]
    if not _reassigned(fn, did):
        if did in inits:
            return resolve_at(fn, inits[did], depth + 1)
        return n
    pos = fn.positions()
    a, hops = n, 0
    while a is not None and a.id not in pos and hops < 12:
        a, hops = fn.parent(a), hops + 1
    if a is None:
        return n
    defs = flow.reaching_defs(fn, did, a.id)
    if len(defs) == 1:
        d0 = next(iter(defs))
        if d0 is not None:
            return resolve_at(fn, d0, depth + 1)
    return n


def bound_value_params(fn):
    """{parameter decl id: argument node} for the by-value integer parameters of folded helpers that were handed an unnamed
    value (`shift_up(pos / 64, pos % 64)`): inside the helper such a parameter is a once-initialised local"""
    out = {}
    for d, i in fn.bind_map().items():
        a = fn.node(i)
        x = a.strip()
        hops = 0
        while x.kind in ("ImplicitCastExpr", "ParenExpr") and x.children and hops < 6:
            x, hops = x.children[0].strip(), hops + 1
        if x.kind == "DeclRefExpr":
            continue
        if a.get("bits") or x.get("bits"):
            out[d] = a
    return out
