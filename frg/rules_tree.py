"""Trees and heap: M (mirror symmetry), H (link / aggregate protocol), Q (order-type enumeration),
E (descent rule), P/R for C06, C07, C08."""
import re
import itertools
from .ir import path, canon, std_unwrap, AnalysisBroken
from . import flow
from . import rules_atomic as RA
from .rules_guard import write_of
from .rules_link import hook_write

RB = "frg::_redblack::tree_crtp_struct"

MIRROR_RB = [("get_left", "get_right"), ("rotateLeft", "rotateRight"), ("insert_left", "insert_right"),
             ("predecessor", "successor"), (".left", ".right"),
             ("::left", "::right"), ("::Left", "::Right"), ("::LEFT", "::RIGHT")]   # enumerators naming a side


def mirror(s, pairs):
    """Swap each token pair in s."""
    out = s
    for i, (a, b) in enumerate(pairs):
        lb = r"(?<![A-Za-z_])" if (a[0].isalnum() or a[0] == "_") else ""
        out = re.sub(lb + r"%s(?![A-Za-z_0-9])" % re.escape(a), "\x00%d\x00" % i, out)
        out = re.sub(lb + r"%s(?![A-Za-z_0-9])" % re.escape(b), a, out)
        out = out.replace("\x00%d\x00" % i, b)
    return out


def _ids(s):
    return re.sub(r"#\d+", "", s)


def is_assert_stmt(n):
    return n.kind in ("DoStmt", "IfStmt") and n.get("mac") in ("FRG_ASSERT", "FRG_DEBUG_ASSERT")


class Ser:
    """Order-preserving canonical text of a statement subtree: assertions dropped, once-initialised
    locals replaced by their initialiser, `if(enable_checking)` blocks dropped."""

    PURE = {"get_left", "get_right", "get_parent", "predecessor", "successor", "h", "isRed", "isBlack", "get_root",
            "lower", "upper", "operator()", "decay", "get"}

    def __init__(self, fn, sound=False):
        """sound=False: every once-initialised local is replaced by its initialiser (a stable *name* for the
        object, used when matching the two halves of a link pair). sound=True: a local is expanded only where
        it provably still equals its initialiser (used when comparing mirrored code for equality)."""
        self.fn = fn
        self.sound = sound
        self.inits = RA.local_inits(fn)
        self.once = {d for d in self.inits if not RA._reassigned(fn, d)}
        # elements with side effects (stores, and calls that are not pure navigation)
        self.effects = []
        self.local_store = {}     # effect node id -> decl id of the local scalar it stores to
        for n in fn.events():
            if (n.kind in ("BinaryOperator", "CompoundAssignOperator") and n.op.endswith("=") and n.op not in ("==", "!=", "<=", ">=")) \
                    or (n.kind == "UnaryOperator" and n.op in ("++", "--")):
                self.effects.append(n.id)
                l = n.children[0].strip()
                if l.kind == "DeclRefExpr" and l.get("local"):
                    self.local_store[n.id] = l.d["d"]
            elif n.is_call() and not (n.callee and n.callee["n"] in self.PURE) and n.kind != "CXXConstructExpr":
                self.effects.append(n.id)
        self.declpos = {}
        for n in fn.events():
            if n.kind == "DeclStmt":
                for d in n.get("decls", []):
                    self.declpos[d["d"]] = n.id
        self._clean = {}

    def clean_use(self, did, use):
        """The local still equals a re-evaluation of its initialiser at `use`: no store and no impure call
        can execute between its declaration and the use."""
        key = (did, use.id)
        if key in self._clean:
            return self._clean[key]
        D = self.declpos.get(did)
        pos = self.fn.positions()
        # the CFG element that contains the use: walk up to an element
        u = use
        hops = 0
        while u is not None and u.id not in pos and hops < 50:
            u = self.fn.parent(u)
            hops += 1
        ok = False
        if D is not None and u is not None:
            ok = True
            mentioned = {x.d["d"] for x in self.inits[did].walk() if x.kind == "DeclRefExpr"} if did in self.inits else set()
            for e in self.effects:
                if e == D or e == u.id:
                    continue
                if e in self.local_store and self.local_store[e] not in mentioned:
                    continue      # a store to an unrelated local scalar cannot change the initialiser's value
                if self.fn.reaches(D, e) and self.fn.reaches(e, u.id):
                    ok = False
                    break
        self._clean[key] = ok
        return ok

    def expr(self, n, depth=0):
        env = {}
        return self._e(n, depth)

    def _e(self, n, depth=0):
        n = std_unwrap(n)
        if depth > 40:
            return "?"
        k = n.kind
        if k == "DeclRefExpr" and n.get("local") and n.d["d"] in self.once and n.d["d"] in self.inits \
                and not getattr(self, "never", False) and (not self.sound or self.clean_use(n.d["d"], n)):
            return self._e(self.inits[n.d["d"]], depth + 1)
        if k == "DeclRefExpr" and n.get("local") and n.d["d"] in self.once and n.d["d"] in self.inits \
                and self.sound and depth < 30 and not getattr(self, "_in_snapshot", False):
            # a snapshot that may be stale here: named after what it was a snapshot OF, never after its spelling
            # (so that mirroring acts on predecessor()/successor() etc. and not on local variable names)
            old_never = getattr(self, "never", False)
            self.never = True
            self._in_snapshot = True
            try:
                t = self._e(self.inits[n.d["d"]], depth + 1)
            finally:
                self.never = old_never
                self._in_snapshot = False
            if getattr(self, "opaque_snapshots", False) and n.d["d"] not in getattr(self, "arm_local", ()):
                # arms of ONE function refer to the same snapshot object: it must not be touched by the mirror map
                import zlib
                return "@S%08x" % (zlib.crc32(t.encode()) & 0xffffffff)
            return "@{%s}" % t
        if k == "BinaryOperator" or k == "CompoundAssignOperator":
            return "(%s %s %s)" % (n.op, self._e(n.children[0], depth + 1), self._e(n.children[1], depth + 1))
        if k == "UnaryOperator":
            return "(%s %s)" % (n.op, self._e(n.children[0], depth + 1))
        if k == "MemberExpr":
            ch = n.children
            return "%s.%s" % (self._e(ch[0], depth + 1) if ch else "?", n.m)
        if n.is_call():
            cal = n.callee
            name = cal["n"] if cal else "<indirect>"
            parts = []
            if k == "CXXMemberCallExpr":
                o = n.child("obj")
                if o is not None and path(o) != ("this",):
                    parts.append(self._e(o, depth + 1))
            parts += [self._e(a, depth + 1) for a in n.args]
            return "%s(%s)" % (name, ", ".join(parts))
        if k in ("CStyleCastExpr", "CXXStaticCastExpr", "CXXReinterpretCastExpr", "ImplicitCastExpr", "CXXFunctionalCastExpr") and n.children:
            return self._e(n.children[0], depth + 1)
        if k == "CXXNullPtrLiteralExpr" or n.get("nullc"):
            return "null"
        return _ids(canon(n))

    def stmt(self, n, depth=0):
        if n is None:
            return ""
        k = n.kind
        if is_assert_stmt(n):
            return ""
        if k == "CompoundStmt":
            return " ".join(x for x in (self.stmt(c, depth + 1) for c in n.children) if x)
        if k == "IfStmt":
            c = n.child("cond")
            cs = self._e(c)
            if "enable_checking" in cs:
                return ""
            t = self.stmt(n.child("then"), depth + 1)
            e = self.stmt(n.child("else"), depth + 1) if n.get("else") is not None else ""
            return "if[%s]{%s}else{%s}" % (cs, t, e)
        if k == "DeclStmt":
            out = []
            for d in n.get("decls", []):
                if not self.sound and d["d"] in self.once and "init" in d:
                    continue
                out.append("decl%s;" % ((" @= " + self._e(self.fn.node(d["init"]))) if "init" in d else (" " + d["n"])))
            return " ".join(out)
        if k == "ReturnStmt":
            v = n.child("val")
            return "return %s;" % (self._e(v) if v is not None else "")
        if k in ("WhileStmt", "ForStmt", "DoStmt"):
            return "%s[%s]{%s}" % (k, self._e(n.child("cond")) if n.get("cond") is not None else "", self.stmt(n.child("body"), depth + 1))
        if k in ("NullStmt", "BreakStmt", "ContinueStmt"):
            return k + ";"
        return self._e(n) + ";"


def check_mirror_if(ctx, rule, fn, pairs, label, only_left_tests=True):
    """Find top-level direction tests `if(get_left(X) == Y) A else B` (B not an if) and else-if chains whose
    conditions mirror each other; compare the arms under the mirror map."""
    ser = Ser(fn, sound=True)
    ser.opaque_snapshots = True
    covered = set()
    n_pairs = 0
    body = fn.node(fn.d["body"])

    def walk(n):
        nonlocal n_pairs
        if n.id in covered:
            return
        if n.kind == "IfStmt" and not is_assert_stmt(n) and n.get("else") is not None:
            # snapshots declared inside the arms are mirrored with them; those taken before the split are shared
            ser.arm_local = {d["d"] for x in n.walk() if x.kind == "DeclStmt" for d in x.get("decls", [])}
            c = n.child("cond")
            cs = ser.expr(c)
            e = n.child("else")
            ee = e
            while ee.kind == "CompoundStmt" and len(ee.children) == 1:
                ee = ee.children[0]
            handled = False
            if ee.kind == "IfStmt" and not is_assert_stmt(ee):
                cs2 = ser.expr(ee.child("cond"))
                if mirror(cs, pairs) == cs2 and cs != cs2:
                    a, b = ser.stmt(n.child("then")), ser.stmt(ee.child("then"))
                    n_pairs += 1
                    ok = mirror(a, pairs) == b
                    ctx.inst(rule, "%s: mirrored arms #%d" % (label, n_pairs), ok, n.loc,
                             "arms of the else-if chain on %s are mirror images: %s%s" % (cs[:70], ok, "" if ok else
                             " — left arm mirrored: {%s} vs right arm: {%s}" % (mirror(a, pairs)[:160], b[:160])), fn)
                    for x in n.child("then").walk():
                        covered.add(x.id)
                    for x in ee.child("then").walk():
                        covered.add(x.id)
                    handled = True
            if not handled and ee.kind != "IfStmt":
                m = re.search(r"get_left\(", cs)
                if m and ("==" in cs or "!=" in cs) and "&&" not in cs and "||" not in cs:      # (either polarity: mirror images are mutual)
                    a, b = ser.stmt(n.child("then")), ser.stmt(e)
                    n_pairs += 1
                    ok = mirror(a, pairs) == b
                    ctx.inst(rule, "%s: mirrored arms #%d" % (label, n_pairs), ok, n.loc,
                             "then/else arms of the direction test %s are mirror images: %s%s" % (cs[:70], ok, "" if ok else
                             " — left arm mirrored: {%s} vs right arm: {%s}" % (mirror(a, pairs)[:160], b[:160])), fn)
                    for x in n.walk():
                        covered.add(x.id)
                    return
        for c in n.children:
            walk(c)
    walk(body)
    return n_pairs


def effect_set(fn):
    """Set of (guards, effect) for straight-line-with-guards functions: writes and calls with the non-assert
    branch facts that dominate them; locals copy-propagated."""
    ser = Ser(fn, sound=True)
    ser.never = True
    out = set()
    first_store = [e for e in ser.effects if e not in ser.local_store]
    for n in fn.events():
        if n.kind == "DeclStmt":
            for d in n.get("decls", []):
                if "init" in d:
                    before_any_store = not any(fn.reaches(e, n.id) for e in first_store)
                    out.add(((), "D @{%s} [evaluated before any store: %s]" % (ser.expr(fn.node(d["init"])), before_any_store)))
    for n in fn.events():
        eff = None
        hw = None
        if n.kind == "BinaryOperator" and n.op == "=":
            l = n.children[0].strip()
            if l.kind == "MemberExpr" or path(l):
                eff = "W %s := %s" % (ser.expr(n.children[0]), ser.expr(n.children[1]))
        elif n.is_call() and n.callee and n.kind == "CXXMemberCallExpr" and path(n.child("obj")) == ("this",) \
                and n.callee["n"] not in ("get_left", "get_right", "get_parent", "predecessor", "successor", "h", "isRed", "isBlack", "get_root"):
            par = fn.parent(n)
            if par is None or par.kind in ("CompoundStmt", "IfStmt", "ExprWithCleanups"):
                eff = "C %s" % ser.expr(n)
        if eff is None:
            continue
        guards = []
        for cond, truth in flow.facts_at(fn, n.id):
            cc = canon(cond)
            if "frg_panic" in cc or "enable_checking" in cc:
                continue
            is_assert = cond.get("mac") in ("FRG_ASSERT",) or any(x.get("mac") == "FRG_ASSERT" for x in cond.walk())
            c, t = cond.strip(), truth
            while c.kind == "UnaryOperator" and c.op == "!":
                c, t = c.children[0].strip(), not t
            ce = ser.expr(c)
            direction = c.kind == "BinaryOperator" and c.op == "==" and re.search(r"get_(left|right)\(", ce) is not None
            if is_assert:
                # an asserted direction test names the case of an else-arm positively
                if direction and t and "&&" not in ce and "||" not in ce:
                    guards.append("%s=True" % ce)
                continue
            if direction and not t:
                continue          # "not the left child": the arm's own assertion (or the mirror) names the case
            guards.append("%s=%s" % (ce, t))
        out.add((tuple(sorted(set(guards))), eff))
    return out


def check_mirror_fns(ctx, rule, fa, fb, pairs, label):
    ea = {(tuple(sorted(mirror(g, pairs) for g in gs)), mirror(e, pairs)) for gs, e in effect_set(fa)}
    eb = effect_set(fb)
    only_a, only_b = ea - eb, eb - ea
    ctx.inst(rule, label, not only_a and not only_b and bool(eb), fa.loc,
             "guarded effects agree under the mirror map (%d effects)" % len(eb) if not only_a and not only_b else
             "only in mirrored %s: %s; only in %s: %s" % (fa.name, sorted(only_a)[:3], fb.name, sorted(only_b)[:3]), fa)


# ---- path-set analysis with null facts ------------------------------------------------------------------

def paths_with_nullfacts(fn, label, ser=None, atom_label=None):
    """Exit states: frozenset of labels and ('null', expr)/('nonnull', expr) facts gathered from branches;
    infeasible combinations (same expr null and non-null) are pruned."""
    ser = ser or Ser(fn)
    lab_cache, fact_cache = {}, {}

    def transfer(n, s):
        if n.id in lab_cache:
            l = lab_cache[n.id]
        else:
            l = lab_cache[n.id] = label(n)
        if l is not None:
            if isinstance(l, list):
                s = s | frozenset(l)
            else:
                s = s | {l}
        # assignment to a local invalidates facts about it
        return [s]

    def refine(cond, truth, s):
        key = (cond.id, truth)
        if key in fact_cache:
            facts = fact_cache[key]
            if facts is None:
                return []
            for k, e in facts:
                opp = ("nonnull" if k == "null" else "null", e) if k in ("null", "nonnull") else (k, not e)
                if opp in s:
                    return []
            return [s | frozenset(facts)]
        facts = []

        def assume(a, v):
            a = a.strip()
            if atom_label is not None:
                k_ = atom_label(a)
                if k_ is not None:
                    facts.append((k_, v))
                    return
            if a.kind == "BinaryOperator" and a.op in ("==", "!="):
                l, r = a.children
                for x, y in ((l, r), (r, l)):
                    ys = y.strip()
                    if ys.get("nullc") or ys.kind == "CXXNullPtrLiteralExpr":
                        isnull = (a.op == "==") == v
                        facts.append(("null" if isnull else "nonnull", ser.expr(x)))
                return
            if (a.get("t") or "").endswith("*") or a.kind in ("DeclRefExpr", "CXXMemberCallExpr", "CallExpr", "MemberExpr"):
                facts.append(("nonnull" if v else "null", ser.expr(a)))
        if not flow.refine_bool(cond, truth, lambda a: None, assume):
            fact_cache[key] = None
            return []
        fact_cache[key] = facts
        for k, e in facts:
            opp = ("nonnull" if k == "null" else "null", e) if k in ("null", "nonnull") else (k, not e)
            if opp in s:
                return []
        return [s | frozenset(facts)]
    _, ex = flow.run(fn, [frozenset()], transfer, refine, limit=400000)
    return ex


# ---- C06 ---------------------------------------------------------------------------------------------

def rb_fns(unit, agg="null_aggregator"):
    out = {}
    for f in unit.functions:
        if f.owner_cls == RB and agg in (f.owner_clsqn or "") and "tree_struct<" in (f.owner_clsqn or ""):
            out.setdefault(f.name, []).append(f)
    return out


def _local_did(x):
    x = std_unwrap(x)
    if x.kind == "DeclRefExpr" and x.get("local"):
        return x.d["d"]
    return None


def _dir_call(n):
    """('left'|'right', kind) for get_left/get_right/insert_left/insert_right member calls, else None."""
    if n.is_call() and n.callee and n.kind in ("CXXMemberCallExpr", "CallExpr"):
        nm = n.callee["n"]
        if nm in ("get_left", "insert_left"):
            return "left", nm
        if nm in ("get_right", "insert_right"):
            return "right", nm
    return None


def _check_ordered_insert(g):
    """tree_struct::insert: state = (variable the comparator last looked at, its verdict, values of bool locals).
    Every get_/insert_left on that variable must happen under verdict true, every get_/insert_right under false; an
    insert_left/right whose node was never compared is a violation.  The comparator must be called as (new, current)."""
    problems = []
    newp = g.params()[0]["d"]
    cmps = [n for n in g.events() if n.kind == "CXXOperatorCallExpr" and n.callee and n.callee.get("op") == "()" and not n.get("inlined")]
    if not cmps:
        return ["no comparator call found"]

    def deref_of(x):
        x = std_unwrap(x)
        if x.kind == "UnaryOperator" and x.op == "*":
            return _local_did(x.children[0])
        return None
    for c in cmps:
        a = c.args[1:]
        if not (len(a) == 2 and deref_of(a[0]) == newp and deref_of(a[1]) not in (None, newp)):
            problems.append("comparator called with %s, expected (new element, current node)" % [_ids(canon(x)) for x in a])
    if problems:
        return problems
    cmp_ids = {c.id: deref_of(c.args[2]) for c in cmps}
    # state: (locals known to hold the node the comparator last looked at, its verdict or "pending:<id>",
    #         values of bool locals (a literal, or "cmp:<id>" = holds the verdict of that comparison),
    #         classes of pointer locals known to hold the same node)

    def cls_of(alias, v):
        for c in alias:
            if v in c:
                return c
        return frozenset([v])

    def transfer(n, st):
        vars_, res, bools, alias = st
        if n.id in cmp_ids:
            v = cmp_ids[n.id]
            return [(frozenset(cls_of(alias, v)), "pending:%d" % n.id, bools, alias)]
        tgt, rhs = None, None
        if n.kind == "BinaryOperator" and n.op == "=":
            tgt, rhs = _local_did(n.children[0]), n.children[1]
        elif n.kind == "DeclStmt":
            out = st
            for d in n.get("decls", []):
                if "init" in d:
                    out = assign(out, d["d"], g.node(d["init"]))
            return [out]
        dc = _dir_call(n)
        if dc is not None and n.args:
            x = _local_did(n.args[0])
            side, nm = dc
            if x is not None and x in vars_ and res in (True, False):
                if (side == "left") != res:
                    problems.append("%s on the side where less(new, current) is %s, at %s" % (nm, res, n.loc))
            elif nm.startswith("insert_"):
                problems.append("%s at %s is not decided by a comparison with that node" % (nm, n.loc))
        if tgt is not None:
            return [assign(st, tgt, rhs)]
        return [st]

    def assign(st, tgt, rhs):
        vars_, res, bools, alias = st
        b = dict(bools)
        v = std_unwrap(rhs)
        if v.kind == "CXXBoolLiteralExpr":
            b[tgt] = bool(v.get("bv"))
        elif v.kind == "CXXNullPtrLiteralExpr" or v.get("nullc") or rhs.strip().get("nullc"):
            b[tgt] = False          # a pointer local known to be null (tested like a bool)
        elif v.id in cmp_ids or rhs.strip().id in cmp_ids:
            b[tgt] = "cmp:%d" % (v.id if v.id in cmp_ids else rhs.strip().id)
        else:
            b.pop(tgt, None)
        # pointer copies: tgt leaves its class; `tgt = y` puts it into y's class
        y = _local_did(rhs)
        al = [frozenset(c - {tgt}) for c in alias]
        al = [c for c in al if len(c) > 1]
        if y is not None and y != tgt:
            cy = cls_of(al, y)
            al = [c for c in al if c != cy] + [frozenset(cy | {tgt})]
        vs = set(vars_) - {tgt}
        if y is not None and y in vars_ and y != tgt:
            vs.add(tgt)
        if not vs:
            res = None
        return (frozenset(vs), res, tuple(sorted(b.items())), tuple(sorted(al, key=sorted)))

    def refine(cond, truth, st):
        vars_, res, bools, alias = st
        bd = dict(bools)

        def val(x):
            x = x.strip()
            if x.id in cmp_ids:
                return None
            d = _local_did(x)
            if d is not None and d in bd and isinstance(bd[d], bool):
                return int(bd[d])
            return None
        # the comparator's own branch -- or a branch on a bool local that holds its verdict -- fixes the verdict
        c = cond.strip()
        t = truth
        while c.kind == "UnaryOperator" and c.op == "!":
            c, t = c.children[0].strip(), not t
        if c.id in cmp_ids and isinstance(res, str):
            return [(vars_, t, bools, alias)]
        d = _local_did(c)
        if d is not None and isinstance(bd.get(d), str) and bd[d].startswith("cmp:"):
            cid = bd[d][4:]
            if res == "pending:%s" % cid:
                return [(vars_, t, bools, alias)]
            if isinstance(res, bool):
                return [st] if res == t else []
        v = flow.sem_eval(cond, val)
        if v is not None and bool(v) != truth:
            return []
        # a null test of a pointer local whose value is not known yet (`if(next)`, `next != nullptr`, `!next`) is
        # remembered until the local is assigned again: a cursor advanced under `next != nullptr` cannot leave a
        # loop that runs `while(next != nullptr)`
        if v is None:
            pd, nonnull = None, None
            if d is not None and d not in bd:
                pd, nonnull = d, t
            elif c.kind == "BinaryOperator" and c.op in ("==", "!="):
                l, r = c.children[0].strip(), c.children[1].strip()
                for x, y in ((l, r), (r, l)):
                    if (y.kind == "CXXNullPtrLiteralExpr" or y.get("nullc")) and _local_did(x) is not None and _local_did(x) not in bd:
                        pd, nonnull = _local_did(x), (t if c.op == "!=" else not t)
            if pd is not None and pd != newp:
                bd[pd] = bool(nonnull)
                return [(vars_, res, tuple(sorted(bd.items())), alias)]
        return [st]
    flow.run(g, [(frozenset(), None, (), ())], transfer, refine, limit=100000)
    return sorted(set(problems))


def _check_positional_insert(g):
    """tree_order_struct::insert(before, node).  State: before null?, and per cursor local its origin (root /
    left child of before), whether it is null, whether its right child is known null / non-null.  Required:
    insert_root only for (before null, root null); insert_left only as insert_left(before) when get_left(before) is
    null; insert_right(x) only when x came from the proper origin by get_right steps alone and get_right(x) is null."""
    problems = []
    bp = g.params()[0]["d"]

    def thru(e):
        """a value computed by a folded helper or closure with one result is that result"""
        from .ir import value_leaves
        ls = value_leaves(g, e)
        return std_unwrap(ls[0]) if len(ls) == 1 else std_unwrap(e)

    def origin_of(e, st):
        e = thru(e)
        if e.is_call() and e.callee:
            if e.callee["n"] == "get_root":
                return ("root", None)
            if e.callee["n"] == "get_left" and e.args and _local_did(e.args[0]) == bp:
                return ("leftb", None)
            if e.callee["n"] == "get_right" and e.args:
                d = _local_did(e.args[0])
                cur = dict(st[1]).get(d)
                if cur is not None:
                    return (cur[0], "nn" if cur[2] == "rnn" else None)
            return ("other", None)
        if e.kind == "ConditionalOperator":
            c, tv, fv = e.children[0], e.children[1], e.children[2]
            cd = _local_did(c)
            if cd == bp and st[0] is not None:
                return origin_of(fv if st[0] else tv, st)
            return ("other", None)
        d = _local_did(e)
        if d is not None and d in dict(st[1]):
            cur = dict(st[1])[d]
            return (cur[0], cur[1])
        return ("other", None)

    def set_var(st, d, org, nul, rk=None, rof=None, assigned=False):
        m = dict(st[1])
        if assigned:
            # d gets a new value: nobody is "the right child of d" any more
            for k_, v_ in list(m.items()):
                if len(v_) > 3 and v_[3] == d:
                    m[k_] = (v_[0], v_[1], v_[2], None)
        m[d] = (org, nul, rk, rof)
        return (st[0], tuple(sorted(m.items(), key=lambda kv: kv[0])))

    def rk_of(e, st):
        """copying a cursor copies what is known about the right child of the node it points to"""
        d = _local_did(thru(e))
        cur = dict(st[1]).get(d) if d is not None else None
        return cur[2] if cur is not None else None

    def right_of(e):
        """the local x if e is get_right(x)"""
        e = thru(e)
        if e.is_call() and e.callee and e.callee["n"] == "get_right" and e.args:
            return _local_did(e.args[0])
        return None

    def transfer(n, st):
        if n.kind == "DeclStmt":
            for d in n.get("decls", []):
                if "init" in d and (g.node(d["init"]).get("t") or "").rstrip().endswith("*"):
                    org, nul = origin_of(g.node(d["init"]), st)
                    st = set_var(st, d["d"], org, nul, rk_of(g.node(d["init"]), st), right_of(g.node(d["init"])), assigned=True)
            return [st]
        if n.kind == "ParamBind" and (n.d.get("t") or "").rstrip().endswith("*") and n.d.get("init") is not None:
            # by-value pointer parameter of a virtually inlined helper (a cursor the helper advances)
            org, nul = origin_of(g.node(n.d["init"]), st)
            return [set_var(st, n.d["d"], org, nul, rk_of(g.node(n.d["init"]), st), right_of(g.node(n.d["init"])), assigned=True)]
        if n.kind == "BinaryOperator" and n.op == "=":
            d = _local_did(n.children[0])
            if d is not None and (n.children[0].get("t") or "").rstrip().endswith("*"):
                org, nul = origin_of(n.children[1], st)
                return [set_var(st, d, org, nul, rk_of(n.children[1], st), right_of(n.children[1]), assigned=True)]
            return [st]
        if n.is_call() and n.callee and n.kind == "CXXMemberCallExpr" and n.callee["n"] in ("insert_root", "insert_left", "insert_right"):
            nm = n.callee["n"]
            m = dict(st[1])
            if nm == "insert_root":
                ok = st[0] is True and any(v[0] == "root" and v[1] == "null" for v in m.values())
                if not ok:
                    problems.append("insert_root at %s although `before` may be non-null or the tree non-empty" % n.loc)
            elif nm == "insert_left":
                x = _local_did(n.args[0]) if n.args else None
                ok = x == bp and st[0] is False and any(v[0] == "leftb" and v[1] == "null" for v in m.values())
                if not ok:
                    problems.append("insert_left at %s is not insert_left(before, ...) with get_left(before) known null" % n.loc)
            else:
                x = _local_did(n.args[0]) if n.args else None
                cur = m.get(x)
                want = "root" if st[0] is True else ("leftb" if st[0] is False else None)
                ok = cur is not None and want is not None and cur[0] == want and cur[1] == "nn" and cur[2] == "rnull"
                if not ok:
                    problems.append("insert_right at %s: its node is not the right-most node of %s (state %s)" % (
                        n.loc, "the tree" if st[0] else "the left subtree of `before`", cur))
        return [st]

    def refine(cond, truth, st):
        c, t = cond.strip(), truth
        while c.kind == "UnaryOperator" and c.op == "!":
            c, t = c.children[0].strip(), not t
        if c.kind == "BinaryOperator" and c.op in ("==", "!=") and any(x.strip().kind == "CXXNullPtrLiteralExpr" or x.strip().get("nullc") for x in c.children):
            other = [x for x in c.children if not (x.strip().kind == "CXXNullPtrLiteralExpr" or x.strip().get("nullc"))]
            if other:
                c, t = other[0].strip(), (t if c.op == "!=" else not t)
        d = _local_did(c)
        if d == bp:
            if st[0] is not None and st[0] != (not t):
                return []
            return [((not t), st[1])]
        m = dict(st[1])
        if d is not None and d in m:
            org, nul, rk, rof = (tuple(m[d]) + (None,))[:4]
            if nul is not None and (nul == "nn") != t:
                return []
            st = set_var(st, d, org, "nn" if t else "null", rk, rof)
            if rof is not None and rof in m:
                # d holds get_right(rof): testing d tells whether rof has a right child
                o2, n2, _, r2 = (tuple(m[rof]) + (None,))[:4]
                st = set_var(st, rof, o2, n2, "rnn" if t else "rnull", r2)
            return [st]
        x = std_unwrap(c)
        if x.is_call() and x.callee and x.callee["n"] == "get_right" and x.args:
            d = _local_did(x.args[0])
            if d in m:
                org, nul, rk, rof = (tuple(m[d]) + (None,))[:4]
                return [set_var(st, d, org, nul, "rnn" if t else "rnull", rof)]
        return [st]
    flow.run(g, [(None, ())], transfer, refine, limit=100000)
    return sorted(set(problems))


def check_rotation_operands(ctx, rule, fn):
    """A small shape analysis over the child links, per path.  Abstract nodes are the values of pointer locals and of the
    accessor reads get_left/get_right/get_parent; facts are child(X, side) = Y (and parent(X) = P where the side is not
    known), established by accessor reads and by equality tests / assertions such as `get_left(parent) == n`.
    rotateLeft(a) is only correct when a is the RIGHT child of its parent (rotateRight: the LEFT child) -- the
    rotation's own entry assertion -- so at every rotation call the operand must be known to be that child of some
    node; the call then rewrites the facts the way the rotation rewrites the links.  A local that was read as "the
    sibling" before a rotation and is used as an operand afterwards no longer has such a fact: it is stale."""
    problems = set()
    n_rot = [0]
    inits = RA.local_inits(fn)
    OPP = {"L": "R", "R": "L"}

    def side_of(call):
        nm = call.callee["n"] if call.is_call() and call.callee else ""
        return {"get_left": "L", "get_right": "R", "get_parent": "P"}.get(nm)

    ret_of = {}
    for c_ in fn.all_nodes():
        if c_.d.get("inlined"):
            for r_ in c_.d.get("rets", []):
                ret_of[r_] = c_.id

    def depth_of(a):
        return 1 + max([depth_of(y) for y in a if isinstance(y, tuple)] + [0]) if isinstance(a, tuple) else 0

    def ev(x, env, facts, bools):
        """-> abstract node or None; may add facts (dicts are mutated)"""
        x0 = x.strip()
        if x0.d.get("inlined") and len(x0.d.get("rets", [])) != 1:
            return env.get(("ret", x0.id))          # a virtually inlined helper with several returns: the one that ran
        x = std_unwrap(x)
        while x.kind in ("CXXStaticCastExpr", "CStyleCastExpr", "ParenExpr", "ImplicitCastExpr") and x.children:
            x = std_unwrap(x.children[0])
        if x.kind == "DeclRefExpr" and x.get("local"):
            d = x.d["d"]
            if d not in env:
                env[d] = ("v", d)
            return env[d]
        if x.kind == "ConditionalOperator" and len(x.children) == 3:
            c = std_unwrap(x.children[0])
            if c.kind == "DeclRefExpr" and c.get("local") and c.d["d"] in bools:
                return ev(x.children[1] if bools[c.d["d"]] else x.children[2], env, facts, bools)
            return None
        sd = side_of(x)
        if sd is not None and x.args:
            a = ev(x.args[-1], env, facts, bools)
            if a is None:
                return None
            if sd == "P":
                for (k0, k1), v in facts.items():
                    if k1 in ("L", "R") and v == a:
                        return k0
                if ("P", a) in facts:
                    return facts[("P", a)]
                p_ = ("r", x.id, a)
                if depth_of(p_) > 7:
                    return None
                facts[("P", a)] = p_
                return p_
            if (a, sd) in facts:
                return facts[(a, sd)]
            r_ = ("r", x.id, a)
            if depth_of(r_) > 7:
                return None
            facts[(a, sd)] = r_
            return r_
        return None

    def freeze(env, facts, bools):
        return (tuple(sorted(env.items(), key=str)), tuple(sorted(facts.items(), key=str)), tuple(sorted(bools.items())))

    def thaw(st):
        return dict(st[0]), dict(st[1]), dict(st[2])

    def rotate(a, sd, facts):
        """rotateLeft: sd == 'R' (operand is the right child of u); mirrored for rotateRight"""
        u = None
        for (k0, k1), v in facts.items():
            if k1 == sd and v == a:
                u = k0
        if u is None:
            return False
        inner = OPP[sd]
        v = facts.get((a, inner))
        w = None
        for (k0, k1), val in list(facts.items()):
            if k1 in ("L", "R") and val == u and k0 != a:
                facts[(k0, k1)] = a
                w = k0
        if w is None and ("P", u) in facts:
            w = facts[("P", u)]
        facts[(a, inner)] = u
        if v is not None:
            facts[(u, sd)] = v
            facts[("P", v)] = u
        else:
            facts.pop((u, sd), None)
        facts[("P", u)] = a
        if w is not None:
            facts[("P", a)] = w
        else:
            facts.pop(("P", a), None)
        return True

    # a loop that re-roots its cursor (`n = grand; continue;`) derives ever deeper names: at a loop header, once the names
    # stem from an earlier iteration, the iteration starts from scratch like a fresh call (facts forgotten: this can only
    # lose precision)
    hdr_first = set()
    for lp_ in flow.natural_loops(fn):
        ns_ = fn.blocks[lp_.header].nodes()
        if ns_:
            hdr_first.add(ns_[0].id)

    def transfer(n, st):
        env, facts, bools = thaw(st)
        if n.id in hdr_first and any(depth_of(v) >= 4 for v in env.values()):
            env = {k: ("v", k) for k in env if not isinstance(k, tuple)}
            facts, bools = {}, {}
            st = freeze(env, facts, bools)
        if n.kind == "DeclStmt":
            for d in n.get("decls", []):
                if "init" in d:
                    ini = fn.node(d["init"])
                    if (ini.get("t") or "").rstrip().endswith("*") or (d.get("t") or "").rstrip().endswith("*"):
                        v = ev(ini, env, facts, bools)
                        env[d["d"]] = v if v is not None else ("v", d["d"], n.id)
            return [freeze(env, facts, bools)]
        if n.kind == "InlinedReturn" and n.child("val") is not None and n.child("val").id in ret_of:
            v = ev(n.child("val"), env, facts, bools)
            if v is not None:
                env[("ret", ret_of[n.child("val").id])] = v
            else:
                env.pop(("ret", ret_of[n.child("val").id]), None)
            return [freeze(env, facts, bools)]
        if n.kind == "ParamBind" and str(n.d.get("t", "")).rstrip().endswith("*") and n.d.get("init") is not None:
            v = ev(fn.node(n.d["init"]), env, facts, bools)
            env[n.d["d"]] = v if v is not None else ("v", n.d["d"], n.id)
            return [freeze(env, facts, bools)]
        if n.kind == "BinaryOperator" and n.op == "=":
            d = _local_did(n.children[0])
            if d is not None and (n.children[0].get("t") or "").rstrip().endswith("*"):
                v = ev(n.children[1], env, facts, bools)
                env[d] = v if v is not None else ("v", d, n.id)
                return [freeze(env, facts, bools)]
        if n.is_call() and n.callee and n.kind in ("CXXMemberCallExpr", "CallExpr") and not n.d.get("inlined"):
            nm = n.callee["n"]
            if nm in ("rotateLeft", "rotateRight") and n.args:
                n_rot[0] += 1
                a = ev(n.args[-1], env, facts, bools)
                sd = "R" if nm == "rotateLeft" else "L"
                if a is not None:
                    if not rotate(a, sd, facts):
                        problems.add("%s at %s: its operand %s is not known to be the %s child of its parent on a path leading here "
                                     "(a link read before an earlier rotation no longer describes the tree)" % (
                                         nm, n.loc, _ids(canon(n.args[-1])), "right" if sd == "R" else "left"))
                        facts = {k: v for k, v in facts.items() if a not in (k[0], v)}
                return [freeze(env, facts, bools)]
            if n.kind == "CXXMemberCallExpr" and side_of(n) is None and not nm.startswith(("is", "get_", "aggregate", "h", "check_")) and nm not in Ser.PURE:
                facts = {}          # anything else of the tree class may restructure it
                return [freeze(env, facts, bools)]
        return [st]

    def refine(cond, truth, st):
        env, facts, bools = thaw(st)
        c, t = cond.strip(), truth
        while c.kind == "UnaryOperator" and c.op == "!":
            c, t = c.children[0].strip(), not t
        if c.kind == "DeclRefExpr" and c.get("local") and (c.get("t") or "") in ("bool", "const bool", "_Bool"):
            d = c.d["d"]
            if d in bools and bools[d] != t:
                return []
            bools[d] = t
            ini = inits.get(d)
            if ini is not None and not RA._reassigned(fn, d):
                c, t = ini.strip(), t
                while c.kind in ("ParenExpr",) and c.children:
                    c = c.children[0].strip()
                while c.kind == "UnaryOperator" and c.op == "!":
                    c, t = c.children[0].strip(), not t
        if c.kind == "BinaryOperator" and c.op in ("==", "!=") and ((c.op == "==") == t):
            l, r = std_unwrap(c.children[0]), std_unwrap(c.children[1])
            for acc, other in ((l, r), (r, l)):
                a0 = acc
                while a0.kind in ("CXXStaticCastExpr", "CStyleCastExpr", "ParenExpr", "ImplicitCastExpr") and a0.children:
                    a0 = std_unwrap(a0.children[0])
                sd = side_of(a0)
                if sd in ("L", "R") and a0.args:
                    x = ev(a0.args[-1], env, facts, bools)
                    y = ev(other, env, facts, bools)
                    if x is not None and y is not None:
                        if facts.get((x, OPP[sd])) == y:
                            return []           # a node is not both the left and the right child of the same parent
                        facts[(x, sd)] = y
        return [freeze(env, facts, bools)]
    try:
        flow.run(fn, [((), (), ())], transfer, refine, limit=200000)
    except flow.TooManyStates:
        return None, 0
    return sorted(problems), n_rot[0]


def check_C06(ctx, unit):
    ctx.rule("M.rb-mirror", "red-black tree: rotateLeft/rotateRight and insert_left/insert_right have mirror-image guarded "
             "effects; inside fix_insert, fix_remove, replace_node, remove_half_leaf and the rotations every left/right case "
             "split has mirror-image arms (left<->right, rotateLeft<->rotateRight, predecessor<->successor)", 8)
    ctx.rule("H.rb-reset", "remove() leaves all five link fields of the removed node null on each of its three paths "
             "(judged on remove() with its helpers folded in, and on each helper)", 2)
    ctx.rule("H.rb-parent-child", "every write of a child link h(X)->left/right = Y is accompanied on the same path by "
             "h(Y)->parent = X unless Y is null on that path", 5)
    ctx.rule("H.rb-list", "the predecessor/successor list is maintained as a doubly linked list: h(A)->successor = B is "
             "accompanied by h(B)->predecessor = A unless B is null on that path, and vice versa", 3)
    ctx.rule("E.rb-descent", "tree_struct::insert compares (new, current): true goes left, otherwise right (equal keys keep "
             "insertion order); tree_order_struct::insert(before, x) puts x right-most when before is null, otherwise as "
             "left child of before or right-most in its left subtree", 2)
    ctx.rule("R.rb-loops", "first() and both descents move to a child on every iteration", 3)
    fns = rb_fns(unit)
    for need in ("rotateLeft", "rotateRight", "insert_left", "insert_right", "fix_insert", "fix_remove", "remove", "first"):
        if need not in fns:
            raise AnalysisBroken("anchor vanished: %s::%s" % (RB, need))
    f = lambda name: fns[name][0]
    # remove() is judged together with its non-recursive private helpers (remove_half_leaf, replace_node, or whatever
    # they are called / however they are split): the helpers are folded into one virtual function
    from .inline import inline_variant
    byd = {g.d["did"]: g for gs in fns.values() for g in gs}
    rec_names = {"fix_remove", "fix_insert", "rotateLeft", "rotateRight", "aggregate_node", "aggregate_path", "remove"}

    def sel_remove(cal):
        g = byd.get(cal.get("did"))
        return g is not None and g.get("access") in ("private", "protected") and g.name not in rec_names and (g.get("ret") or "") == "void" \
            and len(g.params()) >= 1
    remove_all = inline_variant(unit, f("remove"), sel_remove)
    check_mirror_fns(ctx, "M.rb-mirror", f("rotateLeft"), f("rotateRight"), MIRROR_RB, RB + "::rotateLeft ~ rotateRight")
    check_mirror_fns(ctx, "M.rb-mirror", f("insert_left"), f("insert_right"), MIRROR_RB, RB + "::insert_left ~ insert_right")
    ctx.rule("K.rotation-operand", "every rotation is applied to a node that is known, on that path, to be the corresponding child "
             "of its parent (rotateLeft: the right child, rotateRight: the left child): facts come from accessor reads and equality "
             "tests and are rewritten by each rotation (a per-path shape analysis over child links)", 2)
    n_rot_total = 0
    for name_, gs_ in sorted(fns.items()):
        for g_ in gs_:
            if name_ in ("rotateLeft", "rotateRight"):
                continue
            if not any(x.is_call() and x.callee and x.callee["n"] in ("rotateLeft", "rotateRight") and not x.d.get("inlined") for x in g_.events()):
                continue
            pr, nr = check_rotation_operands(ctx, "K.rotation-operand", g_)
            if pr is None:
                raise AnalysisBroken("rotation-operand analysis of %s exceeded its state budget" % g_.qn)
            n_rot_total += nr
            ctx.inst("K.rotation-operand", "%s::%s" % (RB, name_), not pr, g_.loc,
                     "; ".join(pr[:2]) if pr else "every rotation operand is a known left/right child at the call", g_)
    if n_rot_total < 8:
        raise AnalysisBroken("anchor vanished: rotation calls in the red-black tree (found %d)" % n_rot_total)
    total = 0
    for name in ("fix_insert", "fix_remove", "replace_node", "remove_half_leaf", "rotateLeft", "rotateRight", "remove"):
        if name in fns:
            total += check_mirror_if(ctx, "M.rb-mirror", f(name), MIRROR_RB, RB + "::" + name)
    for h in getattr(unit, "helpers", []):
        if (h.owner_cls or "") == RB:
            total += check_mirror_if(ctx, "M.rb-mirror", h, MIRROR_RB, RB + "::" + h.name + " (new helper)")
    if total < 5:
        raise AnalysisBroken("mirror case splits found: %d, expected at least 5" % total)

    # hook reset
    FIELDS = ("left", "right", "parent", "predecessor", "successor")

    def reset_label(fn, pnode):
        def lab(n):
            hw = hook_write(n)
            if hw and hw[1] is not None:
                x = std_unwrap(hw[1])
                hops = 0
                while x.kind == "UnaryOperator" and x.op in ("&", "*") and x.children and hops < 4:
                    # a node handed to a helper by reference: `h(&node)` names the node that `h(node)` names for a pointer
                    x, hops = std_unwrap(x.children[0]), hops + 1
                v = hw[2].strip()
                if x.kind == "DeclRefExpr" and x.d["d"] == pnode and (v.get("nullc") or v.kind == "CXXNullPtrLiteralExpr"):
                    return "reset." + hw[0]
                if x.kind == "DeclRefExpr" and x.d["d"] == pnode and hw[0] in FIELDS:
                    return "set." + hw[0]
                if x.kind == "DeclRefExpr" and x.d["d"] == pnode and hw[0] not in FIELDS:
                    # any other hook field of the removed node (the colour): what is stored into it
                    return "other.%s=%s" % (hw[0], _ids(canon(std_unwrap(v))))
            return None
        return lab
    g = remove_all
    p0 = g.params()[0]["d"]
    ex = paths_with_nullfacts(g, reset_label(g, p0))
    bad = []
    for s_ in ex:
        miss = [fl for fl in FIELDS if "reset." + fl not in s_]
        if miss:
            bad.append("a path leaves %s of the removed node set" % miss)
    if bad and "replace_node" in fns and "remove_half_leaf" in fns:
        # compositionally: every path of remove() itself hands the removed node, as first argument, to one of the two
        # unlinking helpers, each of which is held to the rule below
        r0 = f("remove")
        rp = r0.params()[0]["d"]

        def first_is_node(c):
            if not c.args:
                return False
            x = std_unwrap(c.args[0])
            hops = 0
            while x.kind == "UnaryOperator" and x.op in ("&", "*") and x.children and hops < 4:
                x, hops = std_unwrap(x.children[0]), hops + 1
            return x.kind == "DeclRefExpr" and x.d.get("d") == rp

        def tr_(n, st):
            if n.is_call() and n.callee and n.callee["n"] in ("replace_node", "remove_half_leaf") and first_is_node(n):
                return [True]
            return [st]
        _, ex_ = flow.run(r0, [False], tr_, None)
        if ex_ and all(ex_):
            bad = []
    ctx.inst("H.rb-reset", "%s::remove (with its helpers folded in)" % RB, not bad and len(ex) >= 3, g.loc,
             "; ".join(sorted(set(bad))) if bad else "all %d paths null the five link fields of the removed node" % len(ex), g)
    # sibling agreement: whichever way the node is unlinked (as a leaf / half leaf, or replaced by its predecessor), its
    # hook is left in ONE state -- a field that one unlink path resets and the other leaves alone makes what a later
    # insert (or an "is linked" test) finds depend on the shape the tree happened to have
    finals = {frozenset(l for l in s_ if isinstance(l, str) and l.startswith("other.")) for s_ in ex}
    ctx.inst("H.rb-reset", "%s::remove: unlink paths agree on the other hook fields" % RB, len(finals) <= 1, g.loc,
             "the removal paths leave the removed node's hook in different states: %s" % " / ".join(
                 sorted("{%s}" % ", ".join(sorted(x_)) for x_ in finals)) if len(finals) > 1 else
             "every path leaves the same non-link fields behind (%s)" % (", ".join(sorted(next(iter(finals)))) if finals and next(iter(finals)) else "none written"), g)
    for name in ("remove_half_leaf", "replace_node"):
        if name not in fns:
            continue
        g = f(name)
        p0 = g.params()[0]["d"]
        ex = paths_with_nullfacts(g, reset_label(g, p0))
        bad = []
        for s_ in ex:
            miss = [fl for fl in FIELDS if "reset." + fl not in s_]
            if miss:
                bad.append("a path leaves %s of the removed node set" % miss)
        ctx.inst("H.rb-reset", "%s::%s" % (RB, name), not bad and bool(ex), g.loc,
                 "; ".join(sorted(set(bad))) if bad else "all %d paths null the five link fields of the first argument" % len(ex), g)

    # parent/child and list pairing
    for name in ("rotateLeft", "rotateRight", "insert_left", "insert_right", "replace_node", "remove_half_leaf", "remove+helpers"):
        if name == "remove+helpers":
            if "replace_node" in fns and "remove_half_leaf" in fns:
                continue          # judged compositionally through the helpers above
            g = remove_all
        elif name in fns:
            g = f(name)
        else:
            continue
        ser = Ser(g)

        def lab(n, ser=ser):
            hw = hook_write(n)
            if hw and hw[1] is not None and hw[0] in ("left", "right", "parent", "predecessor", "successor"):
                x, v = ser.expr(hw[1]), ser.expr(hw[2])
                return ("w", hw[0], x, v)
            return None
        ex = paths_with_nullfacts(g, lab, ser)
        bad_pc, bad_l = [], []
        n_pc = n_l = 0
        for s in ex:
            ws = [x for x in s if isinstance(x, tuple) and x[0] == "w"]
            nulls = {x[1] for x in s if isinstance(x, tuple) and x[0] == "null"}
            for (_, fld, x, v) in ws:
                if fld in ("left", "right") and v != "null":
                    n_pc += 1
                    if ("w", "parent", v, x) not in s and v not in nulls:
                        bad_pc.append("h(%s)->%s = %s without h(%s)->parent = %s" % (x, fld, v, v, x))
                if fld == "successor" and v != "null":
                    n_l += 1
                    if ("w", "predecessor", v, x) not in s and v not in nulls:
                        bad_l.append("h(%s)->successor = %s without h(%s)->predecessor = %s" % (x, v, v, x))
                if fld == "predecessor" and v != "null":
                    n_l += 1
                    if ("w", "successor", v, x) not in s and v not in nulls:
                        bad_l.append("h(%s)->predecessor = %s without h(%s)->successor = %s" % (x, v, v, x))
        ctx.inst("H.rb-parent-child", "%s::%s" % (RB, name), not bad_pc and n_pc > 0, g.loc,
                 "; ".join(sorted(set(bad_pc))[:3]) if bad_pc else "%d child-link writes over %d paths, all paired" % (n_pc, len(ex)), g)
        if name in ("insert_left", "insert_right", "replace_node", "remove_half_leaf", "remove+helpers"):
            ctx.inst("H.rb-list", "%s::%s" % (RB, name), not bad_l and n_l > 0, g.loc,
                     "; ".join(sorted(set(bad_l))[:3]) if bad_l else "%d list-link writes over %d paths, all paired" % (n_l, len(ex)), g)

    from .rules_link import check_conditional_snapshot
    ctx.rule("K.stale-after-rebalance", "after a call that may rebalance the tree without bound (fix_insert, fix_remove and whatever "
             "reaches them) no local read from a child or parent link before that call is used again", 3)
    check_stale_after_rebalance(ctx, "K.stale-after-rebalance", fns)
    ctx.rule("H.colour-on-entry", "insert_root/insert_left/insert_right, read with one level of fix_insert, write the colour of "
             "the node they link in on every path: an inserted node's colour never depends on what its hook held before", 3)
    check_colour_on_entry(ctx, "H.colour-on-entry", unit, fns)
    ctx.rule("K.conditional-snapshot", "a local snapshot of a hook field (colour, link) is not used after that field was "
             "rewritten on some but not all of the paths from the snapshot to the use", 1)
    check_conditional_snapshot(ctx, "K.conditional-snapshot", [g_ for gs_ in fns.values() for g_ in gs_])
    # descent -- both decided by small path-sensitive interpretations of the function, not by the shape of its branches
    ts = [x for x in unit.functions if x.owner_cls == "frg::_redblack::tree_struct" and x.name == "insert"]
    for g in ts[:1]:
        problems = _check_ordered_insert(g)
        ctx.inst("E.rb-descent", "frg::_redblack::tree_struct::insert", not problems, g.loc,
                 "; ".join(problems[:3]) if problems else "less(new, current) true -> left, false -> right (every path, any control-flow shape)", g)
    to = [x for x in unit.functions if x.owner_cls == "frg::_redblack::tree_order_struct" and x.name == "insert"]
    for g in to[:1]:
        problems = _check_positional_insert(g)
        ctx.inst("E.rb-descent", "frg::_redblack::tree_order_struct::insert", not problems, g.loc,
                 "; ".join(problems[:3]) if problems else "null -> right-most; else left child of `before` or right-most of its left subtree", g)
    # loops
    from .rules_parse import check_loop_progress
    for g in [f("first")] + ts[:1] + to[:1]:
        check_loop_progress(ctx, "R.rb-loops", g, None)
        # every value a loop assigns to its cursor variables is a child (get_left/get_right) of a cursor
        # variable, possibly passed through another local of the loop: the walk only ever goes down
        for nl in flow.natural_loops(g):
            assigned = {}
            for b in nl.body:
                for n in g.blocks[b].nodes():
                    tgt, rhs = None, None
                    if n.kind == "BinaryOperator" and n.op == "=":
                        tgt, rhs = n.children[0].strip(), n.children[1]
                    elif n.kind == "DeclStmt":
                        for d in n.get("decls", []):
                            if "init" in d:
                                assigned.setdefault(d["d"], []).append(g.node(d["init"]))
                        continue
                    if tgt is not None and tgt.kind == "DeclRefExpr" and tgt.get("local"):
                        assigned.setdefault(tgt.d["d"], []).append(rhs)
            # loop-header declarations (for-init) belong to the loop's variables as well
            for d, init in RA.local_inits(g).items():
                if d in assigned:
                    assigned[d].append(init)
            ptrs = {d for d in assigned}
            bad = []
            down = 0
            for d, vals in assigned.items():
                # a step computed by a folded helper or closure is judged by the values it returns
                from .ir import value_leaves
                for v in [l for v0 in vals for l in value_leaves(g, v0)]:
                    x = v.strip()
                    while x.kind in ("ImplicitCastExpr", "CXXStaticCastExpr") and x.children:
                        x = x.children[0].strip()
                    if x.is_call() and x.callee and x.callee["n"] in ("get_left", "get_right", "get_root"):
                        down += 1
                        continue
                    if x.kind == "DeclRefExpr" and (x.d["d"] in ptrs or x.get("dk") == "ParmVar"):
                        continue
                    if x.is_call() and x.callee and x.callee["n"] in ("get_parent", "predecessor", "successor"):
                        bad.append("%s at %s moves the cursor up/sideways" % (_ids(canon(x)), x.loc))
            if assigned:
                ctx.inst("R.rb-loops", "%s: loop at block %d descends" % (g.sig, nl.header), not bad and down > 0, g.loc,
                         "; ".join(bad) if bad else "%d cursor updates, all to a child" % down, g)


def check_stale_after_rebalance(ctx, rule, fns):
    """After a call that may rebalance the tree (any function, other than a rotation itself, from which a rotation is
    reached: fix_insert / fix_remove and whatever calls them), a local that was read from a child or parent link before
    the call no longer says anything about the tree: it must not be used again."""
    from . import rules_atomic as RA
    allf = [g for gs in fns.values() for g in gs]
    byd = {g.d["did"]: g for g in allf}
    callees = {g.d["did"]: {n.callee["did"] for n in g.events() if n.is_call() and n.callee and n.callee.get("did") in byd} for g in allf}
    rot = {d for d, g in byd.items() if g.name in ("rotateLeft", "rotateRight", "rotate")}
    if not rot:
        raise AnalysisBroken("anchor vanished: rotations of %s" % RB)
    reach = set(rot)
    changed = True
    while changed:
        changed = False
        for d, cs in callees.items():
            if d not in reach and cs & reach:
                reach.add(d)
                changed = True
    # everything that reaches a rotation, the rotations themselves excepted: after a single rotation the function that asked for
    # it knows what moved; after a call of anything that rebalances (fix_insert / fix_remove, recursive or as a loop, and whatever
    # calls them) nothing about the neighbourhood is known
    unb = reach - rot
    if not unb:
        raise AnalysisBroken("anchor vanished: no rebalancing function in %s" % RB)
    n_calls = 0
    for g in allf:
        ms = [n for n in g.events() if n.is_call() and n.callee and n.callee.get("did") in unb]
        if not ms:
            continue
        n_calls += len(ms)
        inits = RA.local_inits(g)
        snaps = {}
        for d_, i_ in inits.items():
            x_ = std_unwrap(i_)
            hops = 0
            while x_.kind in ("ImplicitCastExpr", "CXXStaticCastExpr", "ParenExpr", "CStyleCastExpr") and x_.children and hops < 6:
                x_, hops = x_.children[0].strip(), hops + 1
            if x_.is_call() and x_.callee and x_.callee["n"] in ("get_left", "get_right", "get_parent"):
                snaps[d_] = x_.callee["n"]
            elif x_.kind == "MemberExpr" and x_.get("m") in ("left", "right", "parent") and x_.children \
                    and std_unwrap(x_.children[0]).is_call() and (std_unwrap(x_.children[0]).callee or {}).get("n") == "h":
                snaps[d_] = "h()->" + x_.get("m")
        bad = []
        for n in g.events():
            if n.kind == "DeclRefExpr" and n.d.get("d") in snaps and not RA._reassigned(g, n.d["d"]):
                di = inits[n.d["d"]]
                for m_ in ms:
                    if g.reaches(m_.id, n.id) and g.reaches(di.id, m_.id) and not any(a.id == n.id for arg in m_.args for a in arg.walk()):
                        bad.append("%s (read through %s) is used at %s after %s at %s may have rebalanced the tree" % (
                            n.n, snaps[n.d["d"]], n.loc, m_.callee["n"], m_.loc))
        ctx.inst(rule, g.sig, not bad, g.loc, "; ".join(sorted(set(bad))[:2]) if bad else
                 "%d rebalancing call(s); no earlier child/parent snapshot is used afterwards" % len(ms), g)
    if n_calls < 3:
        raise AnalysisBroken("anchor vanished: calls of rebalancing functions in %s (found %d)" % (RB, n_calls))


def params_overwritten_unread(f):
    """[(param name, location)]: a parameter is assigned on a path on which nothing has read it yet -- what the caller
    passed is dropped on that path."""
    out = []
    for p_ in f.params():
        did = p_["d"]
        if not p_.get("n"):
            continue
        lhs = set()
        writes = {}
        for n in f.all_nodes():
            if n.kind == "BinaryOperator" and n.op == "=":
                l = n.children[0].strip()
                if l.kind == "DeclRefExpr" and l.d.get("d") == did:
                    lhs.add(l.id)
                    lhs.add(n.children[0].id)
                    writes[n.id] = n
        if not writes:
            continue
        hit = []

        def tr(n, st, did=did, lhs=lhs, writes=writes, hit=hit):
            if st == "read":
                return [st]
            if n.kind == "DeclRefExpr" and n.d.get("d") == did and n.id not in lhs:
                return ["read"]
            if n.id in writes:
                hit.append(n.loc)
                return ["read"]
            return [st]
        flow.run(f, ["unread"], tr)
        for l in sorted(set(hit)):
            out.append((p_["n"], l))
    return out


def check_colour_on_entry(ctx, rule, unit, fns):
    """Every insertion entry point (insert_root / insert_left / insert_right), read together with one level of fix_insert,
    writes the colour of the node it links in on every path to its end: the colour an inserted node starts from is decided
    by the insertion, not by whatever the hook held (a hook keeps the colour it had when the node was last removed)."""
    from .inline import inline_variant
    n_inst = 0
    for name in ("insert_root", "insert_left", "insert_right"):
        for f0 in fns.get(name, [])[:1]:
            f = inline_variant(unit, f0, lambda cal: cal.get("n") == "fix_insert", rounds=1)
            node_did = f0.params()[-1]["d"]
            bm = f.bind_map()

            def root(x, f=f, bm=bm):
                x = std_unwrap(x)
                hops = 0
                while x.kind in ("ImplicitCastExpr", "CXXStaticCastExpr", "ParenExpr", "CStyleCastExpr") and x.children and hops < 6:
                    x, hops = std_unwrap(x.children[0]), hops + 1
                hops = 0
                while x.kind == "DeclRefExpr" and x.d.get("d") in bm and hops < 8:
                    x, hops = std_unwrap(f.node(bm[x.d["d"]])), hops + 1
                return x.d.get("d") if x.kind == "DeclRefExpr" else None

            # state: (colour written?, locals currently equal to the inserted node) -- a cursor of an iterative fix-up
            # (`T *current = start; ... current = grand;`) names the inserted node only until it is moved
            def tr(n, st, root=root):
                done, al = st
                if done:
                    return [st]
                if n.kind == "DeclStmt":
                    for d in n.get("decls", []):
                        if "init" in d and root(f.node(d["init"])) in al | {node_did}:
                            al = al | {d["d"]}
                    return [(done, al)]
                if n.kind == "ParamBind" and "init" in n.d:
                    # the parameter of a folded helper that the helper assigns to (an iterative fix-up moving `n` upwards)
                    if root(f.node(n.d["init"])) in al | {node_did}:
                        al = al | {n.d["d"]}
                    return [(done, al)]
                if n.kind == "BinaryOperator" and n.op == "=":
                    l = n.children[0].strip()
                    if l.kind == "DeclRefExpr" and l.d.get("d") != node_did and l.get("dk") in (None, "Var", "ParmVar"):
                        r = root(n.children[1])
                        al = (al | {l.d["d"]}) if (r == node_did or r in al) else (al - {l.d["d"]})
                        return [(done, al)]
                    if l.kind == "MemberExpr" and l.get("m") == "color" and l.children:
                        b = std_unwrap(l.children[0])
                        if b.is_call() and b.callee and b.callee["n"] == "h" and b.args:
                            r = root(b.args[-1])
                            if r == node_did or r in al:
                                return [(True, frozenset())]
                return [(done, al)]
            _, ex = flow.run(f, [(False, frozenset())], tr)
            ok = bool(ex) and all(e[0] for e in ex)
            n_inst += 1
            ctx.inst(rule, "%s::%s (with fix_insert)" % (RB, name), ok, f0.loc,
                     "the colour of the inserted node is written on every path to the end" if ok else
                     "a path reaches the end of %s/fix_insert without writing the colour of the inserted node: the node keeps "
                     "whatever colour its hook held (e.g. black from before it was last removed)" % name, f0)
    if n_inst < 3:
        raise AnalysisBroken("anchor vanished: insert_root/insert_left/insert_right")


# ---- C07 ------------------------------------------------------------------------------------------------

def bool_eval(n, val, ser):
    """Evaluate a boolean tree of <=, <, &&, ||, ! over atoms; val(atom canon) -> int."""
    n = std_unwrap(n)
    if n.kind == "BinaryOperator":
        if n.op == "&&":
            return bool_eval(n.children[0], val, ser) and bool_eval(n.children[1], val, ser)
        if n.op == "||":
            return bool_eval(n.children[0], val, ser) or bool_eval(n.children[1], val, ser)
        if n.op in ("<=", "<", ">=", ">", "==", "!="):
            def opval(x, depth=0):
                # an operand computed by a folded helper with one result is that result; `c ? a : b` takes the arm the
                # valuation selects; a value-initialised object (`P{}`) is zero
                v_ = val(ser.expr(x))
                if v_ is not None or depth > 6:
                    return v_
                y = std_unwrap(x)
                if y.d.get("inlined") and len(y.d.get("rets") or []) == 1:
                    return opval(y.fn.node(y.d["rets"][0]), depth + 1)
                if y.kind == "ConditionalOperator" and len(y.children) == 3:
                    return opval(y.children[1] if bool_eval(y.children[0], val, ser) else y.children[2], depth + 1)
                if y.kind in ("CXXScalarValueInitExpr", "ImplicitValueInitExpr") or (y.kind in ("InitListExpr", "CXXFunctionalCastExpr") and ser.expr(y) in ("{}", "0")):
                    return 0
                return None
            a, b = opval(n.children[0]), opval(n.children[1])
            if a is None or b is None:
                raise KeyError(ser.expr(n))
            return {"<=": a <= b, "<": a < b, ">=": a >= b, ">": a > b, "==": a == b, "!=": a != b}[n.op]
    if n.kind == "UnaryOperator" and n.op == "!":
        return not bool_eval(n.children[0], val, ser)
    if n.kind == "DeclRefExpr" and n.get("local") and n.get("dk") == "Var":
        # a named, once-initialised bool (`const bool overlaps = lo <= ub && lb <= hi;`) stands for its initialiser
        ini = RA.local_inits(n.fn).get(n.d["d"])
        if ini is not None and not RA._reassigned(n.fn, n.d["d"]):
            return bool_eval(ini, val, ser)
    v = val(ser.expr(n))
    if v is None:
        raise KeyError(ser.expr(n))
    return bool(v)


def check_C07(ctx, unit, thorough=False):
    IT = "frg::interval_tree"
    ctx.rule("Q.overlap-predicate", "the overlap test of _for_overlaps_in_subtree equals (lo <= ub and lb <= hi) on every weak "
             "ordering of (lo, hi, lb, ub) with lo <= hi and lb <= ub (exhaustive order-type enumeration of the extracted expression)", 1)
    ctx.rule("Q.prune-sound", "the left-subtree guard is sound: whenever it is false no interval with hi <= subtree_max of the "
             "left child overlaps; and when it holds but the left subtree has no overlap, no node with a lower bound >= the "
             "left witness's can overlap (CLRS skip-right argument), enumerated over all order types", 2)
    ctx.rule("E.search-structure", "the callback runs only under the overlap test; an overlapping node searches both children and "
             "returns true; otherwise the left subtree is searched only under the guard and the right one only if the left search "
             "reported a hit, or (guard false) directly; `return true` only after a callback or a successful recursive search", 1)
    ctx.rule("H.aggregate-after-relink", "in the red-black tree (instantiated with the interval aggregator) every write of a "
             "child link of node X is followed on every path by aggregate_node(X) or aggregate_path(X), children before parents; "
             "the only exception is the grand-parent slot in a rotation (its subtree set is unchanged)", 6)
    ctx.rule("M.aggregator", "aggregator::aggregate starts from the node's own upper bound and treats the left and right child "
             "alike; insert() seeds subtree_max with the node's upper bound before linking; nodes are ordered by lower bound", 3)
    fs = [f for f in unit.functions if f.owner_cls == IT and f.name == "_for_overlaps_in_subtree"]
    if not fs:
        raise AnalysisBroken("anchor vanished: _for_overlaps_in_subtree")
    g = fs[0]
    ser = Ser(g)
    body = g.node(g.d["body"])
    ifs = [n for n in body.walk() if n.kind == "IfStmt" and not is_assert_stmt(n)]
    cbs = [n for n in g.events() if n.kind == "CXXOperatorCallExpr" and n.args and std_unwrap(n.args[0]).kind == "DeclRefExpr"
           and std_unwrap(n.args[0]).d["d"] == g.params()[0]["d"]]
    if len(cbs) != 1:
        raise AnalysisBroken("anchor vanished: callback invocation in _for_overlaps_in_subtree (found %d)" % len(cbs))
    cb = cbs[0]
    ov = None
    for n in ifs:
        t = n.child("then")
        if t is not None and any(x.id == cb.id for x in t.walk()):
            if ov is None or len(list(n.walk())) < len(list(ov.walk())):
                ov = n
    pr = [n for n in ifs if "subtree_max" in ser.expr(n.child("cond"))]
    if ov is None or len(pr) != 1:
        raise AnalysisBroken("anchor vanished: overlap test / pruning guard")
    ovc, prc = ov.child("cond"), pr[0].child("cond")
    gp = g.params()
    if len(gp) != 4:
        raise AnalysisBroken("anchor vanished: _for_overlaps_in_subtree(fn, lb, ub, node) signature")
    LBN, UBN, NODE = gp[1]["n"], gp[2]["n"], gp[3]["n"]
    LO, HI = "lower(%s)" % NODE, "upper(%s)" % NODE
    # the bounds of a query are fixed when the query starts: the walker compares every node against objects that belong to
    # the query (its own by-value parameters, or by-value parameters / locals of the function that starts the walk), never
    # against references to storage of the caller that the callback may write to between two nodes
    ctx.rule("W.query-bounds-owned", "the bounds the interval walk compares against are by-value parameters of the walker, or "
             "references to by-value parameters / locals of the for_overlaps() that starts it: a callback that writes to the "
             "objects it passed as bounds cannot change the query under way", 1)
    byref = [p_ for p_ in gp[1:3] if p_["t"].rstrip().endswith("&")]
    badq = []
    if byref:
        starters = [(f_, n_) for f_ in unit.functions if f_.owner_cls == IT and f_.name != g.name
                    for n_ in f_.events() if n_.is_call() and n_.callee and n_.callee["n"] == g.name]
        if not starters:
            badq.append("%s takes %s by reference and nothing inside the class starts the walk with objects of its own" % (g.name, byref[0]["n"]))
        ent = {f_.d["did"] for f_, _ in starters}
        work = list(starters)
        seen_ = set()
        while work:
            f_, n_ = work.pop()
            for idx in (1, 2):
                if not gp[idx]["t"].rstrip().endswith("&") and n_.callee["n"] == g.name:
                    continue
                a_ = std_unwrap(n_.args[idx]) if len(n_.args) > idx else None
                if n_.callee["n"] != g.name:
                    a_ = None
                if a_ is None or a_.kind != "DeclRefExpr" or (a_.get("t") or "").rstrip().endswith("&") or \
                        any(pp_["d"] == a_.d.get("d") and pp_["t"].rstrip().endswith("&") for pp_ in f_.params()):
                    badq.append("%s passes %s to %s, which keeps a reference to it for the whole walk" % (
                        f_.name, _ids(canon(n_.args[idx]))[:40] if len(n_.args) > idx else "?", g.name))
    ctx.inst("W.query-bounds-owned", IT + "::" + g.name, not badq, g.loc,
             "; ".join(sorted(set(badq))[:2]) if badq else
             ("bounds taken by value (%s, %s)" % (gp[1]["t"], gp[2]["t"]) if not byref else
              "bounds are references to by-value parameters or locals of the starting function"), g)
    atoms = set()

    def spec(lo, hi, lb, ub):
        return lo <= ub and lb <= hi
    bad = None
    cnt = 0
    try:
        for lo, hi, lb, ub in itertools.product(range(4), repeat=4):
            if lo > hi or lb > ub:
                continue
            cnt += 1
            v = {LO: lo, HI: hi, LBN: lb, UBN: ub}
            got = bool_eval(ovc, lambda a: v.get(a), ser)
            if got != spec(lo, hi, lb, ub):
                bad = "lo=%d hi=%d lb=%d ub=%d: test gives %s, overlap is %s" % (lo, hi, lb, ub, got, spec(lo, hi, lb, ub))
                break
    except KeyError as e:
        raise AnalysisBroken("overlap test contains an atom the enumeration does not know: %s" % e)
    ctx.inst("Q.overlap-predicate", IT + "::_for_overlaps_in_subtree: overlap test", bad is None, ovc.loc,
             bad or "%d order-type representatives, expression %s" % (cnt, ser.expr(ovc)), g)
    ctx.cross.append({"rule": "Q.overlap-predicate", "exhaustive": True, "cases": cnt})
    # pruning guard: atoms left (non-null), lb, h(left).subtree_max
    M = "h(get_left(%s)).subtree_max" % NODE

    def guard(lb, m, ub=None):
        v = {"get_left(%s)" % NODE: 1, LBN: lb, UBN: ub, M: m}
        return bool_eval(prc, lambda a: v.get(a), ser)
    bad = None
    cnt = 0
    try:
        R = range(5)
        for lo, hi, lb, ub, m in itertools.product(R, repeat=5):
            if lo > hi or lb > ub or hi > m:
                continue
            cnt += 1
            if not guard(lb, m, ub):
                v = {LO: lo, HI: hi, LBN: lb, UBN: ub}
                if bool_eval(ovc, lambda a: v.get(a), ser) or spec(lo, hi, lb, ub):
                    bad = "guard false with subtree_max=%d but [%d,%d] overlaps [%d,%d]" % (m, lo, hi, lb, ub)
                    break
    except KeyError as e:
        raise AnalysisBroken("pruning guard contains an atom the enumeration does not know: %s" % e)
    ctx.inst("Q.prune-sound", IT + "::_for_overlaps_in_subtree: guard false => nothing on the left", bad is None, prc.loc,
             bad or "%d order types, guard %s" % (cnt, ser.expr(prc)), g)
    bad = None
    cnt = 0
    R = range(6) if thorough else range(5)
    for lo1, hi1, lb, ub, lo2, hi2 in itertools.product(R, repeat=6):
        if lo1 > hi1 or lb > ub or lo2 > hi2 or lo1 > lo2:
            continue
        cnt += 1
        if guard(lb, hi1, ub):
            v1 = {LO: lo1, HI: hi1, LBN: lb, UBN: ub}
            if not bool_eval(ovc, lambda a: v1.get(a), ser):
                if spec(lo2, hi2, lb, ub):
                    bad = "left witness [%d,%d] (max) misses [%d,%d] yet right node [%d,%d] overlaps" % (lo1, hi1, lb, ub, lo2, hi2)
                    break
    ctx.inst("Q.prune-sound", IT + "::_for_overlaps_in_subtree: no left hit => nothing on the right", bad is None, prc.loc,
             bad or "%d order types of (left witness, query, right node)" % cnt, g)
    # structure, decided by a path-sensitive interpretation over small concrete order types: for every valuation of
    # (lo, hi, lb, ub, subtree_max of the left child, left present?, right present?) and every outcome of the recursive
    # searches, the walk through the CFG must satisfy:
    #   (a) the callback runs iff the node overlaps the query;
    #   (b) the result is  overlap  or  (left searched and hit)  or  (right searched and hit);
    #   (c) the left subtree is skipped only when the guard (left && lb <= subtree_max) fails; the right subtree is
    #       skipped only when the node does not overlap, the guard holds and the left search reported no hit;
    #   (d) an absent child is never searched.
    problems = set()
    LEFT, RIGHT = "get_left(%s)" % NODE, "get_right(%s)" % NODE
    recs = [n for n in g.events() if n.is_call() and n.callee and n.callee["did"] == g.did]
    if len(recs) < 3:
        raise AnalysisBroken("anchor vanished: recursive searches in _for_overlaps_in_subtree (found %d)" % len(recs))
    side_of = {}
    for n in recs:
        t = ser.expr(n.args[-1])
        side_of[n.id] = "L" if t == LEFT else ("R" if t == RIGHT else "?")
    if "?" in side_of.values():
        problems.add("a recursive search is not on get_left(node) / get_right(node)")

    def run_case(lo, hi, lb, ub, m, L, R):
        # state: (visitedL, resL, visitedR, resR, cb, rv)
        def mkval(st):
            def val(x):
                x = x.strip()
                if x.id in side_of:
                    return {"L": st[1], "R": st[3]}.get(side_of[x.id])
                t = ser.expr(x)
                if t == LO:
                    return lo
                if t == HI:
                    return hi
                if t == M:
                    return m if L else None
                if t == LEFT:
                    return L
                if t == RIGHT:
                    return R
                xs = std_unwrap(x)
                if xs.kind == "DeclRefExpr" and xs.get("dk") == "ParmVar":
                    if xs.n == LBN:
                        return lb
                    if xs.n == UBN:
                        return ub
                # the value of a virtually inlined helper / lambda call is the value of its return expression, and a
                # named once-initialised bool stands for its initialiser (both evaluated in the current state)
                x0 = x.strip()
                if x0.d.get("inlined") and len(x0.d.get("rets", [])) == 1:
                    return flow.sem_eval(g.node(x0.d["rets"][0]), val)
                if x0.kind == "DeclRefExpr" and x0.get("local") and len(st) > 6 and x0.d["d"] in dict(st[6]):
                    return dict(st[6])[x0.d["d"]]       # a flag that is assigned along the way (single-exit forms)
                if x0.kind == "DeclRefExpr" and x0.get("local") and x0.get("dk") == "Var":
                    ini = RA.local_inits(g).get(x0.d["d"])
                    if ini is not None and not RA._reassigned(g, x0.d["d"]) and (ini.get("t") or ini.strip().get("t") or "") in ("bool", "_Bool"):
                        return flow.sem_eval(ini, val)
                return None
            return val

        def transfer(n, st0):
            env = st0[6]
            st = st0[:6]
            out = transfer_(n, st, env)
            # flags: a reassigned local holds what its last assignment evaluated to in the state after that statement
            tgt, rhs = None, None
            if n.kind == "BinaryOperator" and n.op == "=" and std_unwrap(n.children[0]).kind == "DeclRefExpr" and std_unwrap(n.children[0]).get("local"):
                tgt, rhs = std_unwrap(n.children[0]).d["d"], n.children[1]
            elif n.kind == "DeclStmt":
                for d_ in n.get("decls", []):
                    if "init" in d_ and RA._reassigned(g, d_["d"]):
                        tgt, rhs = d_["d"], g.node(d_["init"])
            res = []
            for o in out:
                e2 = env
                if tgt is not None:
                    v_ = flow.sem_eval(rhs, mkval(tuple(o) + (env,)))
                    m_ = dict(env)
                    if v_ is None:
                        m_.pop(tgt, None)
                    else:
                        m_[tgt] = int(v_)
                    e2 = tuple(sorted(m_.items()))
                res.append(tuple(o) + (e2,))
            return res

        def transfer_(n, st, env=()):
            vl, rl, vr, rr, cbc, rv = st[:6]
            if n.id in side_of:
                sd = side_of[n.id]
                if sd == "L":
                    if not L:
                        problems.add("the left child is searched although it is absent (%s)" % n.loc)
                        return []
                    return [(True, 1, vr, rr, cbc, rv), (True, 0, vr, rr, cbc, rv)]
                if sd == "R":
                    if not R:
                        problems.add("the right child is searched although it is absent (%s)" % n.loc)
                        return []
                    return [(vl, rl, True, 1, cbc, rv), (vl, rl, True, 0, cbc, rv)]
            if n.id == cb.id:
                return [(vl, rl, vr, rr, True, rv)]
            if n.kind == "ReturnStmt" and n.child("val") is not None:
                v = flow.sem_eval(n.child("val"), mkval(tuple(st) + (env,)))
                return [(vl, rl, vr, rr, cbc, v)]
            return [st]

        def refine(cond, truth, st):
            v = flow.sem_eval(cond, mkval(st))
            if v is None or bool(v) == truth:
                return [st]
            return []
        _, ex = flow.run(g, [(False, None, False, None, False, None, ())], transfer, refine, limit=200000)
        ovl = spec(lo, hi, lb, ub)
        gd = bool(L) and lb <= m
        for (vl, rl, vr, rr, cbc, rv, _env) in ex:
            where = "lo=%d hi=%d lb=%d ub=%d max(left)=%d left=%d right=%d" % (lo, hi, lb, ub, m, L, R)
            if cbc != ovl:
                problems.add("callback %s although the node %s the query (%s)" % ("runs" if cbc else "does not run", "overlaps" if ovl else "misses", where))
            want = ovl or (vl and bool(rl)) or (vr and bool(rr))
            if rv is None or bool(rv) != bool(want):
                problems.add("returns %s, expected %s = overlap or a hit below (%s)" % (rv, want, where))
            if L and not vl and (gd or ovl):
                problems.add("left subtree skipped although %s (%s)" % ("the node overlaps" if ovl else "the guard holds", where))
            if R and not vr and not (not ovl and gd and vl and not rl):
                problems.add("right subtree skipped without a failed guarded left search (%s)" % where)
        return len(ex)
    n_cases = n_paths = 0
    rng = range(3)
    for lo, hi, lb, ub in itertools.product(rng, repeat=4):
        if lo > hi or lb > ub:
            continue
        for L, R in ((0, 0), (0, 1), (1, 0), (1, 1)):
            for m in (rng if L else (0,)):
                n_cases += 1
                n_paths += run_case(lo, hi, lb, ub, m, L, R)
                if len(problems) > 6:
                    break
    # who may call: the query callback is invoked nowhere but in the search whose structure was just decided (a second,
    # specialised traversal -- e.g. for point queries -- would answer queries without any of the guarantees above)
    for f2 in unit.functions:
        if f2.owner_cls != IT or f2.did == g.did or (f2.owner_clsqn or "") != (g.owner_clsqn or ""):
            continue
        for n2 in f2.events():
            if n2.kind == "CXXOperatorCallExpr" and n2.callee and n2.callee.get("op") == "()" and n2.args:
                a0 = std_unwrap(n2.args[0])
                if a0.kind == "DeclRefExpr" and a0.get("dk") == "ParmVar" and len(n2.args) == 2:
                    problems.add("the query callback is also invoked in %s (at %s), outside the search whose structure is verified" % (f2.name, n2.loc))
    ctx.inst("E.search-structure", IT + "::_for_overlaps_in_subtree", not problems, g.loc,
             "; ".join(sorted(problems)[:3]) if problems else
             "%d valuations x recursive outcomes (%d paths): callback iff overlap; result = overlap or hit below; subtrees skipped only as the guard allows" % (n_cases, n_paths), g)
    # aggregate after relink: rbtree instantiated with the interval aggregator
    fns = {}
    for f in unit.functions:
        if f.owner_cls == RB and "interval_tree" in (f.owner_clsqn or ""):
            fns.setdefault(f.name, []).append(f)
    if "rotateLeft" not in fns:
        raise AnalysisBroken("anchor vanished: red-black tree instantiated with the interval aggregator")
    units_ = [(name, fns[name][0]) for name in ("rotateLeft", "rotateRight", "insert_left", "insert_right", "replace_node", "remove_half_leaf")
              if name in fns]
    if "replace_node" not in fns or "remove_half_leaf" not in fns:
        # a helper was folded into remove(): judge remove() with its remaining non-recursive helpers folded in as well
        from .inline import inline_variant
        byd = {g.d["did"]: g for gs in fns.values() for g in gs}
        rec_names = {"fix_remove", "fix_insert", "rotateLeft", "rotateRight", "aggregate_node", "aggregate_path", "remove"}

        def sel_remove(cal):
            g = byd.get(cal.get("did"))
            return g is not None and g.get("access") in ("private", "protected") and g.name not in rec_names and (g.get("ret") or "") == "void" \
                and len(g.params()) >= 2
        if "remove" not in fns:
            raise AnalysisBroken("anchor vanished: %s::remove [interval aggregator]" % RB)
        units_.append(("remove (with its helpers folded in)", inline_variant(unit, fns["remove"][0], sel_remove)))
    # members that rotate (directly): a rebalancing step re-aggregates only the nodes it rotates and relies on every other
    # aggregate on the path being current
    rebalancers = set()
    for gs in fns.values():
        for g_ in gs:
            if g_.name.startswith("rotate"):
                continue
            if any(x.is_call() and x.callee and x.callee["n"] in ("rotateLeft", "rotateRight") for x in g_.events()):
                rebalancers.add(g_.did)
    for name, f in units_:
        sr = Ser(f)

        def lab(n, sr=sr, f=f):
            hw = hook_write(n)
            if hw and hw[1] is not None and hw[0] in ("left", "right"):
                v = sr.expr(hw[2])
                if v == "null":
                    return None
                return ("need", sr.expr(hw[1]), n.id)
            if hw and hw[1] is not None and hw[0] == "parent":
                return ("pw", sr.expr(hw[1]), sr.expr(hw[2]))
            if n.is_call() and n.callee and n.callee["n"] in ("aggregate_node", "aggregate_path") and n.args:
                return ("agg", sr.expr(n.args[0]), n.id)
            if n.is_call() and n.callee and n.callee.get("did") in rebalancers:
                return ("reb", n.callee["n"], n.id)
            return None
        ex = paths_with_nullfacts(f, lab, sr)
        bad = []
        n_need = 0
        EXEMPT = {"rotateLeft": "get_parent(get_parent(n))", "rotateRight": "get_parent(get_parent(n))"}
        for s in ex:
            needs = [x for x in s if isinstance(x, tuple) and x[0] == "need"]
            aggs = [x for x in s if isinstance(x, tuple) and x[0] == "agg"]
            for (_, x, nid) in needs:
                if EXEMPT.get(name) == x:
                    continue
                n_need += 1
                after = [a for a in aggs if a[1] == x and f.reaches(nid, a[2])]
                if not after:
                    bad.append("child link of %s written at %s and not re-aggregated afterwards" % (x, f.node(nid).loc))
                for rb_ in [y for y in s if isinstance(y, tuple) and y[0] == "reb"]:
                    if f.reaches(nid, rb_[2]) and not any(f.reaches(a[2], rb_[2]) for a in after):
                        bad.append("%s() at %s rebalances before the aggregate of %s (child link written at %s) was refreshed: its "
                                   "rotations make the later walk-up stop early" % (rb_[1], f.node(rb_[2]).loc, x, f.node(nid).loc))
            if name.startswith("rotate"):
                au = [a for a in aggs if a[1] == "get_parent(n)"]
                an = [a for a in aggs if a[1] == "n"]
                if au and an and not f.reaches(au[0][2], an[0][2]):
                    bad.append("the rotated-down node must be aggregated before its new parent")
            if name == "replace_node" or name.startswith("remove ("):
                # a node spliced in under a new parent is refreshed itself (aggregate_node) before the walk up from that
                # parent (aggregate_path) starts: the walk stops at the first unchanged ancestor
                calls_ = {a[2]: f.node(a[2]).callee["n"] for a in aggs}
                an_ = [a for a in aggs if calls_[a[2]] == "aggregate_node"]
                ap_ = [a for a in aggs if calls_[a[2]] == "aggregate_path"]
                pws = [x for x in s if isinstance(x, tuple) and x[0] == "pw"]
                for a1 in an_:
                    newparents = {v for (_, x_, v) in pws if x_ == a1[1]}
                    for a2 in ap_:
                        if a2[1] not in newparents:
                            continue
                        if f.reaches(a2[2], a1[2]) and not f.reaches(a1[2], a2[2]):
                            bad.append("aggregate_path at %s runs before aggregate_node at %s on a path" % (f.node(a2[2]).loc, f.node(a1[2]).loc))
                if name == "replace_node" and (not an_ or not ap_):
                    bad.append("replace_node must refresh the replacement (aggregate_node) and then walk up from its new parent "
                               "(aggregate_path): found %d / %d calls on a path" % (len(an_), len(ap_)))
        ctx.inst("H.aggregate-after-relink", "%s::%s [interval aggregator]" % (RB, name), not bad and n_need > 0, f.loc,
                 "; ".join(sorted(set(bad))[:3]) if bad else "%d child-link writes, each followed by re-aggregation" % n_need, f)
    for f in fns.get("aggregate_path", [])[:1]:
        # stated on the CFG (for/while/do, break or return alike): aggregate(c) is called on a cursor c inside a loop, the
        # cursor moves to get_parent(c) on the way round, and the loop is left early only where aggregate(c) is known false
        problems = []
        aggs = [n for n in f.events() if n.is_call() and n.callee and n.callee["n"] == "aggregate" and n.args and _local_did(n.args[-1]) is not None]
        loops = [lp for lp in flow.natural_loops(f) if aggs and f.positions()[aggs[0].id][0] in lp.body]
        if len(aggs) != 1 or not loops:
            problems.append("no aggregate(cursor) call inside a loop")
        else:
            ag, lp = aggs[0], min(loops, key=lambda l: len(l.body))
            cur = _local_did(ag.args[-1])
            ups = [n for n in f.events() if n.kind == "BinaryOperator" and n.op == "=" and _local_did(n.children[0]) == cur
                   and f.positions()[n.id][0] in lp.body and std_unwrap(n.children[1]).is_call() and std_unwrap(n.children[1]).callee
                   and std_unwrap(n.children[1]).callee["n"] == "get_parent" and _local_did(std_unwrap(n.children[1]).args[-1]) == cur]
            if not ups:
                problems.append("the cursor is not advanced to get_parent(cursor) inside the loop")

            def agg_false(cond, truth):
                c, t = cond.strip(), truth
                while True:
                    if c.kind == "UnaryOperator" and c.op == "!":
                        c, t = c.children[0].strip(), not t
                    elif c.kind == "BinaryOperator" and c.op in ("&&", "||") and any(x.id == ag.id for x in c.children[1].walk()):
                        # the block that evaluates the right operand of a short-circuit branches on that operand
                        c = c.children[1].strip()
                    else:
                        break
                return std_unwrap(c).id == ag.id and t is False
            for b in sorted(lp.body):
                if b == lp.header:
                    continue
                for succ, cond, truth in f.branch_edges(b):
                    if succ in lp.body:
                        continue
                    ok_edge = cond is not None and agg_false(cond, truth)
                    if not ok_edge and cond is not None:
                        # `cursor && aggregate(cursor)`: the test of the cursor itself is a block of its own; leaving
                        # where the cursor is null is the end of the walk, not an early stop
                        ws = list(cond.walk())
                        ok_edge = (any(x.kind == "DeclRefExpr" and x.d.get("d") == cur for x in ws)
                                   and not any(x.is_call() for x in ws)
                                   and all(x.kind != "DeclRefExpr" or x.d.get("d") == cur for x in ws))
                    if not ok_edge:
                        nodes_ = f.blocks[b].nodes()
                        facts = flow.facts_at(f, nodes_[-1].id) if nodes_ else []
                        ok_edge = any(agg_false(c_, t_) for c_, t_ in facts)
                    if not ok_edge:
                        problems.append("the walk can stop (edge out of block %d) although aggregate() did not report 'unchanged'" % b)
            # the header may only stop the walk on the cursor itself
            hb = f.blocks[lp.header]
            if hb.cond is not None and _local_did(f.node(hb.cond)) != cur and not any(
                    x.kind == "DeclRefExpr" and x.d.get("d") == cur for x in f.node(hb.cond).walk()):
                problems.append("the loop condition does not test the cursor")
        ctx.inst("H.aggregate-after-relink", "%s::aggregate_path [interval aggregator]" % RB, not problems, f.loc,
                 "; ".join(problems) if problems else "walks up through get_parent and stops early only when aggregate() reports 'unchanged'", f)
    ag = [f for f in unit.functions if f.owner_cls == IT + "::aggregator" and f.name == "aggregate"]
    for f in ag[:1]:
        sr = Ser(f, sound=True)
        body = f.node(f.d["body"])
        ifs2 = [n for n in body.walk() if n.kind == "IfStmt" and "subtree_max" in sr.expr(n.child("cond")) and
                re.search(r"get_(left|right)\(", sr.expr(n.child("cond")))]
        # decided by interpretation over small valuations instead of by the shape of the two statements: for every
        # (upper(node), left present?, max(left), right present?, max(right), old subtree_max) in {0,1,2}, on every path
        # the function leaves subtree_max = max(upper, max of the present children) and reports whether that changed it
        pn = f.params()[0]["n"]
        T_U, T_OLD = "upper(%s)" % pn, "h(%s).subtree_max" % pn
        T_L, T_R = "get_left(%s)" % pn, "get_right(%s)" % pn
        T_ML, T_MR = "h(%s).subtree_max" % T_L, "h(%s).subtree_max" % T_R
        problems = set()
        n_cases = 0
        # (the values straddle zero: a value-initialised P{} is not the identity of max for a signed bound type)
        for U, ML, MR, OLD in itertools.product((-1, 0, 1), repeat=4):
            for Lp, Rp in ((0, 0), (0, 1), (1, 0), (1, 1)):
                if (not Lp and ML != -1) or (not Rp and MR != -1):
                    continue
                n_cases += 1

                def mkleaf(env):
                    def leaf(x):
                        xs = std_unwrap(x)
                        if xs.kind == "DeclRefExpr" and xs.get("local") and xs.d["d"] in env:
                            return env[xs.d["d"]]
                        t = sr.expr(x)
                        if t in env:
                            return env[t]
                        v_ = {T_U: U, T_OLD: OLD, T_L: Lp, T_R: Rp, T_ML: ML if Lp else None, T_MR: MR if Rp else None}.get(t)
                        if v_ is None and xs.kind == "ConditionalOperator" and xs.id != x.strip().id:
                            return flow.sem_eval(xs, leaf)      # (reached through temporaries sem_eval does not look through)
                        if v_ is None and t not in (T_ML, T_MR):
                            # a value computed by a folded helper with one result (`max_of(left)`) is that result; a
                            # value-initialised bound (`P{}`) is zero
                            if xs.d.get("inlined") and len(xs.d.get("rets") or []) == 1:
                                return flow.sem_eval(f.node(xs.d["rets"][0]), leaf)
                            if xs.kind in ("CXXScalarValueInitExpr", "ImplicitValueInitExpr") or (
                                    xs.kind in ("InitListExpr", "CXXFunctionalCastExpr") and t in ("{}", "0")):
                                return 0
                            if xs.kind == "DeclRefExpr" and xs.get("local"):
                                # the bound parameter of a folded helper (`node` of max_of(left)) is its argument
                                ini = RA.local_inits(f).get(xs.d["d"])
                                if ini is not None and not RA._reassigned(f, xs.d["d"]) and std_unwrap(ini).id != xs.id:
                                    return flow.sem_eval(ini, leaf)
                            if xs.kind == "MemberExpr" and xs.get("m") == "subtree_max":
                                # h(x).subtree_max where x is the bound parameter of a folded helper: whose hook it is
                                calls_ = [c_ for c_ in xs.walk() if c_.is_call() and c_.callee and c_.callee["n"] == "h" and c_.args]
                                if len(calls_) == 1:
                                    a_ = std_unwrap(calls_[0].args[-1])
                                    for _hop in range(6):
                                        if a_.kind == "DeclRefExpr" and a_.get("local"):
                                            ini = RA.local_inits(f).get(a_.d["d"])
                                            if ini is not None and not RA._reassigned(f, a_.d["d"]):
                                                a_ = std_unwrap(ini)
                                                continue
                                        break
                                    ta = sr.expr(a_)
                                    if ta == T_L:
                                        return ML if Lp else None
                                    if ta == T_R:
                                        return MR if Rp else None
                        return v_
                    return leaf

                def transfer(n, st):
                    env, rv = dict(st[0]), st[1]
                    if n.kind == "DeclStmt":
                        for d in n.get("decls", []):
                            if "init" in d:
                                v = flow.sem_eval(f.node(d["init"]), mkleaf(env))
                                if v is not None and not isinstance(v, bool):
                                    env[d["d"]] = v
                    elif n.kind == "BinaryOperator" and n.op == "=":
                        v = flow.sem_eval(n.children[1], mkleaf(env))
                        l = std_unwrap(n.children[0])
                        if l.kind == "DeclRefExpr" and l.get("local"):
                            if v is None:
                                env.pop(l.d["d"], None)
                            else:
                                env[l.d["d"]] = v
                        elif sr.expr(n.children[0]) == T_OLD:
                            env[T_OLD] = v
                    elif n.kind == "ReturnStmt" and n.child("val") is not None:
                        rv = flow.sem_eval(n.child("val"), mkleaf(env))
                    return [(tuple(sorted(env.items(), key=str)), rv)]

                def refine(cond, truth, st):
                    v = flow.sem_eval(cond, mkleaf(dict(st[0])))
                    return [st] if v is None or bool(v) == truth else []
                _, ex = flow.run(f, [((), None)], transfer, refine, limit=100000)
                want = max([U] + ([ML] if Lp else []) + ([MR] if Rp else []))
                for envt, rv in ex:
                    fin = dict(envt).get(T_OLD, OLD)
                    where = "upper=%d left=%s right=%s old=%d" % (U, ML if Lp else "-", MR if Rp else "-", OLD)
                    if fin != want:
                        problems.add("leaves subtree_max = %s, expected %d (%s)" % (fin, want, where))
                    if rv is None or bool(rv) != (want != OLD):
                        problems.add("returns %s although the aggregate %s (%s)" % (rv, "changed" if want != OLD else "did not change", where))
                if not ex:
                    problems.add("no path reaches the exit (%s)" % where)
            if len(problems) > 4:
                break
        ctx.inst("M.aggregator", IT + "::aggregator::aggregate", not problems, f.loc,
                 "; ".join(sorted(problems)[:3]) if problems else
                 "%d valuations: subtree_max = max(upper(node), max of the present children), result = changed" % n_cases, f)
    ins = [f for f in unit.functions if f.owner_cls == IT and f.name == "insert"]
    for f in ins[:1]:
        seed = [n for n in f.events() if n.kind == "BinaryOperator" and n.op == "=" and "subtree_max" in _ids(canon(n.children[0]))
                and "upper" in _ids(canon(n.children[1]))]
        link = [n for n in f.events() if n.is_call() and n.callee and n.callee["n"] == "insert" and n.kind == "CXXMemberCallExpr"]
        ok = bool(seed) and bool(link) and f.dominates(seed[0].id, link[0].id)
        ctx.inst("M.aggregator", IT + "::insert", ok, f.loc, "subtree_max seeded with upper(node) before linking: %s" % ok, f)
    lb = [f for f in unit.functions if f.owner_cls == IT + "::lb_less"]
    for f in lb[:1]:
        rs = f.return_nodes()
        e = Ser(f).expr(rs[0].child("val")) if rs else ""
        pn = [p["n"] for p in f.params()]
        ok = len(pn) == 2 and e == "(< lower((& %s)) lower((& %s)))" % (pn[0], pn[1])
        ctx.inst("M.aggregator", IT + "::lb_less", ok, f.loc, "orders by %s" % e, f)


# ---- C08 ------------------------------------------------------------------------------------------------

def check_C08(ctx, unit):
    PH = "frg::_pairing::pairing_heap"
    ctx.rule("M.merge-mirror", "_merge: the two arms are mirror images under a<->b, and when compare(a, b) holds b wins "
             "(the element ordered before loses: the top is a maximum)", 1)
    ctx.rule("H.heap-reset", "pop() clears the old root's child link; remove() clears backlink, sibling and child of the removed "
             "element on every path that does not delegate to pop()", 2)
    ctx.rule("H.heap-backlink", "every write h(X).child = Y or h(X).sibling = Y is accompanied on the same path by "
             "h(Y).backlink = X unless Y is null on that path", 2)
    ctx.rule("H.collapse-detach", "_collapse detaches both elements of a pair (backlink and sibling null) before merging them", 1)
    ctx.rule("P.heap-accessors", "empty() is true exactly when the root is null, top() returns the root, push() on an empty "
             "heap installs the element as root", 3)
    ctx.rule("R.heap-loops", "both loops of _collapse advance", 1)
    ctx.rule("H.merge-result-kept", "the tree that _merge / _collapse returns is the only handle on the merged heap (either "
             "operand may have become the child of the other): every call's value is consumed, and in push/pop/remove it "
             "ends up in _root", 5)
    fns = {}
    for f in unit.functions:
        if f.owner_cls == PH:
            fns.setdefault(f.name, []).append(f)
    for need in ("_merge", "_collapse", "pop", "remove", "push", "empty", "top"):
        if need not in fns:
            raise AnalysisBroken("anchor vanished: %s::%s" % (PH, need))
    f = fns["_merge"][0]
    sr = Ser(f, sound=True)
    # Stated on paths, not on the statement tree (the case split may be an if/else, a conditional expression over a
    # helper that links one element below the other, ...): the comparator compare(x, y) is called on the two parameters;
    # the set of (link writes, null facts, returned element) of the paths on which it holds, with the parameters
    # exchanged, equals the set of the paths on which it does not; and where compare(x, y) holds, y is returned.
    pa, pb = f.params()[0]["n"], f.params()[1]["n"]
    cmps = [n for n in f.events() if n.kind == "CXXOperatorCallExpr" and n.callee and n.callee.get("op") == "()" and not n.d.get("inlined")
            and len(n.args) >= 2 and {sr.expr(n.args[-2]), sr.expr(n.args[-1])} == {pa, pb}]
    ok, why = False, "no comparator case split"
    if len(cmps) == 1:
        cm = cmps[0]
        first, second = sr.expr(cm.args[-2]), sr.expr(cm.args[-1])

        def atom_label(a, cm=cm):
            return "cmp" if a.id == cm.id else None

        def lab(n):
            hw = hook_write(n)
            if hw and hw[1] is not None:
                return ("w", hw[0], sr.expr(hw[1]), sr.expr(hw[2]))
            if n.kind == "ReturnStmt" and n.child("val") is not None:
                return ("ret", n.id)
            return None

        def ret_value(x, verdict):
            x = x.strip()
            if x.kind == "ConditionalOperator" and len(x.children) == 3 and x.children[0].strip().id == cm.id:
                return ret_value(x.children[1] if verdict else x.children[2], verdict)
            return sr.expr(x)
        ex = paths_with_nullfacts(f, lab, sr, atom_label)
        by = {True: set(), False: set()}
        undecided = 0
        for st in ex:
            v = [x[1] for x in st if isinstance(x, tuple) and x[0] == "cmp"]
            if len(v) != 1:
                undecided += 1
                continue
            items = set()
            for x in st:
                if isinstance(x, tuple) and x[0] == "ret":
                    items.add(("ret", ret_value(f.node(x[1]).child("val"), v[0])))
                elif isinstance(x, tuple) and x[0] != "cmp":
                    items.add(x)
            by[v[0]].add(frozenset(items))

        def mir(st):
            return frozenset(tuple(mirror(y, [(pa, pb)]) if isinstance(y, str) else y for y in x) for x in st)
        okm = bool(by[True]) and {mir(st) for st in by[True]} == by[False]
        okw = bool(by[True]) and all(("ret", second) in st for st in by[True]) and all(("ret", first) in st for st in by[False])
        ok = okm and okw and not undecided
        why = "paths under compare(%s, %s) mirror the paths under its negation (%s<->%s): %s; compare(%s, %s) true returns %s: %s%s" % (
            first, second, pa, pb, okm, first, second, second, okw, "; %d path(s) reach the exit without consulting the comparator" % undecided if undecided else "")
    ctx.inst("M.merge-mirror", PH + "::_merge", ok, f.loc, why, f)

    def hw_label(fn, sr):
        def lab(n):
            hw = hook_write(n)
            if hw and hw[1] is not None:
                return ("w", hw[0], sr.expr(hw[1]), sr.expr(hw[2]))
            if n.is_call() and n.callee and n.callee["n"] == "pop" and n.kind == "CXXMemberCallExpr":
                return "<pop>"
            return None
        return lab
    f = fns["pop"][0]
    sr = Ser(f)
    ex = paths_with_nullfacts(f, hw_label(f, sr), sr)
    bad = [s for s in ex if ("w", "child", "this._root", "null") not in s]
    ctx.inst("H.heap-reset", PH + "::pop", not bad and bool(ex), f.loc,
             "%d of %d paths leave the old root's child link set" % (len(bad), len(ex)) if bad else "old root's child cleared on all %d paths" % len(ex), f)
    f = fns["remove"][0]
    sr = Ser(f)
    el = f.params()[0]["n"]
    ex = paths_with_nullfacts(f, hw_label(f, sr), sr)
    bad = []
    real = 0
    for s in ex:
        if "<pop>" in s:
            continue
        real += 1
        for fld in ("backlink", "sibling", "child"):
            if ("w", fld, el, "null") not in s:
                bad.append("a path leaves %s of the removed element set" % fld)
    ctx.inst("H.heap-reset", PH + "::remove", not bad and real > 0, f.loc,
             "; ".join(sorted(set(bad))) if bad else "all %d non-root paths clear the three links" % real, f)
    for name in ("_merge", "remove"):
        f = fns[name][0]
        sr = Ser(f)
        ex = paths_with_nullfacts(f, hw_label(f, sr), sr)
        bad = []
        cnt = 0
        for s in ex:
            nulls = {x[1] for x in s if isinstance(x, tuple) and x[0] == "null"}
            for w in s:
                if isinstance(w, tuple) and w[0] == "w" and w[1] in ("child", "sibling") and w[3] != "null":
                    cnt += 1
                    if ("w", "backlink", w[3], w[2]) not in s and w[3] not in nulls:
                        bad.append("h(%s).%s = %s without h(%s).backlink = %s" % (w[2], w[1], w[3], w[3], w[2]))
        ctx.inst("H.heap-backlink", PH + "::" + name, not bad and cnt > 0, f.loc,
                 "; ".join(sorted(set(bad))[:3]) if bad else "%d link writes over %d paths, all with the matching backlink" % (cnt, len(ex)), f)
    f = fns["_collapse"][0]
    sr = Ser(f)
    mg = [n for n in f.events() if n.is_call() and n.callee and n.callee["n"] == "_merge" and len(n.args) == 2
          and sr.expr(n.args[0]) == "element"]
    ok = False
    if mg:
        m = mg[0]
        need = {("backlink", sr.expr(m.args[0])), ("sibling", sr.expr(m.args[0])), ("backlink", sr.expr(m.args[1])), ("sibling", sr.expr(m.args[1]))}
        have = set()
        for n in f.events():
            hw = hook_write(n)
            if hw and hw[1] is not None and sr.expr(hw[2]) == "null" and f.dominates(n.id, m.id):
                have.add((hw[0], sr.expr(hw[1])))
        ok = need <= have
    ctx.inst("H.collapse-detach", PH + "::_collapse", ok, f.loc, "both pair members detached before _merge: %s" % ok, f)
    # ... and so is whatever becomes the heap that the remaining pairs are merged into (the returned variable): the odd
    # element left over, or the first pair taken back off the list -- _merge requires operands without a backlink
    rv = [std_unwrap(r.child("val")) for r in f.return_nodes() if r.child("val") is not None]
    rd = {x.d["d"] for x in rv if x.kind == "DeclRefExpr" and x.get("local")}
    seeds, undet = [], []
    for n in f.events():
        if n.kind == "BinaryOperator" and n.op == "=" and std_unwrap(n.children[0]).kind == "DeclRefExpr" and std_unwrap(n.children[0]).d.get("d") in rd:
            x = std_unwrap(n.children[1])
            if x.kind == "DeclRefExpr" and x.get("local"):
                seeds.append((n, x))
    for n, x in seeds:
        det = False
        for y in f.events():
            hw = hook_write(y)
            if hw and hw[1] is not None and hw[0] == "backlink" and sr.expr(hw[2]) == "null" and sr.expr(hw[1]) == sr.expr(x) and f.dominates(y.id, n.id):
                # (and the variable still names that element: not reassigned in between)
                det = True
        if not det:
            undet.append("%s becomes the merged heap at %s with its backlink still set" % (sr.expr(x), n.loc.split("/")[-1]))
    ctx.inst("H.collapse-detach", PH + "::_collapse: start of the final merge", not undet and bool(seeds), f.loc,
             "; ".join(undet) if undet else "%d ways the final heap starts, each from an element whose backlink was cleared" % len(seeds), f)
    from .rules_link import check_read_after_clear
    ctx.rule("H.read-after-clear", "no hook link is read right after the same link of the same element was set to null "
             "(a link must be saved before it is cleared)", 3)
    check_read_after_clear(ctx, "H.read-after-clear", [x for name in ("_collapse", "pop", "remove", "_merge") for x in fns[name]])
    # once the root has been merged with something, every earlier snapshot of an interior link may be out of date: the
    # neighbours of an element are detached BEFORE its children are merged back into the heap
    ctx.rule("K.stale-after-root-merge", "after a call that restructures the whole heap (the root is an argument of a merge) no "
             "earlier snapshot of a neighbour link (a local read from a hook field) is used to reach a hook again", 1)
    for name_ in sorted(fns):
        for g_ in fns[name_]:
            inits_ = RA.local_inits(g_)
            snaps = set()
            for d_, i_ in inits_.items():
                x_ = i_.strip()
                if x_.kind == "MemberExpr" and x_.get("mk") == "Field" and x_.children:
                    b_ = x_.children[0].strip()
                    if b_.is_call() and b_.callee and b_.callee["n"] == "h":
                        snaps.add(d_)
            merges = [n for n in g_.events() if n.is_call() and n.callee and n.kind == "CXXMemberCallExpr" and n.callee["n"] not in Ser.PURE
                      and any(path(a_) and path(a_)[0] == "this" and len(path(a_)) == 2 and a_.strip().kind == "MemberExpr" for a_ in n.args)]
            if not merges:
                continue
            bad = []
            for n in g_.events():
                if n.is_call() and n.callee and n.callee["n"] == "h" and n.args:
                    a_ = std_unwrap(n.args[-1])
                    if a_.kind == "DeclRefExpr" and a_.d["d"] in snaps and not RA._reassigned(g_, a_.d["d"]):
                        for m_ in merges:
                            if g_.reaches(m_.id, n.id):
                                bad.append("h(%s) at %s uses a link snapshot taken before the heap was restructured by %s at %s" % (
                                    a_.n, n.loc, m_.callee["n"], m_.loc))
            ctx.inst("K.stale-after-root-merge", g_.sig, not bad, g_.loc, "; ".join(sorted(set(bad))[:2]) if bad else
                     "%d root merge(s); no neighbour snapshot is used afterwards" % len(merges), g_)
    # the root leaves: wherever remove() knows that the element it takes out is the root, the root is replaced before it returns
    ctx.rule("H.root-replaced", "remove(): on every path on which the element is known to be the root (a test or assertion "
             "`_root == element`), `_root` is reassigned or pop() is called before the function returns; pop() reassigns `_root` "
             "on every path", 2)
    for name_ in ("remove", "pop"):
        for g_ in fns.get(name_, [])[:1]:
            pe_ = g_.params()[0]["d"] if g_.params() else None

            def tr_(n, st, g_=g_):
                isr, wr = st
                w = write_of(n) if n.kind in ("BinaryOperator", "CompoundAssignOperator") else None
                if w and w[0] == ("this", "_root"):
                    return [(isr, True)]
                if n.is_call() and n.callee and n.callee["n"] == "pop" and n.kind == "CXXMemberCallExpr" and path(n.child("obj")) == ("this",):
                    return [(isr, True)]
                return [st]

            def rf_(cond, truth, st, pe_=pe_):
                isr, wr = st
                rel = flow.fact_relation(cond, truth)
                if rel is not None and rel[1] in ("==", "!="):
                    a_, b_ = std_unwrap(rel[0]), std_unwrap(rel[2])
                    pa, pb = path(a_), path(b_)
                    for x_, px_, y_ in ((a_, pa, b_), (b_, pb, a_)):
                        if px_ == ("this", "_root") and y_.kind == "DeclRefExpr" and y_.d.get("d") == pe_:
                            return [((rel[1] == "=="), wr)]
                return [st]
            init_ = (True if name_ == "pop" else None, False)
            _, ex_ = flow.run(g_, [init_], tr_, rf_)
            bad_ = [e for e in ex_ if e[0] is True and not e[1]]
            ctx.inst("H.root-replaced", "%s::%s" % (PH, name_), not bad_ and bool(ex_), g_.loc,
                     "a path leaves %s() with the removed element still installed as `_root` (e.g. the sole element: no child to "
                     "replace it)" % name_ if bad_ else "`_root` is replaced on every path that takes the root out", g_)
    ctx.rule("K.param-consumed", "no parameter of a heap function is assigned on a path on which it has not been read: the heap "
             "or element the caller handed in (an accumulator, a list head) would be dropped on that path", 1)
    n_p, bad_p = 0, []
    for name_ in sorted(fns):
        for g_ in fns[name_]:
            n_p += len(g_.params())
            for pn_, loc_ in params_overwritten_unread(g_):
                bad_p.append((loc_, "%s: parameter %s is overwritten at %s before anything on that path read it" % (g_.name, pn_, loc_)))
    if n_p < 5:
        raise AnalysisBroken("anchor vanished: parameters of %s functions (found %d)" % (PH, n_p))
    ctx.inst("K.param-consumed", PH, not bad_p, bad_p[0][0] if bad_p else fns["_collapse"][0].loc,
             "; ".join(b[1] for b in bad_p[:2]) if bad_p else "%d parameters, none overwritten unread" % n_p, None)
    from .rules_link import check_conditional_snapshot
    ctx.rule("K.conditional-snapshot", "a local snapshot of a hook link is not used after that link was rewritten on some but not "
             "all of the paths from the snapshot to the use", 1)
    check_conditional_snapshot(ctx, "K.conditional-snapshot", [g_ for gs_ in fns.values() for g_ in gs_])
    from .rules_parse import check_loop_progress
    check_loop_progress(ctx, "R.heap-loops", f, None)
    from .ir import climb
    STMT_PARENTS = ("CompoundStmt", "IfStmt", "WhileStmt", "ForStmt", "DoStmt", "SwitchStmt", "CaseStmt", "DefaultStmt", "LabelStmt")
    def _sink(g, n, need_root, depth=0):
        """(ok, why): where the value of call n goes -- through casts, conditional arms, named locals and outer merges."""
        e, par = climb(g, n)
        while par is not None and par.kind == "ConditionalOperator" and par.children and par.children[0].id != e.id:
            e, par = climb(g, par)
        if par is None or par.kind in STMT_PARENTS or (par.kind == "BinaryOperator" and par.op == ","):
            return False, "value is dropped"
        if not need_root:
            return True, "value consumed by %s" % par.kind
        if par.is_call() and par.callee and par.callee["n"] in ("_merge", "_collapse"):
            return _sink(g, par, need_root, depth + 1) if depth < 6 else (False, "too deep")
        w = write_of(par)
        if w and w[0] == ("this", "_root"):
            return True, "value stored in _root"
        did = None
        if par.kind == "DeclStmt":
            for d in par.get("decls", []):
                if d.get("init") == e.id or len(par.get("decls", [])) == 1:
                    did = d["d"]
        elif par.kind == "BinaryOperator" and par.op == "=" and par.children[0].id != e.id:
            did = _local_did(par.children[0])
        if did is not None and depth < 6:
            uses = [x for x in g.all_nodes() if x.kind == "DeclRefExpr" and x.d.get("d") == did
                    and not (par.kind == "BinaryOperator" and x.id == par.children[0].strip().id)]
            for u in uses:
                ok_, why_ = _sink(g, u, need_root, depth + 1)
                if ok_:
                    return True, why_ + " through a local"
            return False, "held in a local that never reaches _root"
        if par.kind == "ReturnStmt":
            return False, "returned instead of stored in _root"
        return False, "consumed by %s, not stored in _root" % par.kind
    for name in ("push", "pop", "remove", "_collapse", "_merge"):
        for g in fns[name]:
            for n in g.all_nodes():
                if not (n.is_call() and n.callee and n.callee["n"] in ("_merge", "_collapse") and not n.get("inlined")):
                    continue
                ok, why = _sink(g, n, name in ("push", "pop", "remove"))
                ctx.inst("H.merge-result-kept", "%s::%s: %s #%d" % (PH, name, n.callee["n"], n.id), ok, n.loc,
                         "%s(...): %s" % (n.callee["n"], why), g)
    f = fns["empty"][0]
    e = Ser(f).expr(f.return_nodes()[0].child("val"))
    ctx.inst("P.heap-accessors", PH + "::empty", e in ("(== this._root null)", "(! this._root)"), f.loc, "returns %s" % e, f)
    f = fns["top"][0]
    e = Ser(f).expr(f.return_nodes()[0].child("val"))
    ctx.inst("P.heap-accessors", PH + "::top", e == "this._root", f.loc, "returns %s" % e, f)
    f = fns["push"][0]
    sr = Ser(f)
    ok = False
    for n in f.events():
        w = write_of(n)
        if w and w[0] == ("this", "_root") and w[1] is not None:
            # (`_root = _root ? _merge(_root, e) : e;` produces the element on the arm where the root is null)
            for val, facts in flow.value_arms(f, w[1], n):
                if sr.expr(val) == f.params()[0]["n"]:
                    for c, t in facts:
                        if path(c.strip()) == ("this", "_root") and t is False:
                            ok = True
    ctx.inst("P.heap-accessors", PH + "::push", ok, f.loc, "empty heap: the element becomes the root: %s" % ok, f)
