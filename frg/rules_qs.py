"""QS domain (C11): lock discipline, callback ordering, grace-period length, release/acquire chain."""
from .ir import path, canon, std_unwrap, AnalysisBroken
from . import flow
from .rules_guard import write_of
from .rules_lock import LockAnalysis, TOP
from . import rules_atomic as RA

AGENT = "frg::qs_agent"
DOM_MUTEX = ("this", "_dom", "_mutex")


def _one(unit, uq):
    fs = unit.fns(uq=uq)
    if not fs:
        raise AnalysisBroken("anchor vanished: %s" % uq)
    return fs


def in_assert(n):
    return n.get("mac") in ("FRG_ASSERT", "FRG_DEBUG_ASSERT")


def check_qs_locking(ctx, unit):
    ctx.rule("L2.qs-write-protected", "every store to the period counter, every reset (store) of the ack count and "
             "every write of the agent count is made with the domain mutex definitely held", 8)
    fns = [f for f in unit.functions if f.owner_cls == AGENT and f.kind != "ctor"]
    n_sites = 0
    for f in fns:
        la = LockAnalysis(f)
        for p in la.problems:
            ctx.broken("lockset analysis of %s: %s" % (f.qn, p))
        sites = []
        for a in RA.accesses(f):
            if a.obj and a.obj[-1] in ("_qs_counter", "_agents_to_ack") and a.op in ("store", "xchg"):
                sites.append((a.node, "%s.store" % a.obj[-1]))
            if a.obj and a.obj[-1] == "_qs_counter" and a.op in ("rmw", "cas"):
                sites.append((a.node, "_qs_counter.%s" % a.name))
        for n in f.events():
            w = write_of(n)
            if w and w[0] and w[0][-1] == "_num_agents":
                sites.append((n, "_num_agents write"))
        sites.sort(key=lambda x: x[0].loc)
        cnt = {}
        for n, what in sites:
            cnt[what] = cnt.get(what, 0) + 1
            held = None
            for st in la.at.get(n.id, ()):
                ls = LockAnalysis.lockset(st)
                held = ls if held is None else (held & ls)
            ok = held is not None and DOM_MUTEX in held
            ctx.inst("L2.qs-write-protected", "%s: %s #%d" % (f.uq, what, cnt[what]), ok, n.loc,
                     "domain mutex held: %s (definite lockset %s)" % (ok, sorted(".".join(m) for m in (held or ()) if m)), f)
            n_sites += 1


def check_qs_run(ctx, unit):
    ctx.rule("Q.no-touch-after-callback", "run(): once the callback has been invoked nothing touches its node — no field "
             "access through the node and no list operation that dereferences list elements — until the next node is fetched", 1)
    ctx.rule("Q.once", "run(): the node is unlinked and its target reset before the callback on the only path that invokes "
             "it; await_barrier() asserts a zero target before queueing and sets the target before push_back", 2)
    ctx.rule("Q.ripe-only", "run(): the callback is reached only under counter >= target, the counter value being an "
             "acquire load, nodes are taken from the front (FIFO) and the loop stops at the first unripe node", 1)
    for f in _one(unit, AGENT + "::run"):
        cbs = [n for n in f.events() if n.kind == "CallExpr" and not n.callee]
        if len(cbs) != 1:
            raise AnalysisBroken("anchor vanished: indirect callback call in qs_agent::run (found %d)" % len(cbs))
        cb = cbs[0]
        fnexpr = cb.child("fn")
        fp = path(fnexpr)
        if not fp or len(fp) != 2 or not fp[0].startswith("v:"):
            raise AnalysisBroken("callback in run() is not invoked through a field of a local node pointer")
        node_root = fp[0]
        node_did = int(node_root.rsplit("#", 1)[1])
        SAFE_LIST = {"empty", "front"}
        bad = []

        def transfer(n, s):
            if n.id == cb.id:
                return ["post"]
            if n.kind == "DeclStmt" and any(d["d"] == node_did for d in n.get("decls", [])):
                return ["pre"]
            if n.kind == "BinaryOperator" and n.op == "=" and std_unwrap(n.children[0]).kind == "DeclRefExpr" \
                    and std_unwrap(n.children[0]).d.get("d") == node_did:
                return ["pre"]          # the node variable is given the next node (`for(node = next(); node; node = next())`)
            if s == "post":
                if n.kind == "MemberExpr":
                    p = path(n)
                    if p and p[0] == node_root and len(p) > 1:
                        bad.append("field %s of the node is accessed at %s after the callback" % (p[-1], n.loc))
                if n.is_call() and n.callee and (n.callee.get("cls") or "").startswith("frg::_list::intrusive_list") \
                        and n.callee["n"] not in SAFE_LIST:
                    bad.append("list operation %s at %s after the callback dereferences the node the callback may have freed"
                               % (n.callee["n"], n.loc))
                if n.is_call():
                    for a in n.args:
                        p = path(a)
                        if p and p[0] == node_root and n.id != cb.id:
                            bad.append("node passed to %s at %s after the callback" % (canon(n)[:40], n.loc))
            return [s]
        flow.run(f, ["pre"], transfer, None)
        ctx.inst("Q.no-touch-after-callback", AGENT + "::run", not bad, cb.loc,
                 "; ".join(sorted(set(bad))) if bad else "no node access / element-touching list operation follows the callback", f)
        # once: unlink + reset dominate the callback
        unl = [n for n in f.events() if n.is_call() and n.callee and n.callee["n"] in ("pop_front", "erase")
               and (n.callee.get("cls") or "").startswith("frg::_list::intrusive_list")]
        rst = [n for n in f.events() if (write_of(n) or (None,))[0] and write_of(n)[0][0] == node_root
               and write_of(n)[0][-1] == "_target_qs_counter" and write_of(n)[1] is not None
               and write_of(n)[1].strip().cv() == 0]
        ok_unl = any(f.dominates(n.id, cb.id) for n in unl)
        ok_rst = any(f.dominates(n.id, cb.id) for n in rst)
        ctx.inst("Q.once", AGENT + "::run", ok_unl and ok_rst, cb.loc,
                 "unlink dominates callback: %s; target reset dominates callback: %s" % (ok_unl, ok_rst), f)
        # ripe only
        facts = list(flow.facts_at(f, cb.id))
        # the node may be handed out by a folded helper (`node = _next_due(ctr)`, null when nothing is due): the callback runs
        # under `node != null`, so what holds where the helper returns a non-null node holds at the callback -- provided
        # EVERY definition of the node variable is such a call and every non-null return of it carries the decision
        helper_defs = []
        for n_ in f.all_nodes():
            rhs_ = None
            if n_.kind == "DeclStmt":
                for d_ in n_.get("decls", []):
                    if d_["d"] == node_did and "init" in d_:
                        rhs_ = f.node(d_["init"])
            elif n_.kind == "BinaryOperator" and n_.op == "=" and std_unwrap(n_.children[0]).kind == "DeclRefExpr" \
                    and std_unwrap(n_.children[0]).d.get("d") == node_did:
                rhs_ = n_.children[1]
            if rhs_ is not None:
                helper_defs.append(rhs_)
        extra_sets = []
        nonnull_guard = any(std_unwrap(c_).kind == "DeclRefExpr" and std_unwrap(c_).d.get("d") == node_did and t_ for c_, t_ in facts)
        front_in_helper = False
        if helper_defs and nonnull_guard and all(std_unwrap(h_).d.get("inlined") and isinstance(std_unwrap(h_).d.get("rets"), list) for h_ in helper_defs):
            for h_ in helper_defs:
                hc = std_unwrap(h_)
                for r_ in hc.d["rets"]:
                    rv_ = f.node(r_)
                    if rv_.strip().get("nullc") or rv_.strip().kind == "CXXNullPtrLiteralExpr":
                        continue
                    anc_ = [m_ for m_ in f.all_nodes() if m_.kind == "InlinedReturn" and m_.d.get("val") == r_]
                    if anc_:
                        extra_sets.append(list(flow.facts_at(f, anc_[0].id)))
                    src_ = RA.resolve_local(f, rv_, RA.local_inits(f))
                    if std_unwrap(src_).is_call() and std_unwrap(src_).callee and std_unwrap(src_).callee["n"] == "front":
                        front_in_helper = True
        if extra_sets:
            # a decision counts when it holds at every non-null return
            import re as _re
            sid = lambda x: _re.sub(r"#\d+", "", canon(x))       # (each folded copy of the helper has its own locals)
            common = [ft for ft in extra_sets[0] if all(any(sid(ft[0]) == sid(g_[0]) and ft[1] == g_[1] for g_ in es_) for es_ in extra_sets[1:])]
            facts += common
        acc = RA.accesses(f)
        inits = RA.local_inits(f)
        ripe = False
        why = "no dominating decision 'counter >= target' found"
        for cond, truth in facts:
            c = cond.strip()
            t = truth
            while c.kind == "UnaryOperator" and c.op == "!":
                c, t = c.children[0].strip(), not t
            if c.kind != "BinaryOperator":
                continue
            a, b = c.children

            def is_target(x):
                """the target of the node at the front of the queue: a field of the node local, or of front() itself (the
                queue is not touched between the test and the fetch)"""
                px = path(x)
                if px and px[-1] == "_target_qs_counter":
                    return True
                xs = std_unwrap(x)
                if xs.kind == "MemberExpr" and xs.m == "_target_qs_counter" and xs.children:
                    bs = std_unwrap(xs.children[0])
                    return bs.is_call() and bs.callee is not None and bs.callee["n"] == "front"
                return False
            # normalise to "ctr OP target"
            op = c.op
            if is_target(a):
                a, b = b, a
                op = {"<": ">", ">": "<", "<=": ">=", ">=": "<="}.get(op, op)
            elif not is_target(b):
                continue
            holds_ge = (op == "<" and t is False) or (op == ">=" and t is True)
            src = RA.resolve_local(f, std_unwrap(a), inits)       # (through the bound parameter of a folded helper)
            ld = [x for x in acc if x.node.id == src.id and x.op == "load" and x.obj and x.obj[-1] == "_qs_counter"]
            if holds_ge and ld:
                if ld[0].order in RA.ACQ:
                    ripe, why = True, "callback dominated by (counter >= target), counter = acquire load at %s" % ld[0].loc
                else:
                    why = "gating load of the period counter at %s is %s; the callback needs acquire (or stronger) to " \
                          "synchronise with the release store that ended the grace period" % (ld[0].loc, ld[0].oname())
            elif ld:
                why = "decision before the callback is %s=%s, which does not establish counter >= target" % (canon(c), t)
        fr = [n for n in f.events() if n.is_call() and n.callee and n.callee["n"] == "front"]
        fifo = any(d.get("init") is not None and f.node(d["init"]).strip().id in [x.id for x in fr]
                   for n in f.all_nodes() if n.kind == "DeclStmt" for d in n.get("decls", []) if d["d"] == node_did)
        fifo = fifo or front_in_helper
        ctx.inst("Q.ripe-only", AGENT + "::run", ripe and fifo, cb.loc, why + "; node taken from front(): %s" % fifo, f)
    for f in _one(unit, AGENT + "::await_barrier"):
        pb = [n for n in f.events() if n.is_call() and n.callee and n.callee["n"] == "push_back"]
        if len(pb) != 1:
            raise AnalysisBroken("anchor vanished: push_back in await_barrier")
        pb = pb[0]
        np_ = path(pb.args[0])
        facts = flow.facts_at(f, pb.id)
        zero = False
        for cond, truth in facts:
            box = {}
            def lookup(a):
                return None
            def assume(a, v):
                p = path(a)
                if p and np_ and p[0] == np_[0] and p[-1] == "_target_qs_counter":
                    box["v"] = v
            flow.refine_bool(cond, truth, lookup, assume)
            if box.get("v") is False:
                zero = True
        wr = [n for n in f.events() if write_of(n) and write_of(n)[0] and write_of(n)[0][-1] == "_target_qs_counter"
              and np_ and write_of(n)[0][0] == np_[0]]
        setb = any(f.dominates(n.id, pb.id) for n in wr)
        ctx.inst("Q.once", AGENT + "::await_barrier", zero and setb, pb.loc,
                 "zero target established before queueing: %s; target written before push_back: %s" % (zero, setb), f)


def check_qs_period(ctx, unit):
    ctx.rule("E.grace-length", "await_barrier() and quiescent_barrier() compute target = load(period counter) + K with the "
             "same constant K >= 2, and raise the desired counter only through a CAS loop guarded by c < target", 2)
    ks = {}
    for name in ("await_barrier", "quiescent_barrier"):
        for f in _one(unit, AGENT + "::" + name):
            acc = RA.accesses(f)
            inits = RA.local_inits(f)
            k = None
            tdid = None
            for did, init in inits.items():
                v = init.strip()
                if v.kind == "BinaryOperator" and v.op == "+":
                    a, b = v.children
                    la = [x for x in acc if x.node.id == a.strip().id and x.obj and x.obj[-1] == "_qs_counter"]
                    if la and b.strip().cv() is not None:
                        k, tdid = b.strip().cv(), did
            cas = [x for x in acc if x.op == "cas" and x.obj and x.obj[-1] == "_desired_qs_counter"]
            guarded = False
            for x in cas:
                for cond, truth in flow.facts_at(f, x.node.id):
                    c = cond.strip()
                    if c.kind == "BinaryOperator" and c.op == "<" and truth:
                        r = c.children[1].strip()
                        if r.kind == "DeclRefExpr" and r.d["d"] == tdid:
                            guarded = True
                # new value is target
                nv = x.value.strip() if x.value is not None else None
                if not (nv is not None and nv.kind == "DeclRefExpr" and nv.d["d"] == tdid):
                    guarded = False
            other_w = [x for x in acc if x.obj and x.obj[-1] == "_desired_qs_counter" and x.op in ("store", "rmw", "xchg")]
            ks[name] = k
            ok = k is not None and k >= 2 and bool(cas) and guarded and not other_w
            ctx.inst("E.grace-length", AGENT + "::" + name, ok, f.loc,
                     "K=%s; CAS on desired counter guarded by c<target and storing target: %s; other writes: %d" % (
                         k, guarded, len(other_w)), f)
    if len(set(ks.values())) != 1:
        ctx.inst("E.grace-length", AGENT + "::<K agreement>", False, "",
                 "await_barrier and quiescent_barrier disagree on the period offset: %s" % ks)


def check_qs_chain(ctx, unit):
    ctx.rule("A1.ack-rmw", "hop 1: every acknowledgement is an atomic read-modify-write on the ack count with acquire AND "
             "release semantics (non-last ackers release their work, the last acker acquires it)", 2)
    ctx.rule("A1.period-store", "hop 2: every store that advances the period counter has release semantics", 4)
    ctx.rule("A1.consuming-load", "hop 3: every load of the period counter made without the domain mutex whose value "
             "directly decides a branch (outside assertions) has acquire semantics", 3)
    fns = [f for f in unit.functions if f.owner_cls == AGENT and f.kind != "ctor"]
    cnt = {}
    for f in fns:
        acc = RA.accesses(f)
        la = LockAnalysis(f)
        inits = RA.local_inits(f)
        cond_nodes = {}
        for blk in f.blocks.values():
            if blk.cond is not None:
                c = f.node(blk.cond)
                cond_nodes[c.id] = c
        for a in acc:
            if not a.obj:
                continue
            fld = a.obj[-1]
            if fld == "_agents_to_ack" and a.op in ("rmw",):
                key = (f.uq, "ack")
                cnt[key] = cnt.get(key, 0) + 1
                ok = a.order in (4, 5)
                ctx.inst("A1.ack-rmw", "%s: _agents_to_ack.%s #%d" % (f.uq, a.name, cnt[key]), ok, a.loc,
                         "order is %s; needs acq_rel or seq_cst" % a.oname(), f)
            if fld == "_agents_to_ack" and a.op == "load" and not in_assert(a.node):
                # a decrement written as load+store would not be atomic
                pass
            if fld == "_qs_counter" and a.op in ("store", "rmw", "xchg", "cas"):
                key = (f.uq, "store")
                cnt[key] = cnt.get(key, 0) + 1
                ok = a.order in RA.REL
                ctx.inst("A1.period-store", "%s: _qs_counter.%s #%d" % (f.uq, a.name, cnt[key]), ok, a.loc,
                         "order is %s; needs release or stronger" % a.oname(), f)
            if fld == "_qs_counter" and a.op == "load":
                if in_assert(a.node):
                    continue
                held = None
                for st in la.at.get(a.node.id, ()):
                    ls = LockAnalysis.lockset(st)
                    held = ls if held is None else (held & ls)
                if held and DOM_MUTEX in held:
                    continue
                # does the value directly decide a branch?
                decides = False
                users = {a.node.id}
                for did, init in inits.items():
                    if init.strip().id == a.node.id and not RA._reassigned(f, did):
                        bm_ = f.bind_map()
                        for x in f.all_nodes():
                            if x.kind == "DeclRefExpr" and x.d["d"] == did:
                                users.add(x.id)
                            elif x.kind == "DeclRefExpr" and x.d["d"] in bm_:
                                # handed to a folded helper by value: the helper's parameter is the same value
                                y = std_unwrap(x)
                                if y.kind == "DeclRefExpr" and y.d.get("d") == did:
                                    users.add(x.id)
                for c in cond_nodes.values():
                    if in_assert(c):
                        continue
                    if any(x.id in users for x in c.walk()):
                        decides = True
                if not decides:
                    continue
                key = (f.uq, "load")
                cnt[key] = cnt.get(key, 0) + 1
                ok = a.order in RA.ACQ
                ctx.inst("A1.consuming-load", "%s: _qs_counter.load #%d" % (f.uq, cnt[key]), ok, a.loc,
                         "order is %s; the branch it decides gates work that must happen-after the agents' "
                         "pre-quiescent writes — needs acquire or stronger" % a.oname(), f)
    # the ack must be an RMW at all
    for name in ("quiescent_state", "offline"):
        for f in _one(unit, AGENT + "::" + name):
            acc = RA.accesses(f)
            rm = [a for a in acc if a.obj and a.obj[-1] == "_agents_to_ack" and a.op == "rmw"]
            if not rm:
                ctx.inst("A1.ack-rmw", "%s: <ack is a read-modify-write>" % f.uq, False, f.loc,
                         "no atomic RMW on the ack count: the decrement is not atomic", f)


def check_qs_join_leave(ctx, unit):
    """Joining and leaving are atomic with respect to the period counter: the counter value an agent
    records as already acknowledged is read in the same critical section that changes the agent
    count, and every reset of the ack count reads the agent count after this call's own adjustment."""
    ctx.rule("E.join-snapshot", "online()/offline(): every load of the period counter whose value ends up in _acked_qs_counter "
             "or decides whether this agent still owes an acknowledgement is made with the domain mutex held", 2)
    ctx.rule("E.count-before-reset", "online()/offline(): the agent count is adjusted before any store that re-arms the ack "
             "count from it", 2)
    ctors = [f_ for f_ in unit.functions if f_.uq == AGENT + "::<ctor>" and f_.blocks]
    for name in ("online", "offline", "<ctor>"):
        for f in (_one(unit, AGENT + "::" + name) if name != "<ctor>" else ctors):
            la = LockAnalysis(f)
            acc = RA.accesses(f)
            lds = [a for a in acc if a.op == "load" and a.obj and a.obj[-1] == "_qs_counter" and not in_assert(a.node)]
            if not lds and name == "<ctor>":
                continue        # a constructor that joins through online() samples nothing itself
            if not lds:
                raise AnalysisBroken("anchor vanished: period-counter load in %s" % f.qn)
            bad = []
            for a in lds:
                held = None
                for st in la.at.get(a.node.id, ()):
                    ls = LockAnalysis.lockset(st)
                    held = ls if held is None else (held & ls)
                if not (held and DOM_MUTEX in held):
                    bad.append(a.loc)
            ctx.inst("E.join-snapshot", "%s::%s" % (AGENT, name), not bad, bad[0] if bad else f.loc,
                     ("the period counter is sampled at %s outside the domain mutex: it can advance before the agent count "
                      "changes, and the agent then acknowledges a period that never counted it" % bad[0]) if bad else
                     "%d counter loads, all inside the critical section" % len(lds), f)
            if name == "<ctor>":
                continue
            adj = [n for n in f.events() if write_of(n) and write_of(n)[0] and write_of(n)[0][-1] == "_num_agents"]
            rearm = [a for a in acc if a.op == "store" and a.obj and a.obj[-1] == "_agents_to_ack"]
            ok = bool(adj) and all(any(f.dominates(x.id, a.node.id) for x in adj) for a in rearm)
            ctx.inst("E.count-before-reset", "%s::%s" % (AGENT, name), ok and bool(rearm), f.loc,
                     "agent count adjusted before each of the %d ack-count stores: %s" % (len(rearm), ok), f)


def check_qs_leave_deferred(ctx, unit):
    """An agent that was the last to acknowledge a period in an idle domain postpones the advance (_qs_deferred) and is
    the only one who will ever perform it.  offline() must therefore work in that state too: entered with the deferred
    flag set it must reach a normal exit (not an assertion), with the postponed advance performed under the domain
    mutex and the flag cleared.  Decided path-sensitively over the value of the flag."""
    ctx.rule("E.leave-deferred", "offline() entered with a deferred grace period reaches a normal exit, advances the period "
             "counter under the domain mutex on the way and leaves the deferred flag clear (an agent can leave an idle domain)", 1)
    for f in _one(unit, AGENT + "::offline"):
        flag = None
        for r in unit.record(AGENT):
            for fl in r["fields"]:
                if fl["t"] == "bool":
                    flag = fl["n"]
        if flag is None:
            raise AnalysisBroken("anchor vanished: deferred flag of qs_agent")
        FP = ("this", flag)
        acc = RA.accesses(f)
        stores = {a.node.id for a in acc if a.op == "store" and a.obj and a.obj[-1] == "_qs_counter"}

        def transfer(n, st):
            d, adv = st
            w = write_of(n)
            if w and w[0] == FP and w[1] is not None:
                v = w[1].strip()
                if v.kind == "CXXBoolLiteralExpr":
                    return [(bool(v.get("bv")), adv)]
                return [(True, adv), (False, adv)]
            if n.id in stores:
                return [(d, True)]
            return [st]

        def refine(cond, truth, st):
            v = flow.sem_eval(cond, lambda x: (int(st[0]) if path(x) == FP and x.strip().kind == "MemberExpr" else None))
            if v is None or bool(v) == truth:
                return [st]
            return []
        _, ex = flow.run(f, [(True, False)], transfer, refine)
        problems = []
        if not ex:
            problems.append("entered with the deferred flag set, every path ends in an assertion failure: an agent that was the last "
                            "to acknowledge in an idle domain cannot go offline")
        else:
            if any(d for d, _a in ex):
                problems.append("a path returns with the deferred flag still set")
            if any(not a for _d, a in ex):
                problems.append("a path returns without performing the postponed advance of the period counter")
        ctx.inst("E.leave-deferred", "%s::offline [entered deferred]" % AGENT, not problems, f.loc,
                 "; ".join(problems) if problems else "normal exit with the postponed advance done and the flag clear", f)


def check_qs_deferred_owed(ctx, unit):
    """The deferred flag records a debt: this agent was the last to acknowledge a period and has not started the next
    one.  Whoever clears the flag must have paid it -- stored the advanced period counter -- on the same path; otherwise a
    later await_barrier() waits for a period that nobody will ever start.  Decided per member that writes the flag, entered
    with the flag set, path-sensitively over the value of the flag (new helpers are virtually inlined)."""
    ctx.rule("E.deferred-owed", "a member entered with the deferred flag set leaves it set or has advanced the period counter on that "
             "path: the flag is never cleared without the postponed advance being performed", 2)
    flag = None
    for r in unit.record(AGENT):
        for fl in r["fields"]:
            if fl["t"] == "bool":
                flag = fl["n"]
    if flag is None:
        raise AnalysisBroken("anchor vanished: deferred flag of qs_agent")
    FP = ("this", flag)
    for f in unit.functions:
        if f.owner_cls != AGENT or f.kind in ("ctor", "dtor"):
            continue
        if not any(write_of(n) and write_of(n)[0] == FP for n in f.events()):
            continue
        acc = RA.accesses(f)
        stores = {a.node.id for a in acc if a.op in ("store", "rmw", "fetch_add", "exchange") and a.obj and a.obj[-1] == "_qs_counter"}

        def transfer(n, st, stores=stores):
            d, adv = st
            w = write_of(n)
            if w and w[0] == FP and w[1] is not None:
                v = w[1].strip()
                if v.kind == "CXXBoolLiteralExpr":
                    return [(bool(v.get("bv")), adv)]
                return [(True, adv), (False, adv)]
            if n.id in stores:
                return [(d, True)]
            return [st]

        def refine(cond, truth, st):
            v = flow.sem_eval(cond, lambda x: (int(st[0]) if path(x) == FP and x.strip().kind == "MemberExpr" else None))
            if v is None or bool(v) == truth:
                return [st]
            return []
        _, ex = flow.run(f, [(True, False)], transfer, refine)
        bad = [1 for d, a in ex if not d and not a]
        ctx.inst("E.deferred-owed", "%s::%s [entered deferred]" % (AGENT, f.name), not bad, f.loc,
                 "a path clears the deferred flag without having advanced the period counter: the postponed grace period is lost"
                 if bad else "%d exit states: the flag stays set or the advance was performed" % len(ex), f)


def _sc_fences(f):
    """seq_cst fences of f: std::atomic_thread_fence / __atomic_thread_fence with a seq_cst order argument."""
    out = []
    for n in f.events():
        if n.kind == "CallExpr" and n.callee and n.callee["n"] in ("atomic_thread_fence", "__atomic_thread_fence") and n.args:
            c = n.args[0].strip().cv()
            if c == 5:
                out.append(n)
    return out


def check_qs_full_fences(ctx, unit):
    """Store->load ordering, which acquire/release cannot give.  A grace period starts with the caller's *unlink* store
    (to some other location) followed by the load of the period counter that fixes the target.  If that load may be
    satisfied before the unlink is visible to the other agents (store buffering), an agent can acknowledge the period and
    still read the old pointer afterwards, and the callback runs while it is in use.  Required, as in every QSBR:
      (start) a seq_cst fence before the target load in await_barrier() and quiescent_barrier();
      (ack)   a seq_cst fence on the acknowledging path of quiescent_state(), after the load that consumed the new period."""
    ctx.rule("A1.grace-start-fence", "await_barrier()/quiescent_barrier(): the load of the period counter that fixes the target is "
             "dominated by a sequentially consistent fence (orders it after the caller's unlink store)", 2)
    ctx.rule("A1.ack-fence", "quiescent_state(): on the path that acknowledges a new period a sequentially consistent fence follows "
             "the consuming load of the period counter (later read-side sections are ordered after the acknowledgement)", 1)
    for name in ("await_barrier", "quiescent_barrier"):
        for f in _one(unit, AGENT + "::" + name):
            acc = RA.accesses(f)
            inits = RA.local_inits(f)
            tl = None
            for did, init in inits.items():
                v = init.strip()
                if v.kind == "BinaryOperator" and v.op == "+":
                    la = [x for x in acc if x.node.id == v.children[0].strip().id and x.obj and x.obj[-1] == "_qs_counter"]
                    if la:
                        tl = la[0]
            if tl is None:
                raise AnalysisBroken("anchor vanished: target computation in %s" % f.qn)
            ok = tl.order == 5 and False      # a seq_cst load alone does not order an earlier plain/release store before it
            ok = any(f.dominates(fc.id, tl.node.id) for fc in _sc_fences(f))
            ctx.inst("A1.grace-start-fence", "%s::%s" % (AGENT, name), ok, tl.loc,
                     "target load (%s) %s" % (tl.oname(), "is preceded by a seq_cst fence" if ok else
                                              "is not ordered after the caller's earlier stores: it may read a period in which other agents "
                                              "still see the old data, and the grace period ends one period early"), f)
    for f in _one(unit, AGENT + "::quiescent_state"):
        acc = RA.accesses(f)
        acks = [a for a in acc if a.op == "rmw" and a.obj and a.obj[-1] == "_agents_to_ack"]
        if not acks:
            raise AnalysisBroken("anchor vanished: acknowledgement in quiescent_state")
        fences = _sc_fences(f)
        bad = []
        for a in acks:
            cons = [l for l in acc if l.op == "load" and l.obj and l.obj[-1] == "_qs_counter" and f.dominates(l.node.id, a.node.id)]
            okf = any(any(f.dominates(l.node.id, fc.id) for l in cons) and (f.dominates(fc.id, a.node.id) or f.postdominates(fc.id, a.node.id))
                      for fc in fences)
            if not okf:
                bad.append(a.loc)
        ctx.inst("A1.ack-fence", "%s::quiescent_state" % AGENT, not bad, acks[0].loc,
                 ("acknowledgement at %s without a seq_cst fence after the consuming load" % bad[0]) if bad else
                 "seq_cst fence on the acknowledging path", f)
