"""IR over the frgx JSON: units, functions, nodes, CFG utilities.

Nothing here is specific to a property; rules live in frg/rules_*.py.
"""
import json
import os
import subprocess
import sys
import hashlib

VERIF = os.path.dirname(os.path.dirname(os.path.abspath(__file__)))
REPO = os.environ.get("FRG_REPO", "/repo")
ROOT = os.path.join(REPO, "include")
BUILD = os.path.join(VERIF, "build")


class AnalysisBroken(Exception):
    """The analysis itself cannot be carried out (exit 2): anchor vanished,
    unit does not compile, instance count below the confirmed minimum."""


_resource_dir = None


def resource_dir():
    global _resource_dir
    if _resource_dir is None:
        _resource_dir = subprocess.check_output(
            ["clang++", "-print-resource-dir"], text=True).strip()
    return _resource_dir


def base_flags(extra=()):
    return ["-std=gnu++20", "-fsyntax-only", "-fno-access-control",
            "-I" + ROOT, "-I" + os.path.join(VERIF, "tu"), "-UNDEBUG",
            "-Wall", "-Wno-unused", "-Wno-unknown-attributes",
            "-resource-dir", resource_dir()] + list(extra)


def ensure_frgx():
    exe = os.path.join(BUILD, "frgx")
    src = os.path.join(VERIF, "frgx", "frgx.cc")
    if not os.path.exists(exe) or os.path.getmtime(exe) < os.path.getmtime(src):
        r = subprocess.run([os.path.join(VERIF, "frgx", "build.sh")])
        if r.returncode != 0:
            raise AnalysisBroken("cannot build frgx")
    return exe


def extract(unit_src, out_json, extra_flags=(), root=None):
    """Run frgx on one instantiation unit. Always re-parses /repo's current tree."""
    exe = ensure_frgx()
    os.makedirs(os.path.dirname(out_json), exist_ok=True)
    if os.path.exists(out_json):
        os.unlink(out_json)
    cmd = [exe, "--root=" + (root or ROOT), "--out=" + out_json, unit_src, "--"] + base_flags(extra_flags)
    r = subprocess.run(cmd, stdout=subprocess.PIPE, stderr=subprocess.PIPE, text=True)
    return r.returncode, r.stderr


# --------------------------------------------------------------------------- nodes

TRANSPARENT = {
    "ParenExpr", "ExprWithCleanups", "MaterializeTemporaryExpr",
    "CXXBindTemporaryExpr", "ConstantExpr", "SubstNonTypeTemplateParmExpr",
    "CXXDefaultArgExpr", "CXXDefaultInitExpr", "FullExpr",
}
# casts that do not change the designated object / value identity
NOOP_CASTS = {
    "NoOp", "LValueToRValue", "ArrayToPointerDecay", "FunctionToPointerDecay",
    "DerivedToBase", "UncheckedDerivedToBase", "BaseToDerived", "IntegralCast",
    "BitCast", "LValueBitCast", "PointerToIntegral", "IntegralToPointer",
    "NullToPointer", "ConstructorConversion", "UserDefinedConversion",
    "IntegralToBoolean", "PointerToBoolean", "BuiltinFnToFnPtr", "ToVoid",
}


class Node:
    __slots__ = ("fn", "d")

    def __init__(self, fn, d):
        self.fn = fn
        self.d = d

    def __getattr__(self, name):
        try:
            return self.d[name]
        except KeyError:
            raise AttributeError(name)

    def get(self, k, default=None):
        return self.d.get(k, default)

    @property
    def id(self):
        return self.d["i"]

    @property
    def kind(self):
        return self.d["k"]

    @property
    def loc(self):
        return self.d.get("l", "")

    @property
    def children(self):
        return [self.fn.node(c) for c in self.d.get("c", []) if c is not None]

    def child(self, key):
        v = self.d.get(key)
        return None if v is None else self.fn.node(v)

    @property
    def args(self):
        return [self.fn.node(a) for a in self.d.get("args", [])]

    @property
    def callee(self):
        return self.d.get("callee")

    def callee_uq(self):
        c = self.d.get("callee")
        return c["uq"] if c else None

    def is_call(self):
        if self.d.get("inlined"):
            return False
        return self.kind in ("CallExpr", "CXXMemberCallExpr", "CXXOperatorCallExpr",
                             "CXXConstructExpr", "CXXTemporaryObjectExpr", "UserDefinedLiteral")

    def cv(self):
        v = self.d.get("cv")
        return None if v is None else int(v)

    def strip(self, casts=True):
        """Skip wrappers that do not change the value."""
        n = self
        while True:
            k = n.kind
            if k in TRANSPARENT:
                ch = n.children
                if not ch:
                    return n
                n = ch[0]
                continue
            if casts and k in ("ImplicitCastExpr", "CStyleCastExpr", "CXXStaticCastExpr",
                               "CXXReinterpretCastExpr", "CXXFunctionalCastExpr", "CXXConstCastExpr"):
                if n.get("ck") in NOOP_CASTS:
                    ch = n.children
                    if ch:
                        n = ch[0]
                        continue
            return n

    def walk(self):
        """Pre-order over the subtree."""
        stack = [self]
        seen = set()
        while stack:
            n = stack.pop()
            if n.id in seen:
                continue
            seen.add(n.id)
            yield n
            stack.extend(reversed(n.children))

    def __repr__(self):
        return "<%s #%d %s>" % (self.kind, self.id, self.loc)

    def __eq__(self, o):
        return isinstance(o, Node) and o.fn is self.fn and o.id == self.id

    def __hash__(self):
        return hash((id(self.fn), self.id))


def std_unwrap(n):
    """Look through std::move / std::forward / std::launder wrappers and through calls of virtually inlined
    helpers with a single return value."""
    while True:
        n = n.strip()
        if n.d.get("inlined") and len(n.d.get("rets", [])) == 1:
            n = n.fn.node(n.d["rets"][0])
            continue
        if n.kind == "DeclRefExpr" and n.d.get("d") in n.fn.bind_map():
            n = n.fn.node(n.fn.bind_map()[n.d["d"]])
            continue
        if n.kind == "CallExpr" and n.callee and n.callee["uq"] in (
                "std::move", "std::forward", "std::launder", "std::as_const", "std::move_if_noexcept"):
            a = n.args
            if a:
                n = a[0]
                continue
        return n


VALUE_WRAPPERS = ("ImplicitCastExpr", "ParenExpr", "CStyleCastExpr", "CXXStaticCastExpr", "CXXReinterpretCastExpr",
                  "ExprWithCleanups", "CXXFunctionalCastExpr")


def climb(fn, n, wrappers=VALUE_WRAPPERS):
    """(e, p): the outermost expression e that carries the value of n and its parent p -- through casts, parentheses
    and the return statement of a folded helper (the helper's call expression then carries the value)."""
    p = fn.parent(n)
    hops = 0
    while p is not None and hops < 60:
        hops += 1
        if p.kind in wrappers:
            n, p = p, fn.parent(p)
            continue
        if p.kind == "InlinedReturn":
            cs = [c for c in fn.all_nodes() if c.d.get("inlined") and n.id in c.d.get("rets", [])]
            if len(cs) == 1:
                n, p = cs[0], fn.parent(cs[0])
                continue
        break
    return n, p


def value_leaves(fn, v, depth=0):
    """The expressions a value may come from, with folded helpers and closures looked into: every `return` value of a folded
    callee (however many it has), both arms of a conditional expression; anything else is a leaf."""
    if v is None or depth > 12:
        return []
    x = v.strip()
    hops = 0
    while x.kind in ("ExprWithCleanups", "MaterializeTemporaryExpr", "CXXBindTemporaryExpr") and len(x.children) == 1 and hops < 6:
        x, hops = x.children[0].strip(), hops + 1
    if x.d.get("inlined") and x.d.get("rets") is not None:
        out = []
        for r in x.d["rets"]:
            out += value_leaves(fn, fn.node(r), depth + 1)
        return out
    if x.kind == "ConditionalOperator" and len(x.children) == 3:
        return value_leaves(fn, x.children[1], depth + 1) + value_leaves(fn, x.children[2], depth + 1)
    if x.kind == "DeclRefExpr" and x.d.get("d") in fn.bind_map():
        return value_leaves(fn, fn.node(fn.bind_map()[x.d["d"]]), depth + 1)
    return [x]


def return_sites(fn):
    """[(anchor, value)]: every place a value of the function is decided, with folded helpers looked into -- the anchor is
    the `return` (of the function itself or of the folded helper) at which the value is produced, so that dominance can
    be asked about it."""
    out = []

    def expand(anchor, v, depth=0):
        if v is None:
            return
        x = v.strip()
        if x.d.get("inlined") and x.d.get("rets") is not None and depth < 12:
            for r in x.d["rets"]:
                anc = [m for m in fn.all_nodes() if m.kind == "InlinedReturn" and m.d.get("val") == r]
                expand(anc[0] if anc else anchor, fn.node(r), depth + 1)
            return
        out.append((anchor, v))
    for r in fn.return_nodes():
        expand(r, r.child("val"))
    return out


def exit_values(fn):
    """[(anchor, value)] like return_sites, and a function written with a single exit (`T result; ... result = E; ... return
    result;`) reads like one with early returns: a returned local that has several definitions is replaced by the definitions
    that reach the return, each anchored at its own assignment (so that the facts and dominators asked about are those of the
    place where the value is decided)."""
    from . import flow
    out = []
    pos = fn.positions()
    for anchor, v in return_sites(fn):
        x = std_unwrap(v) if v is not None else None
        if x is not None and x.kind == "DeclRefExpr" and x.get("local") and x.get("dk") != "ParmVar":
            did = x.d["d"]
            ndef = 0
            for y in fn.all_nodes():
                if y.kind == "BinaryOperator" and y.op == "=" and std_unwrap(y.children[0]).kind == "DeclRefExpr" \
                        and std_unwrap(y.children[0]).d.get("d") == did:
                    ndef += 1
                if y.kind == "DeclStmt" and any(d_.get("d") == did and "init" in d_ for d_ in y.get("decls", [])):
                    ndef += 1
            if ndef >= 2:
                defs = flow.reaching_defs(fn, did, anchor.id)
                if defs and None not in defs:
                    for dv in sorted(defs, key=lambda z: z.id):
                        a = dv
                        hops = 0
                        par = fn.parent(dv)
                        if par is not None and par.kind == "BinaryOperator" and par.op == "=" and par.id in pos:
                            a = par
                        while a is not None and a.id not in pos and hops < 8:
                            a, hops = fn.parent(a), hops + 1
                        out.append((a if a is not None else anchor, dv))
                    continue
        out.append((anchor, v))
    return out


def path(n, fn=None):
    """Access path of an lvalue/pointer expression as a tuple, or None.

    ('this','_dom','_mutex'), ('p:slb#12','available'), ('v:ctr#7',), with
    '[*]' for non-constant and '[3]' for constant subscripts. Pointer
    dereference and address-of are transparent (the path names the object
    reached, whichever way it is spelled).
    """
    s0 = n.strip()
    if s0.kind == "DeclRefExpr" and s0.d.get("d") in s0.fn.bind_map():
        # the parameter of a folded helper: the object its argument names -- or, when the argument is a value that has no
        # name (`on_path(_root.load(acquire))`), the parameter itself as the local that holds it
        p = path(s0.fn.node(s0.fn.bind_map()[s0.d["d"]]))
        return p if p is not None else ("v:%s#%d" % (s0.n, s0.d["d"]),)
    n = std_unwrap(n)
    k = n.kind
    if k == "CXXThisExpr":
        return ("this",)
    if k == "DeclRefExpr":
        dk = n.get("dk")
        bm = n.fn.bind_map()
        if n.d["d"] in bm:
            return path(n.fn.node(bm[n.d["d"]]))
        if dk == "ParmVar":
            return ("p:%s#%d" % (n.n, n.d["d"]),)
        if dk in ("Var", "Decomposition", "Binding"):
            if n.get("local"):
                # a local reference (`auto &dom = *_domain;`) names the object it was bound to
                refs = getattr(n.fn, "_ref_locals", None)
                if refs is None:
                    refs = {}
                    for y in n.fn.all_nodes():
                        if y.kind == "DeclStmt":
                            for d_ in y.get("decls", []):
                                if "init" in d_ and (d_.get("t") or "").rstrip().endswith("&") and not (d_.get("t") or "").rstrip().endswith("&&"):
                                    refs[d_["d"]] = d_["init"]
                    n.fn._ref_locals = refs
                if n.d["d"] in refs and not getattr(n.fn, "_ref_busy", False):
                    n.fn._ref_busy = True
                    try:
                        p = path(n.fn.node(refs[n.d["d"]]))
                    finally:
                        n.fn._ref_busy = False
                    if p is not None:
                        return p
                return ("v:%s#%d" % (n.n, n.d["d"]),)
            return ("g:%s" % n.get("qn", n.n),)
        return None
    if k == "MemberExpr":
        if n.get("mk") not in ("Field", "IndirectField", "Var"):
            return None
        ch = n.children
        if not ch:
            return None
        b = path(ch[0])
        if b is None:
            return None
        if n.d.get("flat"):
            return b        # a dissolved state struct (roles.flatten_state_structs): the enclosing object itself
        return b + (n.m,)
    if k == "UnaryOperator" and n.op in ("*", "&"):
        return path(n.children[0])
    if k == "ArraySubscriptExpr":
        ch = n.children
        b = path(ch[0])
        if b is None:
            return None
        c = ch[1].strip().cv()
        return b + ("[%d]" % c if c is not None else "[*]",)
    if k == "CXXOperatorCallExpr" and n.callee and n.callee.get("op") in ("->", "*"):
        # smart-pointer like access: treat as transparent
        a = n.args
        if a:
            return path(a[0])
    return None


def ref_local(n):
    """n (stripped) is a local declared as an lvalue reference (`frame &sup = *...;`): a member access on it is a read
    through the pointer it was bound from"""
    x = std_unwrap(n)
    if x.kind != "DeclRefExpr" or not x.get("local"):
        return False
    m = getattr(x.fn, "_local_ref_types", None)
    if m is None:
        m = set()
        for y in x.fn.all_nodes():
            if y.kind == "DeclStmt":
                for d_ in y.get("decls", []):
                    t = (d_.get("t") or "").rstrip()
                    if t.endswith("&") and not t.endswith("&&"):
                        m.add(d_["d"])
        x.fn._local_ref_types = m
    return x.d["d"] in m or x.d["d"] in _ref_decls(x.fn)


def _ref_decls(fn):
    """decl ids of the parameters and locals of fn that are declared as lvalue references to a class type"""
    r = getattr(fn, "_ref_decl_ids", None)
    if r is None:
        r = set()
        try:
            for p in fn.params():
                t = (p.get("t") or "").rstrip()
                if t.endswith("&") and not t.endswith("&&") and p.get("rt"):
                    r.add(p["d"])
        except Exception:
            pass
        fn._ref_decl_ids = r
    return r


def canon(n, env=None, depth=0):
    """Canonical S-expression string of an expression (structure + resolved
    declarations; spelling-independent). `env` maps local decl ids to
    replacement strings (copy propagation / renaming)."""
    n = std_unwrap(n)
    k = n.kind
    if depth > 60:
        return "?"
    c = n.cv() if k not in ("DeclRefExpr",) else None
    if c is not None and k in ("IntegerLiteral", "CharacterLiteral", "CXXBoolLiteralExpr",
                               "UnaryExprOrTypeTraitExpr", "SizeOfPackExpr"):
        return str(c)
    if k == "CXXThisExpr":
        return "this"
    if k == "CXXNullPtrLiteralExpr" or k == "GNUNullExpr":
        return "null"
    if k == "DeclRefExpr":
        did = n.d["d"]
        if env and did in env:
            return env[did]
        if n.get("local"):
            return "%s#%d" % (n.n, did)
        if n.get("dk") == "EnumConstant":
            return n.get("qn", n.n)
        return n.get("qn", n.n)
    if k == "MemberExpr":
        ch = n.children
        base = canon(ch[0], env, depth + 1) if ch else "?"
        return "%s.%s" % (base, n.m)
    if k == "UnaryOperator":
        if n.op in ("*", "&"):
            # address-of / deref cancel in paths; keep them visible otherwise
            inner = canon(n.children[0], env, depth + 1)
            if n.op == "&":
                # the address of what a reference parameter / reference local names is the pointer that a pointer-taking
                # spelling of the same helper would have been handed: `f(T &x) { g(&x); x.a }` reads like `f(T *x) { g(x); x->a }`
                o = std_unwrap(n.children[0])
                if o.kind == "DeclRefExpr" and o.d.get("d") in _ref_decls(n.fn):
                    return inner
            return "(%s %s)" % (n.op, inner)
        return "(%s%s %s)" % (n.op, "post" if n.get("post") else "", canon(n.children[0], env, depth + 1))
    if k in ("BinaryOperator", "CompoundAssignOperator"):
        ch = n.children
        return "(%s %s %s)" % (n.op, canon(ch[0], env, depth + 1), canon(ch[1], env, depth + 1))
    if k == "ArraySubscriptExpr":
        ch = n.children
        return "%s[%s]" % (canon(ch[0], env, depth + 1), canon(ch[1], env, depth + 1))
    if k == "ConditionalOperator":
        ch = n.children
        return "(?: %s %s %s)" % tuple(canon(x, env, depth + 1) for x in ch[:3])
    if n.is_call():
        cal = n.callee
        name = cal["uq"] if cal else "<indirect>"
        if k == "CXXMemberCallExpr":
            obj = n.child("obj")
            parts = [canon(obj, env, depth + 1) if obj is not None else "?"]
        else:
            parts = []
        parts += [canon(a, env, depth + 1) for a in n.args]
        if not cal:
            f = n.child("fn")
            name = "<indirect:%s>" % (canon(f, env, depth + 1) if f is not None else "?")
        return "%s(%s)" % (name, ", ".join(parts))
    if k in ("ImplicitCastExpr", "CStyleCastExpr", "CXXStaticCastExpr", "CXXReinterpretCastExpr",
             "CXXFunctionalCastExpr", "CXXConstCastExpr"):
        ch = n.children
        return "(cast:%s %s)" % (n.get("ck"), canon(ch[0], env, depth + 1) if ch else "?")
    if k == "UnaryExprOrTypeTraitExpr":
        return "sizeof(%s)" % n.get("argt")
    if k == "CXXNewExpr":
        return "new[%s](%s)" % (n.get("alloct"), ", ".join(canon(fnode, env, depth + 1) for fnode in n.children))
    if k == "InitListExpr":
        return "{%s}" % ", ".join(canon(x, env, depth + 1) for x in n.children)
    if k == "StringLiteral":
        return "str:%r" % n.get("str")
    if k == "AtomicExpr":
        return "%s(%s)" % (n.get("aname"), ", ".join(canon(x, env, depth + 1) for x in n.children))
    if c is not None:
        return str(c)
    return "%s(%s)" % (k, ", ".join(canon(x, env, depth + 1) for x in n.children))


# --------------------------------------------------------------------------- functions / CFG

class Block:
    __slots__ = ("fn", "id", "elems", "term", "termkind", "cond", "succs", "reach", "noret", "preds", "label")

    def __init__(self, fn, d):
        self.fn = fn
        self.id = d["id"]
        self.elems = d["elems"]
        self.term = d.get("term")
        self.termkind = d.get("termkind")
        self.cond = d.get("cond")
        self.succs = [s["b"] for s in d["succs"]]
        self.reach = [s["reach"] for s in d["succs"]]
        self.noret = d.get("noret", False)
        self.label = d.get("label")
        self.preds = []

    def nodes(self):
        return [self.fn.node(e) for e in self.elems]

    def live_succs(self):
        """Successors on normal control flow (noreturn blocks have none)."""
        if self.noret:
            return []
        return [s for s, r in zip(self.succs, self.reach) if r and s >= 0]


class Fn:
    def __init__(self, unit, d):
        self.unit = unit
        self.d = d
        self._nodes = d["nodes"]
        self._wrapped = {}
        self.blocks = {b["id"]: Block(self, b) for b in d.get("blocks", [])}
        for b in self.blocks.values():
            for s in b.live_succs():
                self.blocks[s].preds.append(b.id)
        self.entry = d.get("entry")
        self.exit = d.get("exit")
        self._parent = None
        self._dom = None
        self._pdom = None
        self._pos = None

    def __getattr__(self, name):
        try:
            return self.d[name]
        except KeyError:
            raise AttributeError(name)

    def get(self, k, default=None):
        return self.d.get(k, default)

    @property
    def uq(self):
        return self.d["uq"]

    @property
    def qn(self):
        return self.d["qn"]

    @property
    def loc(self):
        return self.d["loc"]

    @property
    def sig(self):
        """uq name plus parameter types: distinguishes overloads in instance names."""
        return "%s(%s)" % (self.d["uq"], ", ".join(p["t"] for p in self.d.get("params", [])))

    @property
    def owner_cls(self):
        """Class the function belongs to: its parent record, or for friends the
        class it is lexically defined in."""
        return self.d.get("cls") or self.d.get("lexcls")

    @property
    def owner_clsqn(self):
        return self.d.get("clsqn") or self.d.get("lexclsqn")

    def node(self, i):
        w = self._wrapped.get(i)
        if w is None:
            w = Node(self, self._nodes[i])
            self._wrapped[i] = w
        return w

    def all_nodes(self):
        return [self.node(i) for i in range(len(self._nodes))]

    def bind_map(self):
        """{param decl id: argument node} for the parameters of virtually inlined helpers that are never
        reassigned inside the helper: such a parameter *is* its argument."""
        bm = getattr(self, "_bind", None)
        if bm is None:
            bm = {}
            assigned = set()
            for d in self._nodes:
                k = d.get("k")
                if k in ("BinaryOperator", "CompoundAssignOperator") and str(d.get("op", "")).endswith("=") and d.get("op") not in ("==", "!=", "<=", ">="):
                    t = self._nodes[d["c"][0]] if d.get("c") else None
                    hops = 0
                    while t is not None and t.get("k") in ("ImplicitCastExpr", "ParenExpr") and t.get("c") and hops < 5:
                        t = self._nodes[t["c"][0]]; hops += 1
                    if t is not None and t.get("k") == "DeclRefExpr":
                        assigned.add(t.get("d"))
                elif k == "UnaryOperator" and d.get("op") in ("++", "--"):
                    t = self._nodes[d["c"][0]] if d.get("c") else None
                    if t is not None and t.get("k") == "DeclRefExpr":
                        assigned.add(t.get("d"))
            for d in self._nodes:
                # a by-value parameter that the helper reassigns is a separate variable; a reference parameter *is* its
                # argument even when assigned (out-parameters)
                if d.get("k") == "ParamBind" and (d["d"] not in assigned or str(d.get("t", "")).rstrip().endswith("&")):
                    bm[d["d"]] = d["init"]
            self._bind = bm
        return bm

    def parent_map(self):
        if self._parent is None:
            pm = {}
            for d in self._nodes:
                for c in d.get("c", []):
                    if c is not None and c not in pm:
                        pm[c] = d["i"]
                for key in ("init",):
                    c = d.get(key)
                    if isinstance(c, int) and c not in pm and d.get("synthetic"):
                        pm[c] = d["i"]
            self._parent = pm
        return self._parent

    def parent(self, n):
        p = self.parent_map().get(n.id)
        return None if p is None else self.node(p)

    def params(self):
        return self.d.get("params", [])

    # ---- event order -------------------------------------------------
    def positions(self):
        """node id -> (block id, index) for CFG elements."""
        if self._pos is None:
            pos = {}
            for b in self.blocks.values():
                for i, e in enumerate(b.elems):
                    pos.setdefault(e, (b.id, i))
            self._pos = pos
        return self._pos

    def reachable_blocks(self):
        seen = set()
        st = [self.entry]
        while st:
            b = st.pop()
            if b in seen or b is None:
                continue
            seen.add(b)
            st.extend(self.blocks[b].live_succs())
        return seen

    def events(self):
        """All CFG elements of reachable blocks as Node objects (block order arbitrary)."""
        rb = self.reachable_blocks()
        for bid in sorted(rb, reverse=True):
            for n in self.blocks[bid].nodes():
                yield n

    # ---- dominators ---------------------------------------------------
    def dominators(self):
        if self._dom is None:
            self._dom = _dominators(self.entry, lambda b: self.blocks[b].live_succs(),
                                    lambda b: self.blocks[b].preds, self.reachable_blocks())
        return self._dom

    def postdominators(self):
        """Post-dominators w.r.t. normal exit (trap arms ignored)."""
        if self._pdom is None:
            rb = self.reachable_blocks()
            # blocks that can reach exit
            can = set()
            st = [self.exit]
            while st:
                b = st.pop()
                if b in can:
                    continue
                can.add(b)
                st.extend(p for p in self.blocks[b].preds if p in rb)
            succ = lambda b: [p for p in self.blocks[b].preds if p in can]
            pred = lambda b: [s for s in self.blocks[b].live_succs() if s in can]
            self._pdom = _dominators(self.exit, succ, pred, can)
        return self._pdom

    def exit_reaching(self):
        """Blocks from which the normal exit is reachable."""
        rb = self.reachable_blocks()
        can = set()
        st = [self.exit]
        while st:
            b = st.pop()
            if b in can:
                continue
            can.add(b)
            st.extend(p for p in self.blocks[b].preds if p in rb)
        return can

    def dominates(self, a, b):
        """Element a dominates element b (both node ids that are CFG elements)."""
        pos = self.positions()
        if a not in pos or b not in pos:
            return False
        (ba, ia), (bb, ib) = pos[a], pos[b]
        if ba == bb:
            return ia < ib
        return ba in self.dominators().get(bb, ())

    def dominates_block(self, a, b):
        return a == b or a in self.dominators().get(b, ())

    def postdominates(self, a, b):
        """Element a post-dominates element b on normal paths."""
        pos = self.positions()
        if a not in pos or b not in pos:
            return False
        (ba, ia), (bb, ib) = pos[a], pos[b]
        if ba == bb:
            return ia > ib
        return ba in self.postdominators().get(bb, ())

    def reaches(self, a, b):
        """Some normal path executes element a and later element b."""
        pos = self.positions()
        if a not in pos or b not in pos:
            return False
        (ba, ia), (bb, ib) = pos[a], pos[b]
        if ba == bb and ia < ib:
            return True
        seen = set()
        st = list(self.blocks[ba].live_succs())
        while st:
            x = st.pop()
            if x in seen:
                continue
            seen.add(x)
            if x == bb:
                return True
            st.extend(self.blocks[x].live_succs())
        return False

    def branch_edges(self, bid):
        """[(succ, cond_node, truth)] for two-way branches, else [(succ, None, None)]."""
        b = self.blocks[bid]
        out = []
        if b.noret:
            return out
        two_way = b.termkind in ("IfStmt", "WhileStmt", "ForStmt", "DoStmt", "ConditionalOperator",
                                 "BinaryConditionalOperator", "BinaryOperator") and len(b.succs) == 2 \
            and b.cond is not None
        for i, (s, r) in enumerate(zip(b.succs, b.reach)):
            if not r or s < 0:
                continue
            if two_way:
                truth = (i == 0)
                if b.termkind == "BinaryOperator":
                    # && : succ0 = rhs (lhs true), succ1 = short-circuit (lhs false)
                    # || : succ0 = short-circuit (lhs true), succ1 = rhs (lhs false)
                    pass
                out.append((s, self.node(b.cond), truth))
            else:
                out.append((s, None, None))
        return out

    def return_nodes(self):
        return [n for n in self.events() if n.kind == "ReturnStmt"]

    def __repr__(self):
        return "<Fn %s>" % self.qn


def _dominators(entry, succ, pred, universe):
    dom = {b: set(universe) for b in universe}
    dom[entry] = {entry}
    changed = True
    order = list(universe)
    while changed:
        changed = False
        for b in order:
            if b == entry:
                continue
            ps = [p for p in pred(b) if p in universe]
            if not ps:
                new = {b}
            else:
                new = set.intersection(*(dom[p] for p in ps)) | {b}
            if new != dom[b]:
                dom[b] = new
                changed = True
    return dom


class Unit:
    def __init__(self, name, d, src):
        self.name = name
        self.src = src
        self.d = d
        self.functions = [Fn(self, f) for f in d["functions"]]
        self.records = d["records"]
        self.diagnostics = d["diagnostics"]
        self.errors = d["errors"]
        self.by_did = {f.did: f for f in self.functions}

    def fns(self, uq=None, cls=None, name=None, pred=None):
        out = []
        for f in self.functions:
            if uq is not None and f.uq != uq:
                continue
            if cls is not None and f.owner_cls != cls:
                continue
            if name is not None and f.name != name:
                continue
            if pred is not None and not pred(f):
                continue
            out.append(f)
        return out

    def record(self, uq):
        return [r for r in self.records if r["uq"] == uq]


_unit_cache = {}


def known_names():
    from .inline import known_functions
    return known_functions()


def load_unit(name, extra_flags=(), src=None, root=None, tag=""):
    """Parse instantiation unit tu/<name>.cpp against the current /repo tree."""
    key = (name, tuple(extra_flags), src, root, tag)
    if key in _unit_cache:
        return _unit_cache[key]
    src = src or os.path.join(VERIF, "tu", name + ".cpp")
    if not os.path.exists(src):
        raise AnalysisBroken("instantiation unit missing: %s" % src)
    h = hashlib.sha1(("%s|%s|%s|%s" % (name, extra_flags, root, tag)).encode()).hexdigest()[:8]
    out = os.path.join(BUILD, "ir", "%s.%s.%d.json" % (name, h, os.getpid()))
    rc, err = extract(src, out, extra_flags, root=root)
    if not os.path.exists(out):
        raise AnalysisBroken("frgx produced no output for %s: %s" % (name, err[-2000:]))
    with open(out) as f:
        d = json.load(f)
    os.unlink(out)
    for fd_ in d["functions"]:
        desugar_bindings(fd_)
    from .roles import normalise
    renamed = normalise(d)
    if not os.environ.get("FRG_NO_INLINE"):
        from .inline import inline_unit, is_new_helper, anchor_index
        import copy as _copy
        _aidx = anchor_index(d["functions"])
        pristine = {f["did"]: _copy.deepcopy(f) for f in d["functions"] if is_new_helper(f, _aidx)}
        drop = inline_unit(d)
        if drop:
            d["functions"] = [f for f in d["functions"] if f["did"] not in drop]
    else:
        drop, pristine = set(), {}
    callee_by_did = {}
    for fd_ in d["functions"]:
        for n_ in fd_.get("nodes") or ():
            c_ = n_.get("callee")
            if c_ and c_.get("did") is not None and c_["did"] not in callee_by_did:
                callee_by_did[c_["did"]] = c_
    for fd_ in d["functions"]:
        resolve_member_pointers(fd_, callee_by_did)
    u = Unit(name, d, src)
    # new helpers that were spliced into all their callers: not analysed as entry points, but available to rules
    # that read the statement tree (mirror-arm comparison) so that a case split moved into a helper is still seen
    u.helpers = [Fn(u, pristine[did]) for did in sorted(drop) if did in pristine]
    u.renamed = renamed
    _unit_cache[key] = u
    return u


def desugar_bindings(fd):
    """`const auto [a, b] = helper(x);` over a class: a use of the binding `a` is the member access `<hidden object>.a`.  The
    DeclRefExpr of the binding is rewritten in place into that MemberExpr (on a fresh reference to the hidden variable), so
    that every rule -- taint, copy propagation, scalar replacement of small structs -- reads it like a named local struct."""
    nodes = fd.get("nodes")
    if not nodes:
        return
    bind = {}
    for n in nodes:
        if n.get("k") == "DeclStmt":
            for dcl in n.get("decls", []):
                for b in dcl.get("bindings", []) or []:
                    if b.get("field"):
                        bind[b["d"]] = (dcl, b)
    if not bind:
        return
    for n in list(nodes):
        if n.get("k") == "DeclRefExpr" and n.get("dk") == "Binding" and n.get("d") in bind:
            dcl, b = bind[n["d"]]
            ref = {"i": len(nodes), "k": "DeclRefExpr", "l": n.get("l"), "t": dcl.get("t"), "lv": True, "d": dcl["d"],
                   "n": dcl.get("n") or "<decomposed>", "dk": "Var", "local": True, "c": []}
            if dcl.get("rt"):
                ref["prt"] = dcl["rt"]
            nodes.append(ref)
            keep = {k_: n[k_] for k_ in ("i", "l", "t", "lv", "bits", "sgn", "mac") if k_ in n}
            n.clear()
            n.update(keep)
            n.update({"k": "MemberExpr", "c": [ref["i"]], "m": b["field"], "mk": "Field", "arrow": False,
                      "via_binding": b.get("n")})
            if b.get("md") is not None:
                n["md"] = b["md"]
            if b.get("mc"):
                n["mc"] = b["mc"]


def resolve_member_pointers(fd, callee_by_did=None):
    """`x->*pm` / `x.*pm` whose pointer-to-member is, after virtual inlining, a parameter bound to the constant
    `&Class::field` (or that constant itself) is the member access `x->field` / `x.field`: the node is rewritten in place
    so that every rule reads a helper parameterised by the field (e.g. one rotate() for both directions) like the code
    with the field spelled out."""
    nodes = fd.get("nodes")
    if not nodes:
        return
    bind = {n["d"]: n["init"] for n in nodes if n.get("k") == "ParamBind" and "init" in n}

    def strip(i, hops=0):
        while hops < 12:
            x = nodes[i]
            if x.get("k") in ("ImplicitCastExpr", "ParenExpr", "CStyleCastExpr", "CXXStaticCastExpr",
                              "SubstNonTypeTemplateParmExpr", "ConstantExpr") and x.get("c"):
                i, hops = x["c"][0], hops + 1
                continue
            if x.get("k") == "DeclRefExpr" and x.get("d") in bind:
                i, hops = bind[x["d"]], hops + 1
                continue
            return i
        return i
    for n in nodes:
        if n.get("k") == "BinaryOperator" and n.get("op") in ("->*", ".*") and len(n.get("c", [])) == 2:
            r = nodes[strip(n["c"][1])]
            if r.get("k") == "UnaryOperator" and r.get("op") == "&" and r.get("c"):
                fld = nodes[r["c"][0]]
                if fld.get("k") == "DeclRefExpr" and fld.get("dk") == "Field":
                    arrow = n["op"] == "->*"
                    n["k"] = "MemberExpr"
                    n["c"] = [n["c"][0]]
                    n["m"], n["md"], n["mk"], n["arrow"] = fld.get("n"), fld.get("d"), "Field", arrow
                    n["via_member_pointer"] = True
                    n.pop("op", None)
        # an indirect call through a parameter that is bound to the constant `&function` (a callable handed to a helper,
        # e.g. descend(root, &get_left)) is a direct call of that function
        # `(obj->*pm)(args)` with pm bound to the constant `&Class::method`
        if n.get("k") == "CXXMemberCallExpr" and not n.get("callee") and "fn" in n:
            b = nodes[strip(n["fn"])]
            if b.get("k") == "BinaryOperator" and b.get("op") in ("->*", ".*") and len(b.get("c", [])) == 2:
                r = nodes[strip(b["c"][1])]
                if r.get("k") == "UnaryOperator" and r.get("op") == "&" and r.get("c"):
                    r = nodes[strip(r["c"][0])]
                if r.get("k") == "DeclRefExpr" and r.get("dk") == "CXXMethod" and r.get("d") is not None:
                    tmpl = (callee_by_did or {}).get(r["d"])
                    n["callee"] = dict(tmpl) if tmpl is not None else {
                        "qn": r.get("qn", r.get("n")), "uq": r.get("qn", r.get("n")), "n": r.get("n"), "did": r["d"], "kind": "method"}
                    n["obj"] = b["c"][0]
                    n["via_function_pointer"] = True
        if n.get("k") == "CallExpr" and not n.get("callee") and "fn" in n:
            r = nodes[strip(n["fn"])]
            if r.get("k") == "UnaryOperator" and r.get("op") == "&" and r.get("c"):
                r = nodes[strip(r["c"][0])]
            if r.get("k") == "DeclRefExpr" and r.get("dk") in ("CXXMethod", "Function") and r.get("d") is not None:
                tmpl = (callee_by_did or {}).get(r["d"])
                if tmpl is not None:
                    n["callee"] = dict(tmpl)
                else:
                    n["callee"] = {"qn": r.get("qn", r.get("n")), "uq": r.get("qn", r.get("n")), "n": r.get("n"), "did": r["d"],
                                   "kind": "method" if r.get("dk") == "CXXMethod" else "func", "static": True}
                n["via_function_pointer"] = True


def unit_errors(u):
    return [x for x in u.diagnostics if x["level"] == "error"]
