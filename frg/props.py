"""One function per property: which units are analysed and which rules apply."""
from .ir import load_unit, unit_errors, AnalysisBroken
from . import rules_guard as RG
from . import rules_atomic as RA
from . import rules_slab as RS
from . import rules_slab2 as RS2
from . import rules_qs as RQ
from . import rules_radix as RR
from . import rules_own as RO
from . import rules_link as RL
from . import rules_hash as RH
from . import rules_bits as RBI
from . import rules_str as RST
from . import rules_parse as RP
from . import rules_width as RW
from . import rules_attr as RAT
from . import rules_bytes as RBY
from . import rules_holder as RHO
from . import rules_tree as RT


def need_unit(ctx, name, w1=False, **kw):
    """Parse an instantiation unit. With w1=True, compile errors located in /repo's headers are
    instances of rule W1 (an ill-formed member), not an analysis failure."""
    u = load_unit(name, **kw)
    ctx.use_unit(u)
    errs = unit_errors(u)
    if w1:
        import os, re
        from .ir import ROOT
        ctx.rule("W1.well-formed", "every member of every claimed class template is well-formed when instantiated with the "
                 "witness types (explicit instantiation forces all members)", 1)
        inrepo = [e for e in errs if e["file"].startswith(ROOT)]
        errs = [e for e in errs if not e["file"].startswith(ROOT)]
        seen = set()
        for e in inrepo:
            key = (os.path.basename(e["file"]), re.sub(r"'[^']*'", "'T'", e["text"]))
            if key in seen:
                continue
            seen.add(key)
            ctx.inst("W1.well-formed", "%s: %s" % key, False, "%s:%s" % (e["file"], e["line"]),
                     "ill-formed on instantiation: %s" % e["text"])
        ctx.inst("W1.well-formed", "unit %s%s" % (name, kw.get("tag", "")), not inrepo, u.src,
                 "%d functions instantiated, %d diagnostics of level error in /repo headers" % (len(u.functions), len(inrepo)))
    if errs:
        msgs = "; ".join("%s:%s: %s" % (e["file"], e["line"], e["text"]) for e in errs[:5])
        raise AnalysisBroken("instantiation unit %s does not compile against the current tree: %s" % (name, msgs))
    return u


GUARD_TABLE = {
    # class: (acquiring mutex method, matching releasing mutex method)
    "frg::unique_lock": ("lock", "unlock"),
    "frg::shared_lock": ("lock_shared", "unlock_shared"),
    "frg::lock_guard": ("lock", "unlock"),
}


def C12(ctx):
    u = need_unit(ctx, "locks")
    # (the type-level witnesses first: they stay decidable when a guard's representation changes beyond what the abstract
    # execution below can model)
    ctx.rule("W2.guard-types", "guards and spinlocks are non-copyable, unique_lock/shared_lock movable, and the guard of a "
             "byte-aligned mutex is larger than a pointer: its ownership flag cannot live in the mutex address (static_asserts)", 5)
    RO.check_typelevel(ctx, "W2.guard-types", "guards:", 5)
    RG.check_guards(ctx, u, GUARD_TABLE)
    RG.check_swap(ctx, u, ["frg::unique_lock", "frg::shared_lock"])
    RA.check_spinlocks(ctx, u)
    RO.check_move_ctor_complete(ctx, u, ["frg::unique_lock", "frg::shared_lock"])
    RO.check_members_initialised(ctx, u, ["frg::ticket_spinlock", "frg::simple_spinlock", "frg::unique_lock", "frg::shared_lock", "frg::lock_guard"])
    return ("Structural part of C12 only: guard classes (unique_lock, shared_lock, qs lock_guard) are abstractly "
            "executed over their event CFGs with the ownership flag and the sequence of mutex calls as state. "
            "Not decided: mutual exclusion / FIFO hand-over over interleavings.")


def C05(ctx):
    u = need_unit(ctx, "slab")
    RS.check_C05(ctx, u)
    RS2.check_bucket_of_slab(ctx, u)
    # the library's own mutexes, as the pool's Mutex: a counter that starts with whatever its storage held blocks for ever
    RO.check_members_initialised(ctx, need_unit(ctx, "locks"), ["frg::ticket_spinlock", "frg::simple_spinlock"])
    if ctx.tier == "thorough":
        u2 = need_unit(ctx, "slab", extra_flags=("-DFRG_SLAB_TRACK_REGIONS",), tag="track")
        RS.check_C05(ctx, u2, config=" [FRG_SLAB_TRACK_REGIONS]")
    return ("Lockset half of C05: guard typestate analysis over every slab_pool member (3 policy instantiations): "
            "policy map/unmap reached only with an empty lockset (through callees), protected fields accessed only "
            "with their mutex held, locks only via RAII guards, lock-order graph acyclic. Not decided: linearizability, "
            "happens-before race freedom as a whole, progress.")


def C04(ctx):
    u = need_unit(ctx, "slab")
    RS.check_C04(ctx, u)
    RAT.check_attr_contracts(ctx, u, ["frg::slab_pool", "frg::slab_allocator"])
    return ("Every failure point of C04 is a call site: each Policy::map result, each _construct_* result in allocate() "
            "and the inner allocate() of realloc() is tested before use and its null arm returns null with no write to "
            "pool state and no call. Not decided: that later requests succeed (liveness over a history).")


def C11(ctx):
    u = need_unit(ctx, "locks")
    RG.check_guards(ctx, u, {"frg::lock_guard": ("lock", "unlock")})
    RQ.check_qs_locking(ctx, u)
    RQ.check_qs_run(ctx, u)
    RQ.check_qs_period(ctx, u)
    RQ.check_qs_chain(ctx, u)
    RQ.check_qs_join_leave(ctx, u)
    RQ.check_qs_leave_deferred(ctx, u)
    RQ.check_qs_deferred_owed(ctx, u)
    RQ.check_qs_full_fences(ctx, u)
    RW.check_widths(ctx, u, ["frg::qs_agent", "frg::qs_domain"])
    RO.check_members_initialised(ctx, u, ["frg::qs_agent", "frg::qs_domain", "frg::qs_node", "frg::_list::intrusive_list_hook"])
    RO.check_move_ctor_complete(ctx, u, ["frg::qs_agent", "frg::qs_node"])
    return ("Structural clauses of C11: the domain mutex guard releases through unlock(); counter/ack-count/agent-count "
            "writes are under the domain mutex; run() unlinks and resets the node before the callback and never touches "
            "it afterwards; callback only under acquire-loaded counter >= target; both barrier functions use the same "
            "period offset K >= 2; the ack RMW / release store / acquire load chain that carries the agents' work to the "
            "callback. Not decided: the counting protocol over interleavings (deferred periods, joining agents), fairness.")


def _storage_layout(ctx):
    ctx.rule("W2.storage-layout", "raw storage: aligned_storage has exactly the alignment it is asked for (extended alignments "
             "included), aligned_union fits every member in every order, and the holders, small_vector's inline side and variant "
             "are as aligned as an over-aligned element -- static_asserts evaluated by the compiler", 5)
    RO.check_typelevel(ctx, "W2.storage-layout", "storage:", 5)


def _composition_by_reference(ctx):
    ctx.rule("W2.composition-by-reference", "frg::get<Tag>(composition *) and composition::get are references to the stored "
             "functor, also for a small trivially copyable one (a stateful locator or comparator sees its own updates)", 1)
    RO.check_typelevel(ctx, "W2.composition-by-reference", "compose:", 1)


def C10(ctx):
    u = need_unit(ctx, "radix")
    RR.check_C10(ctx, u)
    RR.check_insert_forwards(ctx, u)
    _storage_layout(ctx)
    RW.check_widths(ctx, u, ["frg::rcu_radixtree"])
    return ("Publication-order half of C10: release on every store a reader can see, acquire on every load in find(), fresh "
            "nodes completely initialised (header, all 16 link slots, value, old subtree linked) before the publishing store "
            "and never written afterwards, value constructed before its mask bit, erase clears a bit and frees nothing, find "
            "returns only under prefix match and set bit. Not decided: the happens-before argument over all interleavings.")


def C09(ctx):
    u = need_unit(ctx, "radix")
    RR.check_C09(ctx, u)
    RR.check_depth_shifts(ctx, u)
    RR.check_walk_slots(ctx, u)
    _storage_layout(ctx)
    RW.check_widths(ctx, u, ["frg::rcu_radixtree"])
    ctx.rule("K.stale-derived", "in the radix tree a value loaded through the cursor node (mask, index, child) is not used "
             "after the cursor moved to another node without being reloaded", 4)
    RL.check_stale_derived(ctx, "K.stale-derived", [f for f in u.functions if (f.owner_cls or "").startswith("frg::rcu_radixtree")])
    return ("Structural clauses of C09: shift counts of pfx_of/idx_of within [0,64) on depth in [0,15]; every link/entry "
            "subscript is idx_of(key, own depth) and mask bits use the same index; the three descents agree on prefix and "
            "leaf tests; entry storage is never moved/freed outside the destructor and values are constructed only in fresh "
            "leaves or under a clear bit. Not decided: exactness of the map over all key sets, ascending iteration order.")


HOLDERS = ["frg::optional", "frg::manual_box", "frg::expected", "frg::variant"]
SEQ_OWNERS = ["frg::vector", "frg::small_vector", "frg::dyn_array"]


def C13(ctx):
    u = need_unit(ctx, "sequences")
    RO.check_empty(ctx, u, ["frg::vector", "frg::small_vector", "frg::dyn_array", "frg::stack", "frg::list",
                            "frg::_list::intrusive_list"])
    RO.check_front_back(ctx, u, ["frg::vector", "frg::small_vector"])
    RG.check_swap(ctx, u, SEQ_OWNERS)
    RO.check_relocation(ctx, u, ["frg::vector", "frg::small_vector"])
    RO.check_forward_once(ctx, u, ["frg::vector", "frg::small_vector"])
    RL.check_intrusive_list(ctx, u)
    RO.check_small_vector_selection(ctx, u)
    RO.check_capacity_storage_paired(ctx, u)
    RO.check_stale_buffer(ctx, u, ["frg::small_vector"])
    RO.check_grow_then_read_arg(ctx, u, ["frg::vector", "frg::small_vector"])
    RO.check_built_into_kept_storage(ctx, u, ["frg::vector", "frg::small_vector"])
    RO.check_raw_storage_moves(ctx, u, ["frg::small_vector"])
    RO.check_swap_targets(ctx, u, ["frg::small_vector"])
    RW.check_countdowns(ctx, u, ["frg::vector", "frg::small_vector", "frg::dyn_array"])
    RO.check_assign_reads_source_first(ctx, u, ["frg::vector", "frg::small_vector"])
    RO.check_members_initialised(ctx, u, ["frg::vector", "frg::small_vector", "frg::dyn_array", "frg::_list::intrusive_list",
                                          "frg::_list::intrusive_list_hook", "frg::list"])
    _storage_layout(ctx)
    _composition_by_reference(ctx)
    RBY.check_bytewise(ctx, u)
    RBY.check_bytewise(ctx, need_unit(ctx, "scalars"))
    return ("Structural clauses of C13: emptiness polarity, front/back subscripts, swap completeness, relocation ranges "
            "in growth, forwarded arguments consumed once, intrusive list link protocol. Not decided: equality with a "
            "reference sequence after arbitrary histories.")


def C16(ctx):
    us = need_unit(ctx, "sequences")
    uh = need_unit(ctx, "hash_map")
    ust = need_unit(ctx, "string")
    uo = need_unit(ctx, "holders", w1=True)
    ur = need_unit(ctx, "radix")
    ctx.rule("O1.alloc-escapes", "every block obtained from the allocator is, on every path, stored in an owning place, "
             "returned, handed to a parameter that can own it, or freed", 20)
    for u in (us, uh, ust, uo, ur):
        RO.check_local_allocs(ctx, u, [f for f in u.functions if f.uq.startswith("frg::")])
    RO.check_owner_specials(ctx, us, SEQ_OWNERS + ["frg::list"])
    RO.check_owner_specials(ctx, uh, ["frg::hash_map"], rule="O2.owner-specials")
    RO.check_owner_specials(ctx, ust, ["frg::basic_string"], rule="O2.owner-specials")
    RO.check_owner_specials(ctx, uo, ["frg::unique_memory"], rule="O2.owner-specials")
    RO.check_owner_specials(ctx, ur, ["frg::rcu_radixtree"], rule="O2.owner-specials")
    RR.check_parent_matches_link(ctx, ur)
    RO.check_size_agreement(ctx, us, ["frg::small_vector", "frg::dyn_array"])
    RO.check_size_agreement(ctx, uh, ["frg::hash_map"], rule="O3.size-agreement")
    RO.check_destroy_before_free(ctx, us, SEQ_OWNERS)
    RO.check_destroy_before_free(ctx, uo, ["frg::unique_ptr"], rule="O4.destroy-before-free")
    RO.check_allocator_stable(ctx, uo, ["frg::unique_ptr"])
    RO.check_move_assign_releases(ctx, uo, ["frg::unique_ptr"])
    RO.check_detach_before_destroy(ctx, uo, ["frg::unique_ptr"])
    RO.check_grow_then_read_arg(ctx, uo, ["frg::unique_ptr"], rule="O.arg-survives-growth")
    ctx.rule("R.forward-once", "an argument forwarded as an rvalue is consumed at most once per activation: never inside a loop body", 1)
    RO.check_forward_once_fns(ctx, us, {"frg::construct_n"})
    RO.check_relocation(ctx, us, ["frg::vector", "frg::small_vector"])
    ctx.rule("O7.no-use-after-release", "a pointer is not dereferenced or passed on after the block it designates was "
             "destroyed / returned to the allocator, until it is reassigned", 8)
    for u in (us, uh, ust, uo, ur):
        RO.check_no_use_after_release(ctx, u, [f for f in u.functions if f.uq.startswith("frg::")])
    RO.check_grow_then_read_arg(ctx, us, ["frg::vector", "frg::small_vector"])
    RO.check_built_into_kept_storage(ctx, us, ["frg::vector", "frg::small_vector"])
    RO.check_raw_storage_moves(ctx, us, ["frg::small_vector"])
    RO.check_swap_targets(ctx, us, ["frg::small_vector"])
    RHO.check_holders(ctx, uo, HOLDERS)
    RHO.check_holder_specials(ctx, uo, HOLDERS)
    RR.check_radix_dtor(ctx, ur)
    RR.check_entry_reuse(ctx, ur)
    RST.check_free_after_copies(ctx, ust)         # nothing is read from a buffer after it went back to the allocator
    RH.check_trailing_pointer(ctx, uh)            # a node is unlinked before it is destroyed: no freed node stays reachable
    RO.check_dtor_releases(ctx, uh, {"frg::hash_map": "_table"})
    RO.check_dtor_releases(ctx, us, {"frg::vector": "_elements", "frg::dyn_array": "elements_"}, rule="O.dtor-releases")
    RO.check_dtor_releases(ctx, ust, {"frg::basic_string": "_buffer"}, rule="O.dtor-releases")
    RO.check_dtor_releases(ctx, uo, {"frg::unique_memory": "pointer_"}, rule="O.dtor-releases")
    _storage_layout(ctx)
    return ("Structural clauses of C16 over vector, small_vector, dyn_array, list, hash_map, basic_string, unique_ptr, "
            "unique_memory, optional, expected, variant, manual_box and the radix tree: every allocator block escapes to an "
            "owner, is returned, handed to a parameter that can own it, or is freed on every path (O1); allocating classes have "
            "a releasing destructor and no implicit shallow copy (O2); deallocate sizes equal allocation sizes (O3); element "
            "buffers are released only after their live range was destroyed (O4); growth relocates exactly the live range (O5); "
            "the engaged-flag typestate of the holders (O6: construct only into empty storage, destroy only a live object, flag == "
            "storage at exits); nothing is touched through a pointer after its release (O7); the radix destructor destroys "
            "exactly the entries whose bit is set and releases both node kinds; every member is well-formed (W1). Not decided: "
            "exactly-once as a count over arbitrary histories; radix erase leaks by design (DESIGN.md §3 C16).")


def C14(ctx):
    u = need_unit(ctx, "hash_map")
    RH.check_C14(ctx, u)
    RH.check_trailing_pointer(ctx, u)
    RH.check_next_after_relink(ctx, u)
    RH.check_end_sentinel(ctx, u)
    RH.check_begin_total(ctx, u)
    RH.check_key_before_move(ctx, u)
    RO.check_members_initialised(ctx, u, ["frg::hash_map", "frg::hash_map::chain", "frg::hash_map::iterator", "frg::hash_map::const_iterator"])
    RW.check_widths(ctx, u, ["frg::hash_map"])
    RO.check_init_reads(ctx, u, ["frg::hash_map"])
    RO.check_members_by_value(ctx, u, ["frg::hash_map"])
    ctx.rule("O7.no-use-after-release", "a chain node is not accessed after frg::destruct released it (remove() moves the "
             "value out first; the destructor and rehash read `next` first)", 2)
    RO.check_no_use_after_release(ctx, u, [f for f in u.functions if f.owner_cls == "frg::hash_map"])
    RO.check_empty(ctx, u, ["frg::hash_map"])
    RST.check_view_equality(ctx, need_unit(ctx, "string"))      # the equality of the library's own key type
    return ("Structural clauses of C14: no bucket index survives a capacity change, indices are paired with the table they "
            "were reduced for, every index is hasher(key concerned) mod capacity, construct/++_size and destruct/--_size "
            "balance on every path, growth precedes the bucket computation in insert(), no use of a node after its release. "
            "Not decided: agreement with a reference map over histories.")


def C18(ctx):
    sizes = [64, 70] if ctx.tier == "quick" else [1, 63, 64, 65, 70, 128, 200]
    for nb in sizes:
        u = need_unit(ctx, "bits", extra_flags=("-DFRG_VERIF_BITS=%d" % nb,), tag="N%d" % nb)
        RBI.check_C18(ctx, u, nb)
    RBI.check_concat(ctx, u)
    RBI.check_minmax(ctx, u)
    RBY.check_bytewise(ctx, u)
    return ("Structural clauses of C18: constant subscripts of array within bounds; bitset constructors initialise every "
            "word and mask; dirty word writes are followed by mask_last_bit(); shift operators bound the shift amount before "
            "any dependent access; all shift counts within the operand width; no unconditional self-recursion; bit-reference "
            "semantics; PRNG constants; insertion_sort permutes by guarded swaps only. Not decided: bit-for-bit agreement "
            "with std::bitset, the random streams, sortedness.")


def C15(ctx):
    u = need_unit(ctx, "string")
    RST.check_string_buffers(ctx, u)
    RST.check_views(ctx, u)
    RST.check_cstring_params(ctx, u)
    RST.check_free_after_copies(ctx, u)
    RST.check_byte_counts(ctx, u)
    RG.check_swap(ctx, u, ["frg::basic_string"])
    RO.check_empty(ctx, u, ["frg::basic_string"])
    RO.check_grow_then_read_arg(ctx, u, ["frg::basic_string"], elem_types=("char", "char16_t", "wchar_t", "char32_t"))
    RBY.check_bytewise(ctx, u)
    RP.check_sized_text(ctx, u)        # (hash<basic_string>, conversions: a string's data() never travels without its size())
    if ctx.tier == "thorough":
        u2 = need_unit(ctx, "string", extra_flags=("-DFRG_VERIF_WIDE",), tag="wide")
        RST.check_string_buffers(ctx, u2, tag=" [char16_t]", only_chart="char16_t")
    return ("Structural clauses of C15: copy counts within the source extent (a view's terminator is not readable), writes "
            "within the allocation with sizeof(Char) symbolic, terminator written when a buffer is installed, non-null buffer, "
            "bounded view subscripts, overflow-safe sub_string assertion, guarded prefix/suffix slicing, length-first compare. "
            "Not decided: equality with a reference string for every content.")


def C20(ctx):
    uf = need_unit(ctx, "format")
    us = need_unit(ctx, "string")
    ctx.rule("B7.cursor", "printf_format: every advance of the format cursor and every look-ahead is justified by characters "
             "verified non-NUL on every path (assertions and comparisons)", 20)
    for f in uf.fns(uq="frg::printf_format"):
        RP.check_cursor(ctx, "B7.cursor", f)
    ctx.rule("B.view-index", "fmt()/{}-spec parser: every subscript of the format view is dominated by index < size()", 4)
    RP.check_view_index_bounded(ctx, "B.view-index", [f for f in uf.functions if "fmt_impl" in f.uq or "fmt_impl" in (f.owner_cls or "") or f.uq.startswith("frg::parse_arguments")])
    ctx.rule("W.cmdline-api-only", "parse_arguments touches the command line only through find_first/sub_string/size/"
             "comparison: no subscript, no pointer arithmetic", 1)
    RP.check_cmdline_api_only(ctx, "W.cmdline-api-only", uf)
    ctx.rule("B5.substring-assert", "sub_string() guards its pointer arithmetic with an assertion that cannot wrap", 1)
    ctx.rule("B.view-subscript-bounded", "view searches stay inside [0, length)", 6)
    ctx.rule("E.prefix-suffix-guard", "starts_with/ends_with slice only under other.size() <= size()", 2)
    ctx.rule("E.compare-length-first", "compare() decides on lengths first", 2)
    RST.check_views(ctx, us)
    ctx.rule("B6.accumulate", "numbers accumulated from input digits (to_number, printf width/precision, {} width/position) "
             "use an unsigned accumulator or are overflow-checked / bounded before each step", 5)
    RST.check_accumulation(ctx, "B6.accumulate", [f for f in us.functions if f.name == "to_number"],
                           label=lambda f: "%s<%s>" % (f.uq, f.get("targs", "").strip("<>")))
    RST.check_accumulation(ctx, "B6.accumulate", uf.fns(uq="frg::printf_format") +
                           [f for f in uf.functions if f.name == "parse_fmt_spec"])
    RP.check_pop_arg(ctx, uf)
    RP.check_magnitude_unsigned(ctx, uf)
    RP.check_positional_fetch(ctx, uf)
    RP.check_float_lengths(ctx, uf)
    RP.check_digits_length(ctx, uf)
    RP.check_star_width(ctx, uf)
    RW.check_widths(ctx, uf, ["frg::"])
    RP.check_sized_text(ctx, uf)
    RP.check_grouping_cursor(ctx, uf)
    RP.check_group_size_current(ctx, uf)
    RBY.check_bytewise(ctx, uf)
    RBY.check_bytewise(ctx, us)
    RBY.check_literal_width(ctx, uf)
    ctx.rule("R.self-recursion", "no parser or helper calls itself on every path", 0)
    RBI.check_self_recursion(ctx, uf, [f for f in uf.functions if f.uq.startswith("frg::")])
    RBI.check_self_recursion(ctx, us, [f for f in us.functions if f.uq.startswith("frg::")])
    ctx.rule("R.loop-progress", "every loop of printf_format modifies a variable its condition depends on (the cursor, or the look-ahead counter) on every path around it", 3)
    for f in uf.fns(uq="frg::printf_format"):
        sd = [p["d"] for p in f.params() if p["t"].replace(" ", "") == "constchar*"][0]
        RP.check_loop_progress(ctx, "R.loop-progress", f, None, default_vars=(sd,))
    return ("Structural clauses of C20: NUL-terminated-cursor typestate of printf_format (every advance / look-ahead justified "
            "by characters verified non-NUL), bounded subscripts of format views, API-only tokenizer, overflow-safe sub_string "
            "assertion and bounded view searches, digit accumulators unsigned / overflow-checked / bounded so that acc*10+9 fits, "
            "positional-argument cache index and monotone consumed-argument count in pop_arg, no unconditional recursion, loop "
            "progress. Not decided: absence of all undefined behaviour; bounds of the caller's arg_list.")


def C19(ctx):
    uf = need_unit(ctx, "format")
    RP.check_int_conversion_table(ctx, uf)
    RP.check_agent_discipline(ctx, uf)
    RP.check_fmt_spec(ctx, uf)
    RP.check_sized_text(ctx, uf)
    RP.check_field_layout(ctx, uf)
    RP.check_directive_state(ctx, uf)
    RP.check_strnlen_bounded(ctx, uf)
    RP.check_group_size_current(ctx, uf)
    ctx.rule("W2.fmt-holds-rvalues", "fmt() stores rvalue arguments by value and refers to lvalue arguments only (static_asserts on "
             "the type fmt() returns)", 2)
    RO.check_typelevel(ctx, "W2.fmt-holds-rvalues", "format:", 2)
    RBY.check_bytewise(ctx, uf)
    RW.check_widths(ctx, uf, ["frg::"])
    ctx.rule("B6.fmt-width-range", "the {}-spec parser rejects a width before the step that would overflow it (so an "
             "out-of-range width makes the spec malformed and it is echoed unchanged)", 1)
    RST.check_accumulation(ctx, "B6.fmt-width-range", [f for f in uf.functions if f.name == "parse_fmt_spec"][:1], strict_unsigned=True)
    RP.check_logger(ctx, uf)
    return ("Structural clauses of C19: the length-modifier table of the integer conversions (every modifier handled, widths "
            "and signedness, sibling agreement), exactly one argument popped per conversion, the layout of the integer field "
            "(every conversion path reaches the field routine, zero padding only without a precision and only between sign and "
            "digits, sign flags for signed conversions only, the width accounts for the sign), every {}-conversion rendered, "
            "sized text never passed on without its length, agent results tested and propagated, accepted {}-conversion "
            "letters and echo sites, logger buffer writes guarded and flushed in order. NOT decided: the digits themselves "
            "and the float conversions (numeric/string results over runtime values).")


def C17(ctx):
    u = need_unit(ctx, "holders", w1=True)
    RHO.check_holders(ctx, u, HOLDERS)
    ctx.rule("W2.tuple-types", "tuple: get<I> result types (const-ness and reference members preserved), tuple_size/"
             "tuple_element, tuple_cat result type order, make_tuple, apply result type — static_asserts evaluated by the compiler", 8)
    RO.check_typelevel(ctx, "W2.tuple-types", "tuple:", 8)
    ctx.rule("W2.holder-constinit", "a manual_box of static storage duration is constant-initialised (decided by the compiler on a "
             "constinit declaration of the witness unit)", 1)
    RO.check_typelevel(ctx, "W2.holder-constinit", "holder:", 1)
    _storage_layout(ctx)
    RHO.check_tuple_access(ctx, u)
    RHO.check_returns(ctx, u, [f for f in u.functions if (f.owner_cls or "") in HOLDERS])
    RHO.check_copy_selects_copy(ctx, u)
    RHO.check_brace_assign(ctx, u)
    RHO.check_emplace_direct_init(ctx, u, ["frg::optional", "frg::manual_box", "frg::eternal"])
    RO.check_forward_collapsed(ctx, u, [f for f in u.functions if f.uq.startswith("frg::")])
    RO.check_move_through_reference_member(ctx, u, [f for f in u.functions if f.uq.startswith("frg::_tuple::") or f.uq.startswith("frg::tuple")])
    RHO.check_holder_specials(ctx, u, HOLDERS)
    return ("Structural clauses of C17: the engaged-flag state machine of optional/expected/variant/manual_box interpreted "
            "abstractly from every consistent entry state (construct only into empty storage, destroy only a live object, flag "
            "== storage at every exit, assignment copies engagement, dispatch chains never entered in an all-trapping state, "
            "accessors trap when empty), every non-void member returns, tuple element access selects item/tail by index, tuple "
            "types by static_assert. Not decided: equality of held values with the std types after histories.")


def C01(ctx):
    u = need_unit(ctx, "slab", w1=True)
    RS2.check_C01(ctx, u)
    RS2.check_size_arithmetic(ctx, u)
    RW.check_widths(ctx, u, ["frg::slab_pool"], masks=True)
    # (the superblock fields of a frame are assigned by the two functions that construct frames, right after the construction)
    RO.check_members_initialised(ctx, u, ["frg::_redblack::hook_struct", "frg::slab_pool::frame", "frg::slab_pool::slab_frame",
                                          "frg::slab_pool::bucket", "frg::slab_pool"],
                                 exempt=(("frg::slab_pool::frame", "sb_base"), ("frg::slab_pool::frame", "sb_reservation")))
    return ("Structural clauses of C01: size-class arithmetic as compiler-evaluated static_asserts for every size in three "
            "configurations; one frame look-up expression whose alignment equals the constructors' placement alignment; slab "
            "carving (overhead a multiple of the item size covering the header, objects at address+k*item_size below length); "
            "what allocate returns and get_size reports; zero-length requests raised to one. Not decided: pairwise "
            "disjointness and containment over histories (runtime addresses).")


def C02(ctx):
    u = need_unit(ctx, "slab")
    RS2.check_C02(ctx, u)
    RS2.check_stale_after_remove(ctx, u)
    RS2.check_bucket_of_slab(ctx, u)
    RS2.check_counter_balance(ctx, u)
    RS2.check_downcast_guarded(ctx, u)
    RS2.check_allocator_forwards(ctx, u)
    RW.check_widths(ctx, u, ["frg::slab_pool"])
    return ("Structural clauses of C02: null/zero special cases and null tests before any header dereference; copy-then-free "
            "order and provenance of the copy length in realloc's fallback; in-place success only when the size fits; a new slab "
            "only when the bucket has no head; full-test before push and re-insertion in free. Not decided: byte equality of "
            "contents; the footprint bound itself (a counting argument over histories).")


def C03(ctx):
    u = need_unit(ctx, "slab")
    RS2.check_C03(ctx, u)
    RS2.check_allocator_forwards(ctx, u)
    RW.check_widths(ctx, u, ["frg::slab_pool"])
    return ("Structural clauses of C03: map length == recorded reservation, map result == recorded base; single unmap site fed "
            "from those two header fields read before poisoning and reached only for large frames; one page-accounting "
            "expression for increments and the decrement; poison/unpoison ordering around every construction, link write and "
            "hand-out. Not decided: exactly-once unmapping over histories, absence of drift as a numeric statement.")


def C06(ctx):
    u = need_unit(ctx, "trees")
    RT.check_C06(ctx, u)
    RO.check_init_reads(ctx, u, ["frg::_redblack::tree_struct", "frg::_redblack::tree_crtp_struct", "frg::_redblack::hook_struct"])
    RO.check_members_by_value(ctx, u, ["frg::_redblack::tree_struct"], min_fields=1)
    RO.check_members_initialised(ctx, u, ["frg::_redblack::hook_struct", "frg::_redblack::tree_crtp_struct"])
    return ("Structural clauses of C06: mirror symmetry of every left/right case split of the red-black tree, hook reset on "
            "removal, parent/child and predecessor/successor pairing of link writes, the descent rules of both insert variants, "
            "loop progress. Not decided: validity of the colouring / height bound, in-order walk equals contents (global shape "
            "invariants over histories); a defect that is symmetric in both mirrored arms is invisible to M.")


def C07(ctx):
    u = need_unit(ctx, "trees")
    RT.check_C07(ctx, u, thorough=(ctx.tier == "thorough"))
    return ("Structural clauses of C07: the overlap test and the pruning guard decided against their specification on every "
            "order type of their operands; the search's decision structure; re-aggregation after every child-link write "
            "(children before parents); aggregator symmetry and seeding. Not decided: exactly-once as a count over a concrete tree.")


def C08(ctx):
    u = need_unit(ctx, "trees")
    RT.check_C08(ctx, u)
    _composition_by_reference(ctx)
    RO.check_init_reads(ctx, u, ["frg::_pairing::pairing_heap"])
    RO.check_members_by_value(ctx, u, ["frg::_pairing::pairing_heap"], min_fields=1)
    RO.check_members_initialised(ctx, u, ["frg::_pairing::pairing_heap_hook", "frg::_pairing::pairing_heap"])
    return ("Structural clauses of C08: merge symmetry and winner, hook resets in pop/remove, backlink pairing, detaching "
            "before merging in _collapse, accessor polarity, loop progress. Not decided: top() is a maximum after any history "
            "(heap order is a global shape invariant).")


PROPS = {"C06": C06, "C07": C07, "C08": C08, "C01": C01, "C02": C02, "C03": C03, "C17": C17, "C19": C19, "C20": C20, "C15": C15, "C18": C18, "C14": C14, "C13": C13, "C16": C16, "C10": C10, "C09": C09, "C11": C11, "C12": C12, "C05": C05, "C04": C04}

ASSUMPTIONS = [
    "clang 14's parser, template instantiation, constant evaluator and CFG construction are correct for the instantiation units",
    "the witness types of tu/witness.hpp (Elem with non-trivial special members, Alloc, Mutex, five slab policies) stand for any "
    "conforming template argument; members that are not instantiated by the units are not analysed",
    "assertion failure arms (FRG_ASSERT -> frg_panic / __builtin_trap) do not return",
    "access paths do not alias beyond `this`, parameters and once-initialised locals (frigg's code is alias-poor); bindings of "
    "virtually inlined helper parameters are followed",
    "each rule decides a named structural clause that is a necessary condition of the property, not the behaviour itself",
]
