"""One function per property: which units are analysed and which rules apply."""
from .ir import load_unit, unit_errors, AnalysisBroken
from . import rules_guard as RG
from . import rules_atomic as RA
from . import rules_slab as RS
from . import rules_qs as RQ


def need_unit(ctx, name, **kw):
    u = load_unit(name, **kw)
    ctx.use_unit(u)
    errs = unit_errors(u)
    if errs:
        msgs = "; ".join("%s:%s: %s" % (e["file"], e["line"], e["text"]) for e in errs[:5])
        raise AnalysisBroken("instantiation unit %s does not compile against the current tree: %s" % (name, msgs))
    return u


GUARD_TABLE = {
    # class: (acquiring mutex method, matching releasing mutex method)
    "frg::unique_lock": ("lock", "unlock"),
    "frg::shared_lock": ("lock_shared", "unlock_shared"),
    "frg::lock_guard": ("lock", "unlock"),
}


def C12(ctx):
    u = need_unit(ctx, "locks")
    RG.check_guards(ctx, u, GUARD_TABLE)
    RG.check_swap(ctx, u, ["frg::unique_lock", "frg::shared_lock"])
    RA.check_spinlocks(ctx, u)
    return ("Structural part of C12 only: guard classes (unique_lock, shared_lock, qs lock_guard) are abstractly "
            "executed over their event CFGs with the ownership flag and the sequence of mutex calls as state. "
            "Not decided: mutual exclusion / FIFO hand-over over interleavings.")


def C05(ctx):
    u = need_unit(ctx, "slab")
    RS.check_C05(ctx, u)
    if ctx.tier == "thorough":
        u2 = need_unit(ctx, "slab", extra_flags=("-DFRG_SLAB_TRACK_REGIONS",), tag="track")
        RS.check_C05(ctx, u2, config=" [FRG_SLAB_TRACK_REGIONS]")
    return ("Lockset half of C05: guard typestate analysis over every slab_pool member (3 policy instantiations): "
            "policy map/unmap reached only with an empty lockset (through callees), protected fields accessed only "
            "with their mutex held, locks only via RAII guards, lock-order graph acyclic. Not decided: linearizability, "
            "happens-before race freedom as a whole, progress.")


def C04(ctx):
    u = need_unit(ctx, "slab")
    RS.check_C04(ctx, u)
    return ("Every failure point of C04 is a call site: each Policy::map result, each _construct_* result in allocate() "
            "and the inner allocate() of realloc() is tested before use and its null arm returns null with no write to "
            "pool state and no call. Not decided: that later requests succeed (liveness over a history).")


def C11(ctx):
    u = need_unit(ctx, "locks")
    RG.check_guards(ctx, u, {"frg::lock_guard": ("lock", "unlock")})
    RQ.check_qs_locking(ctx, u)
    RQ.check_qs_run(ctx, u)
    RQ.check_qs_period(ctx, u)
    RQ.check_qs_chain(ctx, u)
    return ("Structural clauses of C11: the domain mutex guard releases through unlock(); counter/ack-count/agent-count "
            "writes are under the domain mutex; run() unlinks and resets the node before the callback and never touches "
            "it afterwards; callback only under acquire-loaded counter >= target; both barrier functions use the same "
            "period offset K >= 2; the ack RMW / release store / acquire load chain that carries the agents' work to the "
            "callback. Not decided: the counting protocol over interleavings (deferred periods, joining agents), fairness.")


PROPS = {"C11": C11, "C12": C12, "C05": C05, "C04": C04}
