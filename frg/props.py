"""One function per property: which units are analysed and which rules apply."""
from .ir import load_unit, unit_errors, AnalysisBroken
from . import rules_guard as RG
from . import rules_atomic as RA
from . import rules_slab as RS
from . import rules_qs as RQ
from . import rules_radix as RR


def need_unit(ctx, name, **kw):
    u = load_unit(name, **kw)
    ctx.use_unit(u)
    errs = unit_errors(u)
    if errs:
        msgs = "; ".join("%s:%s: %s" % (e["file"], e["line"], e["text"]) for e in errs[:5])
        raise AnalysisBroken("instantiation unit %s does not compile against the current tree: %s" % (name, msgs))
    return u


GUARD_TABLE = {
    # class: (acquiring mutex method, matching releasing mutex method)
    "frg::unique_lock": ("lock", "unlock"),
    "frg::shared_lock": ("lock_shared", "unlock_shared"),
    "frg::lock_guard": ("lock", "unlock"),
}


def C12(ctx):
    u = need_unit(ctx, "locks")
    RG.check_guards(ctx, u, GUARD_TABLE)
    RG.check_swap(ctx, u, ["frg::unique_lock", "frg::shared_lock"])
    RA.check_spinlocks(ctx, u)
    return ("Structural part of C12 only: guard classes (unique_lock, shared_lock, qs lock_guard) are abstractly "
            "executed over their event CFGs with the ownership flag and the sequence of mutex calls as state. "
            "Not decided: mutual exclusion / FIFO hand-over over interleavings.")


def C05(ctx):
    u = need_unit(ctx, "slab")
    RS.check_C05(ctx, u)
    if ctx.tier == "thorough":
        u2 = need_unit(ctx, "slab", extra_flags=("-DFRG_SLAB_TRACK_REGIONS",), tag="track")
        RS.check_C05(ctx, u2, config=" [FRG_SLAB_TRACK_REGIONS]")
    return ("Lockset half of C05: guard typestate analysis over every slab_pool member (3 policy instantiations): "
            "policy map/unmap reached only with an empty lockset (through callees), protected fields accessed only "
            "with their mutex held, locks only via RAII guards, lock-order graph acyclic. Not decided: linearizability, "
            "happens-before race freedom as a whole, progress.")


def C04(ctx):
    u = need_unit(ctx, "slab")
    RS.check_C04(ctx, u)
    return ("Every failure point of C04 is a call site: each Policy::map result, each _construct_* result in allocate() "
            "and the inner allocate() of realloc() is tested before use and its null arm returns null with no write to "
            "pool state and no call. Not decided: that later requests succeed (liveness over a history).")


def C11(ctx):
    u = need_unit(ctx, "locks")
    RG.check_guards(ctx, u, {"frg::lock_guard": ("lock", "unlock")})
    RQ.check_qs_locking(ctx, u)
    RQ.check_qs_run(ctx, u)
    RQ.check_qs_period(ctx, u)
    RQ.check_qs_chain(ctx, u)
    return ("Structural clauses of C11: the domain mutex guard releases through unlock(); counter/ack-count/agent-count "
            "writes are under the domain mutex; run() unlinks and resets the node before the callback and never touches "
            "it afterwards; callback only under acquire-loaded counter >= target; both barrier functions use the same "
            "period offset K >= 2; the ack RMW / release store / acquire load chain that carries the agents' work to the "
            "callback. Not decided: the counting protocol over interleavings (deferred periods, joining agents), fairness.")


def C10(ctx):
    u = need_unit(ctx, "radix")
    RR.check_C10(ctx, u)
    return ("Publication-order half of C10: release on every store a reader can see, acquire on every load in find(), fresh "
            "nodes completely initialised (header, all 16 link slots, value, old subtree linked) before the publishing store "
            "and never written afterwards, value constructed before its mask bit, erase clears a bit and frees nothing, find "
            "returns only under prefix match and set bit. Not decided: the happens-before argument over all interleavings.")


def C09(ctx):
    u = need_unit(ctx, "radix")
    RR.check_C09(ctx, u)
    return ("Structural clauses of C09: shift counts of pfx_of/idx_of within [0,64) on depth in [0,15]; every link/entry "
            "subscript is idx_of(key, own depth) and mask bits use the same index; the three descents agree on prefix and "
            "leaf tests; entry storage is never moved/freed outside the destructor and values are constructed only in fresh "
            "leaves or under a clear bit. Not decided: exactness of the map over all key sets, ascending iteration order.")


PROPS = {"C10": C10, "C09": C09, "C11": C11, "C12": C12, "C05": C05, "C04": C04}
