"""One function per property: which units are analysed and which rules apply."""
from .ir import load_unit, unit_errors, AnalysisBroken
from . import rules_guard as RG
from . import rules_atomic as RA


def need_unit(ctx, name, **kw):
    u = load_unit(name, **kw)
    ctx.use_unit(u)
    errs = unit_errors(u)
    if errs:
        msgs = "; ".join("%s:%s: %s" % (e["file"], e["line"], e["text"]) for e in errs[:5])
        raise AnalysisBroken("instantiation unit %s does not compile against the current tree: %s" % (name, msgs))
    return u


GUARD_TABLE = {
    # class: (acquiring mutex method, matching releasing mutex method)
    "frg::unique_lock": ("lock", "unlock"),
    "frg::shared_lock": ("lock_shared", "unlock_shared"),
    "frg::lock_guard": ("lock", "unlock"),
}


def C12(ctx):
    u = need_unit(ctx, "locks")
    RG.check_guards(ctx, u, GUARD_TABLE)
    RG.check_swap(ctx, u, ["frg::unique_lock", "frg::shared_lock"])
    RA.check_spinlocks(ctx, u)
    return ("Structural part of C12 only: guard classes (unique_lock, shared_lock, qs lock_guard) are abstractly "
            "executed over their event CFGs with the ownership flag and the sequence of mutex calls as state. "
            "Not decided: mutual exclusion / FIFO hand-over over interleavings.")


PROPS = {"C12": C12}
