"""B9: integer widths of persistent state.  A value that is computed in N bits and then kept in a field of fewer bits is
silently truncated; the library's headers, sizes, counters and positions are all computed in size_t / uint64_t.

  B9.no-narrowing-store   no assignment, member initialiser or atomic store/exchange/compare-exchange/fetch-op puts a value
                          through an implicit integral conversion to FEWER bits on its way into a data member (constants that
                          clang evaluated are exempt), and no data member that receives computed values is a bit-field
                          narrower than the value stored into it;
  B9.mask-width           the complement in an alignment mask `x & ~(a - 1)` is computed at the width of x (a complement
                          computed in a narrower unsigned type is zero-extended and clears the upper bits of x).

  B9.counter-width        a data member that is stepped by ++ / -- / += / -= (an event counter: live objects, entries, pending
                          agents) is at least as wide as int, unless the step is taken under a test of that member: a
                          counter of 8 or 16 bits wraps after at most 65536 events, which nothing else in the code excludes.

  B9.bitcount-width       the operand of a bit-counting builtin (__builtin_clz / ctz / popcount / ffs / parity and their l / ll
                          forms) does not pass an implicit integral conversion to fewer bits: the builtin would count the low
                          half of the value only.

All count zero on the unchanged tree; a positive example in the witness header (wit::probe_width_store / wit::probe_width_mask) must match on every run."""
from .ir import path, canon, std_unwrap, AnalysisBroken

ATOMIC_WRITES = ("store", "exchange", "compare_exchange_weak", "compare_exchange_strong", "fetch_add", "fetch_sub", "fetch_or",
                 "fetch_and", "fetch_xor")


def _narrowing(x):
    """(to bits, from bits) if x is (after parentheses) an implicit integral conversion to fewer bits of a non-constant."""
    hops = 0
    while x is not None and x.kind in ("ParenExpr", "ExprWithCleanups", "MaterializeTemporaryExpr", "CXXBindTemporaryExpr") and x.children and hops < 6:
        x, hops = x.children[0], hops + 1
    if x is None or x.kind != "ImplicitCastExpr" or x.get("ck") != "IntegralCast" or not x.children:
        return None
    c = x.children[0]
    if x.get("bits") and c.get("bits") and x.get("bits") < c.get("bits") and x.cv() is None and c.cv() is None:
        if _promotion_only(c, x.get("bits")):
            return None         # arithmetic on operands of the target's own width, done in int by the usual promotions
        return (x.get("bits"), c.get("bits"), c)
    return None


def _promotion_only(e, tb, depth=0):
    """e is built from operands that are themselves at most tb bits wide (shift counts do not matter): its width is an
    artefact of integer promotion, as in `mask | (uint16_t(1) << idx)` stored back into a uint16_t."""
    if depth > 12:
        return False
    x = e
    while x.kind in ("ParenExpr",) and x.children:
        x = x.children[0]
    if x.kind == "ImplicitCastExpr" and x.children and x.get("ck") in ("IntegralCast", "LValueToRValue", "NoOp"):
        c = x.children[0]
        if x.get("ck") == "IntegralCast" and c.get("bits") and c.get("bits") <= tb:
            return True
        return _promotion_only(c, tb, depth + 1)
    if x.kind in ("CXXFunctionalCastExpr", "CStyleCastExpr", "CXXStaticCastExpr"):
        return bool(x.get("bits")) and x.get("bits") <= tb
    if x.kind == "BinaryOperator" and x.op in ("<<", ">>"):
        return _promotion_only(x.children[0], tb, depth + 1)
    if x.kind == "BinaryOperator" and x.op in ("+", "-", "*", "&", "|", "^"):
        return _promotion_only(x.children[0], tb, depth + 1) and _promotion_only(x.children[1], tb, depth + 1)
    if x.kind == "UnaryOperator" and x.op in ("~", "-", "+") and x.children:
        return _promotion_only(x.children[0], tb, depth + 1)
    if x.cv() is not None and x.kind not in ("DeclRefExpr", "MemberExpr"):
        return 0 <= x.cv() < (1 << tb)
    return bool(x.get("bits")) and x.get("bits") <= tb


def narrowing_stores(f, fields_bitw=None):
    out = []
    for n in f.all_nodes():
        if n.d.get("inlined"):
            continue
        if n.kind == "BinaryOperator" and n.op == "=":
            l = n.children[0].strip()
            if l.kind == "MemberExpr" and l.get("mk") == "Field":
                r = _narrowing(n.children[1])
                if r:
                    out.append((n, l.m, r))
                elif fields_bitw and l.m in fields_bitw:
                    rb = n.children[1].strip().get("bits") or n.children[1].get("bits")
                    if rb and fields_bitw[l.m] < rb and n.children[1].strip().cv() is None:
                        out.append((n, l.m, (fields_bitw[l.m], rb, n.children[1])))
        elif n.kind == "CtorInit" and n.get("field") and n.get("init") is not None:
            r = _narrowing(f.node(n.get("init")))
            if r:
                out.append((n, n.get("field"), r))
        elif n.kind == "CXXMemberCallExpr" and n.callee and n.callee["n"] in ATOMIC_WRITES and n.child("obj") is not None:
            o = std_unwrap(n.child("obj"))
            if o.kind == "MemberExpr" and o.get("mk") == "Field":
                for a in n.args:
                    r = _narrowing(a)
                    if r:
                        out.append((n, o.m, r))
    return out


def narrow_counters(f, field_bits):
    """steps (++ -- += -=) of a data member narrower than int that are not taken under a test of that member"""
    from . import flow
    out = []
    for n in f.all_nodes():
        if n.d.get("inlined"):
            continue
        if (n.kind == "UnaryOperator" and n.op in ("++", "--")) or (n.kind in ("BinaryOperator", "CompoundAssignOperator") and n.op in ("+=", "-=")):
            l = n.children[0].strip()
            if l.kind != "MemberExpr" or l.get("mk") != "Field":
                continue
            b = l.get("bits") or field_bits.get(l.m)
            if not b or b >= 32 or (l.get("t") or "") in ("bool", "_Bool"):
                continue
            guarded = False
            try:
                for c_, _t in flow.facts_at(f, n.id):
                    if any(x.kind == "MemberExpr" and x.get("md") == l.get("md") for x in c_.walk()):
                        guarded = True
            except Exception:
                pass
            if not guarded:
                out.append((n, l.m, b))
    return out


BITCOUNT = ("__builtin_clz", "__builtin_ctz", "__builtin_popcount", "__builtin_ffs", "__builtin_parity", "__builtin_clrsb")


def narrowed_bitcounts(f):
    out = []
    for n in f.all_nodes():
        if n.d.get("inlined"):
            continue
        if n.kind == "CallExpr" and n.callee and any(n.callee["n"].startswith(b) for b in BITCOUNT):
            for a in n.args:
                r = _narrowing(a)
                if r:
                    out.append((n, n.callee["n"], r))
    return out


def truncating_masks(f):
    """`x & widen(~e)` with ~e computed in an unsigned type narrower than x (a compile-time constant ~e is no better: the
    zero-extension clears the upper bits of x all the same)"""
    out = []
    for n in f.all_nodes():
        if n.kind != "BinaryOperator" or n.op not in ("&", "&="):
            continue
        for a in n.children:
            x = a
            hops = 0
            while x.kind == "ParenExpr" and x.children and hops < 4:
                x, hops = x.children[0], hops + 1
            if x.kind == "ImplicitCastExpr" and x.get("ck") == "IntegralCast" and x.children:
                c = x.children[0].strip()
                if c.kind == "UnaryOperator" and c.op == "~" and c.get("sgn") is False and x.get("bits") and c.get("bits") \
                        and c.get("bits") < x.get("bits"):
                    out.append((n, c))
    return out


def check_widths(ctx, unit, classes, rule_store="B9.no-narrowing-store", rule_mask="B9.mask-width", masks=False,
                 rule_counter="B9.counter-width"):
    ctx.rule(rule_store, "no computed value passes an implicit integral conversion to fewer bits on its way into a data member "
             "(assignment, member initialiser, atomic write), and no such member is a bit-field narrower than the value", len(classes))
    if masks:
        ctx.rule(rule_mask, "the complement of an alignment mask is computed at the width of the value it masks", len(classes))
    ctx.rule(rule_counter, "a data member stepped by ++ / -- / += / -= is at least as wide as int unless the step is taken under a "
             "test of that member (a 16-bit event counter wraps after 65536 events)", len(classes))
    ctx.rule("B9.bitcount-width", "the operand of a bit-counting builtin (clz, ctz, popcount, ffs, parity) is not implicitly converted to "
             "fewer bits on the way in (the builtin would look at the low half only)", len(classes))
    # the positive example: the engine must still see a narrowing store and a truncating mask where there is one
    probe = [f for f in unit.functions if f.uq.startswith("wit::probe_width")]
    if not probe or not any(narrowing_stores(f) for f in probe) or (masks and not any(truncating_masks(f) for f in probe)) \
            or not any(narrow_counters(f, {}) for f in probe) or not any(narrowed_bitcounts(f) for f in probe):
        raise AnalysisBroken("positive example wit::probe_width_* is not recognised (narrowing store / truncating mask / narrow counter)")
    for cls in classes:
        recs = [r for r in unit.records if r["uq"] == cls or r["uq"].startswith(cls + "::")]
        fns = [f for f in unit.functions if (f.owner_cls or "") == cls or (f.owner_cls or "").startswith(cls + "::") or f.uq.startswith(cls + "::")
               or (cls.endswith("::") and f.uq.startswith(cls))]
        if not fns:
            if recs:
                # a class whose only special members are defaulted has no function body left to examine
                for rl_ in (rule_store, rule_counter, "B9.bitcount-width"):
                    ctx.inst(rl_, cls.rstrip(":"), True, recs[0].get("loc", ""), "the class has no function body of its own "
                             "(all members defaulted / initialised in class): nothing is stored through a conversion", None, nontrivial=False)
                continue
            raise AnalysisBroken("anchor vanished: no function of %s in unit" % cls)
        bitw = {}
        for r in recs:
            for fl in r["fields"]:
                if fl.get("bitw"):
                    bitw[fl["n"]] = fl["bitw"]
        bad, seen = [], set()
        for f in fns:
            for n, fld, (tb, fb, src) in narrowing_stores(f, bitw):
                key = (fld, tb, fb)
                if key in seen:
                    continue
                seen.add(key)
                bad.append((n.loc, "%s (%d bits) receives %s computed in %d bits" % (fld, tb, canon(src).split("#")[0][:50], fb)))
        ctx.inst(rule_store, cls.rstrip(":"), not bad, (bad[0][0] if bad else fns[0].loc),
                 ("; ".join(b[1] for b in bad[:3]) + ": the upper bits are dropped without a trace") if bad else
                 "no narrowing store into a data member (%d functions)" % len(fns), None)
        fbits = {}
        for r in recs:
            for fl in r["fields"]:
                if fl.get("bits"):
                    fbits[fl["n"]] = min(fl["bits"], fl.get("bitw") or fl["bits"])
        cb, seenc = [], set()
        for f in fns:
            for n, fld, b in narrow_counters(f, fbits):
                if fld not in seenc:
                    seenc.add(fld)
                    cb.append((n.loc, "%s (%d bits) is stepped in %s with no test of it on the way" % (fld, b, f.name)))
        ctx.inst(rule_counter, cls.rstrip(":"), not cb, (cb[0][0] if cb else fns[0].loc),
                 ("; ".join(b[1] for b in cb[:3]) + ": it wraps after at most %d events" % (1 << 16)) if cb else
                 "no event counter narrower than int (%d functions)" % len(fns), None)
        bb = []
        for f in fns:
            for n, nm, (tb, fb, src) in narrowed_bitcounts(f):
                bb.append((n.loc, "%s receives %s, computed in %d bits, as a %d-bit operand (in %s)" % (nm, canon(src).split("#")[0][:40], fb, tb, f.name)))
        ctx.inst("B9.bitcount-width", cls.rstrip(":"), not bb, (bb[0][0] if bb else fns[0].loc),
                 (sorted(set(b[1] for b in bb))[0] + ": the upper bits are not counted") if bb else
                 "no bit-counting builtin with a narrowed operand (%d functions)" % len(fns), None)
        if masks:
            mb = []
            for f in fns:
                for n, c in truncating_masks(f):
                    mb.append((n.loc, "%s is computed in %d bits and zero-extended" % (canon(c).split("#")[0][:50], c.get("bits"))))
            ctx.inst(rule_mask, cls.rstrip(":"), not mb, (mb[0][0] if mb else fns[0].loc),
                     (mb[0][1] + ": the mask clears the upper bits of the address") if mb else "no narrower complement used as a mask", None)


# ---- signed countdowns compared as unsigned -------------------------------------------------------------------------

def signed_countdowns(f):
    """[(comparison, variable)]: a loop is left by a relational comparison in which a SIGNED local that the loop decrements
    is implicitly converted to an unsigned type: once it passes zero it compares as a huge value and the loop never ends."""
    from . import flow
    out = []
    for lp in flow.natural_loops(f):
        conds = []
        for b in lp.body:
            blk = f.blocks[b]
            if blk.cond is not None and any(s_ not in lp.body for s_ in blk.live_succs()):
                conds.append(f.node(blk.cond))
        dec = set()
        for n in f.all_nodes():
            if not lp.contains(n):
                continue
            if (n.kind == "UnaryOperator" and n.op == "--") or (n.kind == "CompoundAssignOperator" and n.op == "-="):
                l = n.children[0].strip()
                if l.kind == "DeclRefExpr" and l.get("local"):
                    dec.add(l.d["d"])
        for c in conds:
            for x in c.walk():
                if x.kind != "BinaryOperator" or x.op not in ("<", "<=", ">", ">="):
                    continue
                for a in x.children:
                    y = a
                    hops = 0
                    while y.kind == "ParenExpr" and y.children and hops < 4:
                        y, hops = y.children[0], hops + 1
                    if y.kind == "ImplicitCastExpr" and y.get("ck") == "IntegralCast" and y.get("sgn") is False and y.children:
                        z = y.children[0]
                        if z.get("sgn") is True:
                            v = z.strip()
                            if v.kind == "DeclRefExpr" and v.get("local") and v.d["d"] in dec:
                                out.append((x, v.n))
    return out


def check_countdowns(ctx, unit, classes, rule="B8.countdown-sign"):
    ctx.rule(rule, "no loop is left by a comparison that converts a signed variable the loop decrements to an unsigned type "
             "(below zero it compares as a huge value: the loop cannot end and indexes out of range)", len(classes))
    probe = [f for f in unit.functions if f.uq == "wit::probe_width_countdown"]
    if not probe or not signed_countdowns(probe[0]):
        raise AnalysisBroken("positive example wit::probe_width_countdown is not recognised (signed countdown compared as unsigned)")
    for cls in classes:
        fns = [f for f in unit.functions if (f.owner_cls or "") == cls or (f.owner_cls or "").startswith(cls + "::")]
        if not fns:
            raise AnalysisBroken("anchor vanished: no function of %s in unit" % cls)
        from . import flow
        bad, nl = [], 0
        for f in fns:
            nl += len(flow.natural_loops(f))
            for x, v in signed_countdowns(f):
                bad.append((x.loc, "%s: %s is signed, decremented in the loop and compared as unsigned at %s" % (f.name, v, x.loc)))
        ctx.inst(rule, cls, not bad, bad[0][0] if bad else fns[0].loc,
                 "; ".join(sorted(set(b[1] for b in bad))[:2]) if bad else "%d loops, none left by a sign-converting countdown test" % nl, None)
