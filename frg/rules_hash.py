"""hash_map (C14): K — stale / mispaired bucket indices; E — bucket of key; size accounting."""
from .ir import path, canon, std_unwrap, AnalysisBroken
from . import flow
from . import rules_atomic as RA
from .rules_guard import write_of
from .rules_own import cls_fns, recs_of

MAP = "frg::hash_map"


def _modulus(init):
    """init expr of an index: (hash % CAP) -> (hash node, CAP node) or None"""
    v = init.strip()
    for _ in range(4):          # through a virtually inlined helper that returns hash % capacity, and result conversions
        if v.kind == "BinaryOperator" and v.op == "%":
            return v.children[0], v.children[1]
        w = std_unwrap(v).strip()
        if w.id == v.id:
            break
        v = w
    return None


def check_C14(ctx, unit):
    ctx.rule("K.stale-index", "a bucket index computed modulo the capacity is not used to subscript the table after a call "
             "that may change the capacity", 8)
    ctx.rule("K.index-pairing", "an index reduced modulo capacity variable c subscripts only the table that has c buckets "
             "(_table with _capacity, new_table with new_capacity); whole-table loops are bounded by the matching capacity", 8)
    ctx.rule("E.bucket-of-key", "every bucket index is hasher(key of the entry concerned) reduced modulo a capacity", 8)
    ctx.rule("E.size-accounting", "on every path the number of chain nodes constructed equals the number of _size "
             "increments and the number destroyed equals the number of decrements; rehash() creates, destroys and counts nothing", 5)
    ctx.rule("E.bucket-agreement", "all members of hash_map apply the same explicit conversion to the hash value before reducing "
             "it modulo the capacity (insert, operator[], get, find, remove and rehash must agree on the chain of a key for any "
             "hash result type)", 8)
    ctx.rule("E.grow-before-link", "insert() tests _size >= _capacity and rehashes before it computes the bucket it links into", 2)
    for rec in recs_of(unit, MAP):
        fns = cls_fns(unit, rec["qn"])
        # functions that may write _capacity (transitively)
        writes_cap = set()
        for f in fns:
            for n in f.events():
                w = write_of(n)
                if w and w[0] == ("this", "_capacity") and f.kind != "ctor":
                    writes_cap.add(f.did)
        changed = True
        while changed:
            changed = False
            for f in fns:
                if f.did in writes_cap:
                    continue
                for n in f.events():
                    if n.is_call() and n.callee and n.callee["did"] in writes_cap:
                        writes_cap.add(f.did)
                        changed = True
                        break
        if not writes_cap:
            raise AnalysisBroken("anchor vanished: no member of %s writes _capacity" % rec["qn"])
        narrowing = {}
        for f in fns:
            if f.kind == "ctor" and not any(n.kind == "ArraySubscriptExpr" for n in f.events()):
                continue
            inits = RA.local_inits(f)
            idx = {}   # did -> (hash node, cap node)
            for did, init in inits.items():
                m = _modulus(init)
                if m:
                    idx[did] = m
            # index variables that are declared with a placeholder and receive hasher(key) % capacity by assignment
            for n in f.events():
                if n.kind == "BinaryOperator" and n.op == "=":
                    l = n.children[0].strip()
                    m = _modulus(n.children[1])
                    if m and l.kind == "DeclRefExpr" and l.get("local") and l.d["d"] not in idx:
                        idx[l.d["d"]] = m
            # pairing of local tables with local capacities via the allocation size
            pair = {"this._table": "this._capacity"}
            from .ir import value_leaves
            bm_ = f.bind_map()
            for did, init in inits.items():
                v = init.strip()
                # (the allocation may sit in a folded helper: `new_table = _allocate_table(new_capacity)`)
                lv_ = value_leaves(f, init)
                if len(lv_) == 1:
                    v = lv_[0].strip()
                    hops_ = 0
                    while v.kind in ("CStyleCastExpr", "CXXStaticCastExpr", "CXXReinterpretCastExpr", "ImplicitCastExpr", "ParenExpr") and v.children and hops_ < 6:
                        v, hops_ = v.children[0].strip(), hops_ + 1
                    v = RA.resolve_local(f, v).strip()
                    hops_ = 0
                    while v.kind in ("CStyleCastExpr", "CXXStaticCastExpr", "CXXReinterpretCastExpr", "ImplicitCastExpr", "ParenExpr") and v.children and hops_ < 6:
                        v, hops_ = v.children[0].strip(), hops_ + 1
                if v.kind == "CXXMemberCallExpr" and v.callee and v.callee["n"] == "allocate" and v.args:
                    sz = v.args[0].strip()
                    if not (sz.kind == "BinaryOperator" and sz.op == "*"):
                        lsz_ = value_leaves(f, v.args[0])           # (the byte count may come from a folded helper: table_bytes(n))
                        if len(lsz_) == 1:
                            sz = lsz_[0].strip()
                    if sz.kind == "BinaryOperator" and sz.op == "*":
                        for side in sz.children:
                            s2 = side.strip()
                            hops_ = 0
                            while s2.kind == "DeclRefExpr" and s2.d.get("d") in bm_ and hops_ < 6:
                                s2, hops_ = std_unwrap(f.node(bm_[s2.d["d"]])), hops_ + 1
                            if s2.kind == "DeclRefExpr" and s2.get("local"):
                                nm = [x for x in f.all_nodes() if x.kind == "DeclStmt" for d in x.get("decls", []) if d["d"] == did]
                                pair[canon(_declref(f, did))] = canon(s2)
            subs = sorted([n for n in f.events() if n.kind == "ArraySubscriptExpr"], key=lambda n: n.loc)
            # --- stale index (dataflow)
            stale_hits = {}

            def transfer(n, s, f=f):
                if n.kind == "DeclStmt":
                    for d in n.get("decls", []):
                        if d["d"] in idx:
                            if "init" in d and _modulus(f.node(d["init"])):
                                s = s | {d["d"]}
                            else:
                                s = s - {d["d"]}        # declared with a placeholder value: not a bucket of the key yet
                if n.is_call() and n.callee and n.callee["did"] in writes_cap:
                    s = frozenset()
                if n.kind == "BinaryOperator" and n.op == "=":
                    l = n.children[0].strip()
                    if l.kind == "DeclRefExpr" and l.d["d"] in idx:
                        m = _modulus(n.children[1])
                        if m and canon(m[1]) == canon(idx[l.d["d"]][1]):
                            s = s | {l.d["d"]}      # recomputed for the current capacity
                        else:
                            s = s - {l.d["d"]}
                if n.kind == "ArraySubscriptExpr":
                    i = std_unwrap(n.children[1])
                    if i.kind == "DeclRefExpr" and i.d["d"] in idx and i.d["d"] not in s:
                        stale_hits[n.id] = i.n
                return [s]
            flow.run(f, [frozenset()], transfer, None)
            k = 0
            for n in subs:
                i = std_unwrap(n.children[1])
                if not (i.kind == "DeclRefExpr" and i.d["d"] in idx):
                    continue
                k += 1
                bad = n.id in stale_hits
                ctx.inst("K.stale-index", "%s: use #%d of index %s" % (f.sig, k, i.n), not bad, n.loc,
                         ("on some path index %s is not hasher(key) %% capacity for the CURRENT capacity (computed before a call that may "
                          "change _capacity, or still holding a placeholder): the entry lands in / is looked up in the wrong chain" % i.n) if bad else
                         "index still valid for the current capacity", f)
            # --- pairing
            k = 0
            for n in subs:
                base = canon(n.children[0])
                if base not in pair:
                    continue
                i = std_unwrap(n.children[1])
                capc = None
                if i.kind == "DeclRefExpr" and i.d["d"] in idx:
                    capc = canon(idx[i.d["d"]][1])
                elif i.kind == "DeclRefExpr":
                    # loop variable: bound of the enclosing for loop
                    for blk in f.blocks.values():
                        if blk.termkind == "ForStmt" and blk.cond is not None:
                            c = f.node(blk.cond).strip()
                            if c.kind == "BinaryOperator" and c.op in ("<", "!=", "=="):
                                l = c.children[0].strip()
                                if l.kind == "DeclRefExpr" and l.d["d"] == i.d["d"]:
                                    capc = canon(c.children[1])
                    if capc is None:
                        p = path(i)
                        capc = None
                if capc is None:
                    pi = path(i)
                    if pi and pi[-1] == "bucket":
                        # iterator: its bucket is asserted/compared against map->_capacity
                        continue
                    continue
                k += 1
                want = pair[base]
                ok = capc == want or (capc.endswith("._capacity") and want == "this._capacity" and base == "this._table")
                ctx.inst("K.index-pairing", "%s: subscript #%d of %s" % (f.sig, k, base.split("#")[0]), ok, n.loc,
                         "index ranges over %s, table has %s buckets" % (capc.split("#")[0], want.split("#")[0]), f)
            # --- bucket of key
            kparams = {f.params()[0]["d"]} if f.params() else set()
            k = 0
            for did, (h, cap) in sorted(idx.items()):
                k += 1
                hs = h.strip()
                call = None
                for x in hs.walk():
                    if x.is_call() and x.callee and x.callee.get("op") == "()":
                        call = x
                        break
                ok, why = False, "hash expression %s is not a call of the map's hasher" % canon(hs)
                if call is not None:
                    a = call.args
                    obj = path(a[0]) if a else None
                    karg = std_unwrap(a[1]) if len(a) > 1 else None
                    if obj == ("this", "_hasher") and karg is not None:
                        if karg.kind == "DeclRefExpr" and karg.d["d"] in kparams:
                            ok, why = True, "hasher(key parameter)"
                        elif "entry" in canon(karg) and "get" in canon(karg):
                            ok, why = True, "hasher(key of the entry being relinked)"
                        else:
                            why = "hashes %s, not the key concerned" % canon(karg)
                    else:
                        why = "hash functor is %s" % (obj,)
                ctx.inst("E.bucket-of-key", "%s: index #%d" % (f.sig, k), ok, (inits[did].loc if did in inits else h.loc), why, f)
            # --- how the hash is narrowed before the reduction (collected per class, compared below)
            for did, (h, cap) in sorted(idx.items()):
                x = h
                # the explicit conversion written in the source (implicit promotions to the type of `%` do not count)
                while x.kind in ("ImplicitCastExpr", "ParenExpr") and x.children:
                    x = x.children[0]
                conv = (x.get("t") or "?") if x.kind in ("CStyleCastExpr", "CXXStaticCastExpr", "CXXFunctionalCastExpr") else "<no conversion>"
                narrowing.setdefault(conv, []).append((f, h))
            # the same for a reduction written directly inside a subscript (`table[hasher(key) % capacity]`)
            for n in subs:
                m_ = _modulus(n.children[1])
                if m_ and not (std_unwrap(n.children[1]).kind == "DeclRefExpr"):
                    x = m_[0]
                    while x.kind in ("ImplicitCastExpr", "ParenExpr") and x.children:
                        x = x.children[0]
                    conv = (x.get("t") or "?") if x.kind in ("CStyleCastExpr", "CXXStaticCastExpr", "CXXFunctionalCastExpr") else "<no conversion>"
                    narrowing.setdefault(conv, []).append((f, m_[0]))
            # --- size accounting
            def transfer2(n, s):
                c, inc, d, dec = s
                if n.kind == "CallExpr" and n.callee and n.callee["uq"] == "frg::construct":
                    c = min(c + 1, 3)
                if n.kind == "CallExpr" and n.callee and n.callee["uq"] == "frg::destruct":
                    d = min(d + 1, 3)
                if n.kind == "UnaryOperator" and n.op in ("++", "--") and path(n.children[0]) == ("this", "_size"):
                    if n.op == "++":
                        inc = min(inc + 1, 3)
                    else:
                        dec = min(dec + 1, 3)
                w = write_of(n)
                if w and w[0] == ("this", "_size") and n.kind in ("BinaryOperator", "CompoundAssignOperator"):
                    inc, dec = 3, 3
                return [(c, inc, d, dec)]
            if f.name in ("insert", "operator[]", "remove", "rehash", "get", "find"):
                _, ex = flow.run(f, [(0, 0, 0, 0)], transfer2, None)
                bad = [s for s in ex if s[0] != s[1] or (s[2] != s[3] and f.kind != "dtor")]
                if f.name == "rehash":
                    bad = [s for s in ex if s != (0, 0, 0, 0)]
                ctx.inst("E.size-accounting", f.sig, not bad and bool(ex), f.loc,
                         ("paths with (constructed, ++_size, destroyed, --_size) = %s" % sorted(bad)) if bad else
                         "all %d path summaries balanced" % len(ex), f)
            # --- grow before link
            if f.name == "insert":
                rh = [n for n in f.events() if n.is_call() and n.callee and n.callee["did"] in writes_cap]
                ok = False
                for n in rh:
                    grow = False
                    for cond, truth in flow.facts_at(f, n.id):
                        c = cond.strip()
                        if c.kind == "BinaryOperator" and c.op in (">=", ">") and truth and \
                                path(c.children[0]) == ("this", "_size") and path(c.children[1]) == ("this", "_capacity"):
                            grow = True
                    decl = [x for x in f.all_nodes() if x.kind == "DeclStmt" and any(d["d"] in idx for d in x.get("decls", []))]
                    before = all(not f.reaches(x.id, n.id) for x in decl)
                    ok = ok or (grow and before and bool(decl))
                ctx.inst("E.grow-before-link", f.sig, ok, f.loc, "rehash under _size >= _capacity precedes the bucket computation: %s" % ok, f)
        # --- sibling agreement: all members narrow the hash the same way before reducing it (a member that reduces the
        # full-width hash while the others truncate it first looks in a different chain for wide hash functions)
        if not narrowing:
            raise AnalysisBroken("anchor vanished: bucket computations of %s" % rec["qn"])
        major = max(narrowing, key=lambda k: len(narrowing[k]))
        ordn = {}
        for conv, sites in sorted(narrowing.items()):
            for (f, h) in sites:
                ordn[f.sig] = ordn.get(f.sig, 0) + 1
                ctx.inst("E.bucket-agreement", "%s: hash reduction #%d" % (f.sig, ordn[f.sig]), conv == major, h.loc,
                         "hash converted by %s before `%% capacity`; the other members use %s (%d of %d sites)" % (
                             conv, major, len(narrowing[major]), sum(len(v) for v in narrowing.values())), f)


def _declref(fn, did):
    for x in fn.all_nodes():
        if x.kind == "DeclRefExpr" and x.d["d"] == did:
            return x
    raise AnalysisBroken("local %d never referenced" % did)


def _lk_var(n):
    n = n.strip()
    if n.kind == "DeclRefExpr" and n.get("local") and n.get("dk") in ("Var", "ParmVar") and (n.get("t") or "").rstrip().endswith("*"):
        return n.d["d"]
    return None


def _lk_mentions(n):
    return frozenset(x.d["d"] for x in n.walk() if x.kind == "DeclRefExpr" and x.get("local"))


class LinkSlots:
    """Which memory location currently holds each chain pointer.  Facts (must-facts of one path-sensitive state):
      ('eq', v, L)   local v == *L          ('addr', pp, L)  local pp == &L
      ('al', a, b)   locals a == b           ('null', v) / ('nn', v)
    L is ('slot', text, vars) for a table slot, ('next', v, field) for v->field, ('deref', pp) for *pp.
    An *unlink store* `L = x->field` (a link location receives the successor of x) is justified only if x == *L
    holds on every path; otherwise a node that is not x is cut out of the chain (or x stays linked)."""

    def __init__(self, fn):
        self.fn = fn
        self.sites = {}      # node id -> (node, ok on every state, text)
        self.stale_steps = {}    # node id -> (node, location) : successor loaded from a link that was rewritten

    def loc(self, n, st):
        """location designated by lvalue expression n (unstripped of LValueToRValue by caller)"""
        n = n.strip()
        if n.kind == "ArraySubscriptExpr":
            return ("slot", canon(n), _lk_mentions(n))
        if n.kind == "MemberExpr" and n.get("mk") == "Field" and (n.get("t") or "").rstrip().endswith("*") and n.children:
            b = n.children[0]
            v = _lk_var(b)
            if v is not None:
                return ("next", v, n.m)
            # base is itself a load of a location that some local is known to equal
            bl = self.loc(b, st)
            if bl is not None:
                for f in st:
                    if f[0] == "eq" and f[2] == bl:
                        return ("next", f[1], n.m)
            return None
        if n.kind == "UnaryOperator" and n.op == "*" and n.children:
            v = _lk_var(n.children[0])
            if v is not None:
                return ("deref", v)
        return None

    @staticmethod
    def mentions(fact, v):
        if fact[0] in ("null", "nn", "dirty"):
            return fact[1] == v
        if fact[0] == "al":
            return v in fact[1:]
        if fact[1] == v:
            return True
        L = fact[2]
        if L[0] == "slot":
            return v in L[2]
        return L[1] == v

    def assign(self, st, x, e):
        """local x = e"""
        new = set()
        es = e.strip()
        y = _lk_var(es)
        aliases = {f[1] if f[2] == x else f[2] for f in st if f[0] == "al" and x in f[1:]}
        if es.kind == "CXXNullPtrLiteralExpr" or es.get("nullc") or (es.cv() == 0 and es.kind == "IntegerLiteral"):
            new.add(("null", x))
        elif y is not None and y != x:
            new.add(("al", min(x, y), max(x, y)))
            for f in st:
                if f[0] in ("eq", "addr") and f[1] == y and not self.mentions((f[0], None, f[2]), x):
                    new.add((f[0], x, f[2]))
                if f[0] in ("null", "nn") and f[1] == y:
                    new.add((f[0], x))
        elif es.kind == "UnaryOperator" and es.op == "&" and es.children:
            L = self.loc(es.children[0], st)
            L = self._rebase(L, x, aliases)
            if L is not None:
                new.add(("addr", x, L))
                new.add(("nn", x))
        else:
            L = self.loc(es, st)
            if L is not None and L[0] == "next" and ("dirty", L[1], L[2]) in st:
                # the walk continues through a link that this activation has already rewritten
                self.stale_steps[e.id] = (e, L)
            if L is not None:
                cands = [L]
                if L[0] == "deref":
                    cands += [f[2] for f in st if f[0] == "addr" and f[1] == L[1]]
                for c in cands:
                    c = self._rebase(c, x, aliases)
                    if c is not None:
                        new.add(("eq", x, c))
        out = {f for f in st if not self.mentions(f, x)}
        return frozenset(out | new)

    def _rebase(self, L, x, aliases):
        if L is None:
            return None
        if L[0] == "slot":
            return None if x in L[2] else L
        if L[1] != x:
            return L
        for a in sorted(aliases):
            return (L[0], a) + tuple(L[2:])
        return None

    def holds(self, st, x, L):
        if ("eq", x, L) in st:
            return True
        if L[0] == "deref":
            for f in st:
                if f[0] == "addr" and f[1] == L[1] and ("eq", x, f[2]) in st:
                    return True
        for f in st:
            if f[0] == "addr" and f[2] == L and ("eq", x, ("deref", f[1])) in st:
                return True
        return False

    def transfer(self, n, st):
        k = n.kind
        if k == "ParamBind" and n.d.get("init") is not None and (n.d.get("t") or "").rstrip().endswith("*"):
            # the pointer parameter of a folded helper or closure is a fresh variable on every call: what was known about
            # the node it named in the previous call (a rewritten link) does not describe the node it names now
            st = frozenset(f for f in st if not self.mentions(f, n.d["d"]))
            return [self.assign(st, n.d["d"], self.fn.node(n.d["init"]))]
        if k == "DeclStmt":
            for d in n.get("decls", []):
                if "init" in d:
                    st = self.assign(st, d["d"], self.fn.node(d["init"]))
                else:
                    st = frozenset(f for f in st if not self.mentions(f, d["d"]))
            return [st]
        if k == "BinaryOperator" and n.op == "=":
            lhs, rhs = n.children
            x = _lk_var(lhs)
            if x is not None:
                return [self.assign(st, x, rhs)]
            if not (lhs.get("t") or "").rstrip().endswith("*"):
                # assignment to a non-pointer local (e.g. the bucket index) invalidates slots that mention it
                ls = lhs.strip()
                if ls.kind == "DeclRefExpr" and ls.get("local"):
                    return [frozenset(f for f in st if not self.mentions(f, ls.d["d"]))]
                return [st]
            L = self.loc(lhs, st)
            rs = rhs.strip()
            if L is not None and rs.kind == "MemberExpr" and rs.get("mk") == "Field" and rs.children and _lk_var(rs.children[0]) is not None:
                xv = _lk_var(rs.children[0])
                ok = self.holds(st, xv, L)
                node, allok, _ = self.sites.get(n.id, (n, True, ""))
                self.sites[n.id] = (n, allok and ok, canon(lhs))
            # the store changes *L: forget what every local was known to equal, remember the stored local
            out = {f for f in st if f[0] != "eq"}
            if L is not None and L[0] == "next":
                out.add(("dirty", L[1], L[2]))
                for f in st:
                    if f[0] == "al" and L[1] in f[1:]:
                        out.add(("dirty", f[1] if f[2] == L[1] else f[2], L[2]))
            y = _lk_var(rhs)
            if L is not None and y is not None:
                out.add(("eq", y, L))
            return [frozenset(out)]
        if k in ("UnaryOperator",) and n.op in ("++", "--") and n.children:
            ls = n.children[0].strip()
            if ls.kind == "DeclRefExpr" and ls.get("local"):
                return [frozenset(f for f in st if not self.mentions(f, ls.d["d"]))]
        if k == "CompoundAssignOperator" and n.children:
            ls = n.children[0].strip()
            if ls.kind == "DeclRefExpr" and ls.get("local"):
                return [frozenset(f for f in st if not self.mentions(f, ls.d["d"]))]
        return [st]

    def refine(self, cond, truth, st):
        cons = []

        def lookup(a):
            v = _lk_var(a)
            if v is None:
                return None
            if ("nn", v) in st:
                return True
            if ("null", v) in st:
                return False
            return None

        def assume(a, val):
            v = _lk_var(a)
            if v is not None:
                cons.append(("nn" if val else "null", v))
        if not flow.refine_bool(cond, truth, lookup, assume):
            return []
        out = set(st)
        for c in cons:
            other = ("null" if c[0] == "nn" else "nn", c[1])
            if other in out:
                return []
            out.add(c)
            # propagate over aliases
            for f in st:
                if f[0] == "al" and c[1] in f[1:]:
                    o = f[1] if f[2] == c[1] else f[2]
                    if (("null" if c[0] == "nn" else "nn"), o) in out:
                        return []
                    out.add((c[0], o))
        return [frozenset(out)]

    def run(self):
        flow.run(self.fn, [frozenset()], self.transfer, self.refine, limit=50000)
        return self.sites


def check_trailing_pointer(ctx, unit, rule="H.chain-unlink"):
    """Every store that unlinks a node x from a bucket chain (`L = x->next`, L a table slot, a predecessor's next
    field, or *pp) writes into the location that holds x on every path reaching it.  Decided by a path-sensitive
    must-analysis of which location each local was loaded from (LinkSlots): covers the predecessor-variable idiom,
    the pointer-to-link idiom and any loop form; a predecessor that does not follow the walk, a stale predecessor
    or a head/middle mix-up all leave the fact unproven."""
    ctx.rule("H.walk-saved-successor", "hash_map: a chain walk never loads its next node from a link field that the same "
             "activation has already overwritten (rehash saves the successor before relinking the node)", 1)
    ctx.rule(rule, "hash_map: a store `L = x->next` that unlinks x from its chain writes into the location L that holds x "
             "on every path (path-sensitive must-analysis of where each chain pointer was loaded from)", 2)
    for rec in recs_of(unit, MAP):
        cnt = 0
        for f in cls_fns(unit, rec["qn"]):
            try:
                sites = LinkSlots(f).run()
            except flow.TooManyStates:
                raise AnalysisBroken("link-slot analysis of %s exceeded its state budget" % f.qn)
            for k, (nid, (n, ok, lhs)) in enumerate(sorted(sites.items())):
                cnt += 1
                ctx.inst(rule, "%s: unlink store #%d" % (f.sig, k + 1), ok, n.loc,
                         "store into %s: %s" % (lhs, "the location holds the unlinked node on every path" if ok else
                                                "on some path this location does not hold the node whose successor is stored "
                                                "(wrong or stale predecessor / slot)"), f)
        if cnt == 0:
            raise AnalysisBroken("anchor vanished: %s has no chain unlink store" % rec["qn"])
        for f in cls_fns(unit, rec["qn"]):
            ls = LinkSlots(f)
            ls.run()
            walks = [n for n in f.events() if n.kind in ("BinaryOperator", "DeclStmt")]
            if f.name in ("rehash",) or ls.stale_steps:
                bad = ["%s at %s" % (canon(n)[:60], n.loc) for n, _L in ls.stale_steps.values()]
                ctx.inst("H.walk-saved-successor", f.sig, not bad, f.loc,
                         ("the walk advances through a link rewritten earlier in the same step: " + "; ".join(bad)) if bad else
                         "every chain walk advances through a link it has not rewritten (successor saved before relinking)", f)




# ---- K.next-after-relink: a chain walk does not follow a link it has just rewritten --------------------------------------

def check_next_after_relink(ctx, unit, rule="K.next-after-relink", cls="frg::hash_map", link="next"):
    """rehash() moves every node to the front of a chain of the new table, which overwrites the node's `next`; the walk
    over the old chain therefore has to read `next` BEFORE the node is relinked.  Per path: once `c->next` has been
    written for the node that a cursor variable c designates, c must not be advanced with `c = c->next` (the walk would
    continue in the new table and drop the rest of the old chain).  Relinking written in a helper, in the loop body or in
    the for-increment reads the same after folding."""
    ctx.rule(rule, "in hash_map, a cursor over a chain is not advanced through a `next` link that was overwritten for the same node "
             "on that path (rehash saves the old link before it relinks the node)", 1)
    n_inst = 0
    for f in unit.functions:
        if f.owner_cls != cls or f.get("lambda"):
            continue
        # cursor candidates: pointer locals that are advanced through their own link somewhere in f
        curs = set()
        for n in f.events():
            w = write_of(n)
            if w and w[0] and len(w[0]) == 1 and w[0][0].startswith("v:") and w[1] is not None:
                pv = path(w[1])
                if pv and len(pv) == 2 and pv[-1] == link:
                    curs.add(w[0][0])
        # (`c = c->next` directly, or through a saved copy `n = c->next; ...; c = n`)
        if not curs:
            continue
        bad = []

        def transfer(n, st):
            w = write_of(n)
            if w and w[0]:
                p_ = w[0]
                if len(p_) == 2 and p_[-1] == link and p_[0].startswith("v:"):
                    return [st | {p_[0]}]                      # c->next = ...
                if len(p_) == 1 and p_[0].startswith("v:") and w[1] is not None:
                    pv = path(w[1])
                    if pv and len(pv) == 2 and pv[-1] == link and pv[0] in st:
                        bad.append((n.loc, pv[0].split("#")[0][2:]))
                    # any assignment to the variable makes it designate another node
                    return [frozenset(x for x in st if x != p_[0])]
            if n.kind == "DeclStmt":
                for d in n.get("decls", []):
                    if "init" in d:
                        pv = path(f.node(d["init"]))
                        if pv and len(pv) == 2 and pv[-1] == link and pv[0] in st:
                            bad.append((n.loc, pv[0].split("#")[0][2:]))
            return [st]
        flow.run(f, [frozenset()], transfer, None, limit=50000)
        n_inst += 1
        ctx.inst(rule, f.sig, not bad, (bad[0][0] if bad else f.loc),
                 ("`%s->%s` is read at %s after it was overwritten for the same node on that path: the walk continues in the chain "
                  "the node was just linked into and the rest of the old chain is dropped" % (bad[0][1], link, bad[0][0])) if bad else
                 "every link is read before the node is relinked", f)
    if n_inst == 0:
        raise AnalysisBroken("anchor vanished: no chain walk in %s" % cls)


def check_end_sentinel(ctx, unit, rule="K.end-sentinel-agrees"):
    """Sibling agreement on the past-the-end position.  hash_map builds past-the-end iterators in several places (end(), end()
    const, begin() of an empty map, whatever else constructs an iterator with a null item) and operator++ arrives at one when
    the buckets are exhausted; iteration terminates only if all of them designate the SAME bucket value, because iterators
    are compared by (bucket, item)."""
    from .rules_attr import _is_null
    ctx.rule(rule, "hash_map: every place that builds a past-the-end iterator (null item) uses one and the same bucket value, and "
             "operator++ leaves that value behind when the buckets are exhausted", 2)

    def norm(x):
        x = std_unwrap(x)
        hops = 0
        while x.kind in ("ImplicitCastExpr", "CStyleCastExpr", "CXXStaticCastExpr", "CXXFunctionalCastExpr", "ParenExpr") and x.children and hops < 6:
            x, hops = x.children[0].strip(), hops + 1
        c = x.cv()
        if c is not None:
            return "constant %d" % c
        p = path(x)
        if p:
            return str(p[-1]).split("#")[0]
        return canon(x)
    for rec in recs_of(unit, MAP):
        fns = cls_fns(unit, rec["qn"])
        its = [f for f in unit.functions if (f.owner_cls or "").startswith(MAP + "::") and f.qn.startswith(rec["qn"] + "::")]
        sites = []
        for f in fns + its:
            for n in f.all_nodes():
                if n.kind in ("CXXTemporaryObjectExpr", "CXXConstructExpr") and n.callee and "iterator" in (n.callee.get("cls") or n.callee.get("uq") or ""):
                    a = n.args if hasattr(n, "args") else []
                    if len(a) == 3 and _is_null(a[2]):
                        sites.append((f, n, norm(a[1])))
        if len(sites) < 1:
            raise AnalysisBroken("anchor vanished: past-the-end iterator constructions of %s (found %d)" % (rec["qn"], len(sites)))
        vals = sorted({s[2] for s in sites})
        for f, n, v in sites:
            ctx.inst(rule, "%s: iterator with a null item at %s" % (f.sig, n.loc.split("/")[-1]), len(vals) == 1, n.loc,
                     "bucket %s; the past-the-end constructions use %s" % (v, " / ".join(vals)), f)
        incs = [f for f in its if f.name == "operator++"]
        if not incs:
            raise AnalysisBroken("anchor vanished: operator++ of the iterators of %s" % rec["qn"])
        for f in incs:
            assigned, compared = [], []
            for n in f.all_nodes():
                if n.kind == "BinaryOperator" and n.op == "=" and (path(n.children[0]) or ("",))[-1] == "bucket":
                    assigned.append(norm(n.children[1]))
                if n.kind == "BinaryOperator" and n.op in ("==", "!=", "<", "<=", ">", ">="):
                    ps = [(path(c) or ("",))[-1] for c in n.children]
                    if "bucket" in ps:
                        compared.append(norm(n.children[1 - ps.index("bucket")]))
            if assigned:
                ok = all(a in vals for a in assigned) and len(vals) == 1
                why = "assigns bucket = %s" % " / ".join(sorted(set(assigned)))
            else:
                ok = len(vals) == 1 and vals[0] in compared
                why = "stops where bucket meets %s" % " / ".join(sorted(set(compared)))
            ctx.inst(rule, "%s: exhausted" % f.sig, ok, f.loc, "%s; past-the-end is bucket %s" % (why, " / ".join(vals)), f)


def check_begin_total(ctx, unit, rule="E.begin-total"):
    """begin() scans the buckets for the first chain and treats running out of buckets as corruption.  That verdict is only
    justified when the map HAS an entry: every trap / unreachable mark in begin() is under the decision `_size != 0`.  (A map
    that was filled and drained has a table and no entry; `_capacity != 0` says nothing about entries.)"""
    ctx.rule(rule, "hash_map::begin(): the 'no chain found' trap is reached only under _size != 0; an empty map, with or without "
             "a table, gets the past-the-end position", 1)
    for rec in recs_of(unit, MAP):
        fs = [f for f in cls_fns(unit, rec["qn"]) if f.name == "begin" and f.blocks]
        if not fs:
            raise AnalysisBroken("anchor vanished: hash_map::begin")
        for f in fs:
            traps = [n for n in f.events() if n.is_call() and n.callee and n.callee["n"] in ("frg_panic", "__builtin_trap", "__builtin_unreachable")]
            bad = []
            for n in traps:
                ok = False
                for c, t in flow.facts_at(f, n.id):
                    x = c.strip()
                    pc = path(x)
                    if pc and pc[-1] == "_size" and t:
                        ok = True
                    rel = flow.fact_relation(c, t)
                    if rel and rel[1] in ("!=", "<") and any((path(s_) or ("",))[-1] == "_size" for s_ in (rel[0], rel[2])) and \
                            any(std_unwrap(s_).cv() == 0 for s_ in (rel[0], rel[2])):
                        ok = True
                if not ok:
                    bad.append(n.loc)
            ctx.inst(rule, "%s::begin%s" % (rec["qn"], " const" if f.get("const") else ""), not bad, f.loc,
                     "the trap at %s can be reached with _size == 0 (a drained map): begin() of an empty map must be end()" % bad[0].split("/")[-1] if bad else
                     "%d trap sites, all under _size != 0" % len(traps), f)


def check_key_before_move(ctx, unit, rule="R.key-read-before-value-moved"):
    """insert(const Key &key, Value &&value): the key may be part of the value (`m.insert(rec.name, std::move(rec))`).  Once
    `value` has been moved from, `key` may name a moved-from object: nothing reads the by-reference key after the statement
    that consumes std::move(value) -- the bucket is computed, and the table grown, before the node is constructed."""
    ctx.rule(rule, "hash_map::insert(key, Value &&): the by-reference key is not read (hashed, compared) after the statement that "
             "moves from value", 1)
    n_inst = 0
    for rec in recs_of(unit, MAP):
        for f in [g for g in cls_fns(unit, rec["qn"]) if g.name == "insert" and g.blocks]:
            ps = f.params()
            rv = [p for p in ps if (p.get("t") or "").rstrip().endswith("&&")]
            kr = [p for p in ps if (p.get("t") or "").rstrip().endswith("&") and not (p.get("t") or "").rstrip().endswith("&&")]
            if not rv or not kr:
                continue
            n_inst += 1
            vd, kd = rv[0]["d"], kr[0]["d"]
            movers = []
            for n in f.events():
                if n.is_call() and n.callee and n.callee.get("uq") in ("std::move", "std::forward") and n.args and \
                        std_unwrap(n.args[0]).kind == "DeclRefExpr" and std_unwrap(n.args[0]).d.get("d") == vd:
                    # the consuming statement: the outermost call this std::move is an argument of
                    top = n
                    p_ = f.parent(top)
                    while p_ is not None and (p_.is_call() or p_.kind in ("ImplicitCastExpr", "MaterializeTemporaryExpr", "CXXConstructExpr", "ExprWithCleanups")):
                        top, p_ = p_, f.parent(p_)
                    movers.append(top)
            bad = []
            for m in movers:
                inside = {y.id for y in m.walk()} | {m.id}
                for x in f.events():
                    if x.kind == "DeclRefExpr" and x.d.get("d") == kd and x.id not in inside and m.id in f.positions() and x.id in f.positions() \
                            and f.reaches(m.id, x.id):
                        bad.append("key is read at %s after value was moved from at %s" % (x.loc.split("/")[-1], m.loc.split("/")[-1]))
            ctx.inst(rule, f.sig, not bad and bool(movers), f.loc, "; ".join(sorted(set(bad))[:2]) if bad else
                     "%d consuming statement(s), no read of the key after any" % len(movers), f)
    if not n_inst:
        raise AnalysisBroken("anchor vanished: hash_map::insert(const Key &, Value &&)")
