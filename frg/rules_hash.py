"""hash_map (C14): K — stale / mispaired bucket indices; E — bucket of key; size accounting."""
from .ir import path, canon, std_unwrap, AnalysisBroken
from . import flow
from . import rules_atomic as RA
from .rules_guard import write_of
from .rules_own import cls_fns, recs_of

MAP = "frg::hash_map"


def _modulus(init):
    """init expr of an index: (hash % CAP) -> (hash node, CAP node) or None"""
    v = init.strip()
    if v.kind == "BinaryOperator" and v.op == "%":
        return v.children[0], v.children[1]
    return None


def check_C14(ctx, unit):
    ctx.rule("K.stale-index", "a bucket index computed modulo the capacity is not used to subscript the table after a call "
             "that may change the capacity", 8)
    ctx.rule("K.index-pairing", "an index reduced modulo capacity variable c subscripts only the table that has c buckets "
             "(_table with _capacity, new_table with new_capacity); whole-table loops are bounded by the matching capacity", 8)
    ctx.rule("E.bucket-of-key", "every bucket index is hasher(key of the entry concerned) reduced modulo a capacity", 8)
    ctx.rule("E.size-accounting", "on every path the number of chain nodes constructed equals the number of _size "
             "increments and the number destroyed equals the number of decrements; rehash() creates, destroys and counts nothing", 5)
    ctx.rule("E.grow-before-link", "insert() tests _size >= _capacity and rehashes before it computes the bucket it links into", 2)
    for rec in recs_of(unit, MAP):
        fns = cls_fns(unit, rec["qn"])
        # functions that may write _capacity (transitively)
        writes_cap = set()
        for f in fns:
            for n in f.events():
                w = write_of(n)
                if w and w[0] == ("this", "_capacity") and f.kind != "ctor":
                    writes_cap.add(f.did)
        changed = True
        while changed:
            changed = False
            for f in fns:
                if f.did in writes_cap:
                    continue
                for n in f.events():
                    if n.is_call() and n.callee and n.callee["did"] in writes_cap:
                        writes_cap.add(f.did)
                        changed = True
                        break
        if not writes_cap:
            raise AnalysisBroken("anchor vanished: no member of %s writes _capacity" % rec["qn"])
        for f in fns:
            if f.kind == "ctor" and not any(n.kind == "ArraySubscriptExpr" for n in f.events()):
                continue
            inits = RA.local_inits(f)
            idx = {}   # did -> (hash node, cap node)
            for did, init in inits.items():
                m = _modulus(init)
                if m:
                    idx[did] = m
            # pairing of local tables with local capacities via the allocation size
            pair = {"this._table": "this._capacity"}
            for did, init in inits.items():
                v = init.strip()
                if v.kind == "CXXMemberCallExpr" and v.callee and v.callee["n"] == "allocate" and v.args:
                    sz = v.args[0].strip()
                    if sz.kind == "BinaryOperator" and sz.op == "*":
                        for side in sz.children:
                            s2 = side.strip()
                            if s2.kind == "DeclRefExpr" and s2.get("local"):
                                nm = [x for x in f.all_nodes() if x.kind == "DeclStmt" for d in x.get("decls", []) if d["d"] == did]
                                pair[canon(_declref(f, did))] = canon(s2)
            subs = sorted([n for n in f.events() if n.kind == "ArraySubscriptExpr"], key=lambda n: n.loc)
            # --- stale index (dataflow)
            stale_hits = {}

            def transfer(n, s, f=f):
                if n.kind == "DeclStmt":
                    for d in n.get("decls", []):
                        if d["d"] in idx:
                            s = s | {d["d"]}
                if n.is_call() and n.callee and n.callee["did"] in writes_cap:
                    s = frozenset()
                if n.kind == "BinaryOperator" and n.op == "=":
                    l = n.children[0].strip()
                    if l.kind == "DeclRefExpr" and l.d["d"] in idx:
                        m = _modulus(n.children[1])
                        if m and canon(m[1]) == canon(idx[l.d["d"]][1]):
                            s = s | {l.d["d"]}      # recomputed for the current capacity
                        else:
                            s = s - {l.d["d"]}
                if n.kind == "ArraySubscriptExpr":
                    i = n.children[1].strip()
                    if i.kind == "DeclRefExpr" and i.d["d"] in idx and i.d["d"] not in s:
                        stale_hits[n.id] = i.n
                return [s]
            flow.run(f, [frozenset()], transfer, None)
            k = 0
            for n in subs:
                i = n.children[1].strip()
                if not (i.kind == "DeclRefExpr" and i.d["d"] in idx):
                    continue
                k += 1
                bad = n.id in stale_hits
                ctx.inst("K.stale-index", "%s: use #%d of index %s" % (f.sig, k, i.n), not bad, n.loc,
                         ("index %s was computed before a call that may change _capacity (rehash) and is used afterwards: "
                          "the entry lands in / is looked up in the wrong chain" % i.n) if bad else
                         "index still valid for the current capacity", f)
            # --- pairing
            k = 0
            for n in subs:
                base = canon(n.children[0])
                if base not in pair:
                    continue
                i = n.children[1].strip()
                capc = None
                if i.kind == "DeclRefExpr" and i.d["d"] in idx:
                    capc = canon(idx[i.d["d"]][1])
                elif i.kind == "DeclRefExpr":
                    # loop variable: bound of the enclosing for loop
                    for blk in f.blocks.values():
                        if blk.termkind == "ForStmt" and blk.cond is not None:
                            c = f.node(blk.cond).strip()
                            if c.kind == "BinaryOperator" and c.op in ("<", "!=", "=="):
                                l = c.children[0].strip()
                                if l.kind == "DeclRefExpr" and l.d["d"] == i.d["d"]:
                                    capc = canon(c.children[1])
                    if capc is None:
                        p = path(i)
                        capc = None
                if capc is None:
                    pi = path(i)
                    if pi and pi[-1] == "bucket":
                        # iterator: its bucket is asserted/compared against map->_capacity
                        continue
                    continue
                k += 1
                want = pair[base]
                ok = capc == want or (capc.endswith("._capacity") and want == "this._capacity" and base == "this._table")
                ctx.inst("K.index-pairing", "%s: subscript #%d of %s" % (f.sig, k, base.split("#")[0]), ok, n.loc,
                         "index ranges over %s, table has %s buckets" % (capc.split("#")[0], want.split("#")[0]), f)
            # --- bucket of key
            kparams = {f.params()[0]["d"]} if f.params() else set()
            k = 0
            for did, (h, cap) in sorted(idx.items()):
                k += 1
                hs = h.strip()
                call = None
                for x in hs.walk():
                    if x.is_call() and x.callee and x.callee.get("op") == "()":
                        call = x
                        break
                ok, why = False, "hash expression %s is not a call of the map's hasher" % canon(hs)
                if call is not None:
                    a = call.args
                    obj = path(a[0]) if a else None
                    karg = std_unwrap(a[1]) if len(a) > 1 else None
                    if obj == ("this", "_hasher") and karg is not None:
                        if karg.kind == "DeclRefExpr" and karg.d["d"] in kparams:
                            ok, why = True, "hasher(key parameter)"
                        elif "entry" in canon(karg) and "get" in canon(karg):
                            ok, why = True, "hasher(key of the entry being relinked)"
                        else:
                            why = "hashes %s, not the key concerned" % canon(karg)
                    else:
                        why = "hash functor is %s" % (obj,)
                ctx.inst("E.bucket-of-key", "%s: index #%d" % (f.sig, k), ok, inits[did].loc, why, f)
            # --- size accounting
            def transfer2(n, s):
                c, inc, d, dec = s
                if n.kind == "CallExpr" and n.callee and n.callee["uq"] == "frg::construct":
                    c = min(c + 1, 3)
                if n.kind == "CallExpr" and n.callee and n.callee["uq"] == "frg::destruct":
                    d = min(d + 1, 3)
                if n.kind == "UnaryOperator" and n.op in ("++", "--") and path(n.children[0]) == ("this", "_size"):
                    if n.op == "++":
                        inc = min(inc + 1, 3)
                    else:
                        dec = min(dec + 1, 3)
                w = write_of(n)
                if w and w[0] == ("this", "_size") and n.kind in ("BinaryOperator", "CompoundAssignOperator"):
                    inc, dec = 3, 3
                return [(c, inc, d, dec)]
            if f.name in ("insert", "operator[]", "remove", "rehash", "get", "find"):
                _, ex = flow.run(f, [(0, 0, 0, 0)], transfer2, None)
                bad = [s for s in ex if s[0] != s[1] or (s[2] != s[3] and f.kind != "dtor")]
                if f.name == "rehash":
                    bad = [s for s in ex if s != (0, 0, 0, 0)]
                ctx.inst("E.size-accounting", f.sig, not bad and bool(ex), f.loc,
                         ("paths with (constructed, ++_size, destroyed, --_size) = %s" % sorted(bad)) if bad else
                         "all %d path summaries balanced" % len(ex), f)
            # --- grow before link
            if f.name == "insert":
                rh = [n for n in f.events() if n.is_call() and n.callee and n.callee["did"] in writes_cap]
                ok = False
                for n in rh:
                    grow = False
                    for cond, truth in flow.facts_at(f, n.id):
                        c = cond.strip()
                        if c.kind == "BinaryOperator" and c.op in (">=", ">") and truth and \
                                path(c.children[0]) == ("this", "_size") and path(c.children[1]) == ("this", "_capacity"):
                            grow = True
                    decl = [x for x in f.all_nodes() if x.kind == "DeclStmt" and any(d["d"] in idx for d in x.get("decls", []))]
                    before = all(not f.reaches(x.id, n.id) for x in decl)
                    ok = ok or (grow and before and bool(decl))
                ctx.inst("E.grow-before-link", f.sig, ok, f.loc, "rehash under _size >= _capacity precedes the bucket computation: %s" % ok, f)


def _declref(fn, did):
    for x in fn.all_nodes():
        if x.kind == "DeclRefExpr" and x.d["d"] == did:
            return x
    raise AnalysisBroken("local %d never referenced" % did)


def check_trailing_pointer(ctx, unit, rule="H.chain-unlink"):
    """remove(): the node is unlinked from the head slot when it is the first of its chain and from its
    predecessor's next link otherwise; the predecessor variable must follow the walk (be set to the current
    node on every path that continues the loop), otherwise unlinking a later node cuts off the nodes before it."""
    ctx.rule(rule, "hash_map::remove unlinks through the table slot or the predecessor's next link, and the predecessor "
             "variable is advanced to the current node on every path around the chain walk", 1)
    for rec in recs_of(unit, MAP):
        for f in cls_fns(unit, rec["qn"]):
            if f.name != "remove":
                continue
            inits = RA.local_inits(f)
            # predecessor variable: local initialised to null that is compared with null in the match arm
            cands = [d for d, i in inits.items() if i.strip().get("nullc") or i.strip().kind == "CXXNullPtrLiteralExpr"
                     or any(x.kind == "CXXNullPtrLiteralExpr" for x in i.walk())]
            prev = None
            for blk in f.blocks.values():
                if blk.cond is not None:
                    c = f.node(blk.cond).strip()
                    while c.kind == "UnaryOperator" and c.op == "!":
                        c = c.children[0].strip()
                    if c.kind == "BinaryOperator" and c.op in ("==", "!="):
                        for side in c.children:
                            l = side.strip()
                            if l.kind == "DeclRefExpr" and l.d["d"] in cands:
                                prev = l.d["d"]
                    elif c.kind == "DeclRefExpr" and c.d["d"] in cands:
                        prev = c.d["d"]
            problems = []
            if prev is None:
                problems.append("no predecessor variable that selects between head-unlink and mid-chain unlink")
            else:
                # loop variable of the chain walk
                loopvar = None
                hdr = None
                for blk in f.blocks.values():
                    if blk.termkind in ("ForStmt", "WhileStmt") and blk.cond is not None:
                        c = f.node(blk.cond).strip()
                        l = None
                        if c.kind == "BinaryOperator" and c.op == "!=":
                            l = c.children[0].strip()
                        elif c.kind == "DeclRefExpr":
                            l = c
                        if l is not None and l.kind == "DeclRefExpr" and l.d["d"] != prev and (l.get("t") or "").endswith("*"):
                            loopvar, hdr = l.d["d"], blk.id
                if loopvar is None:
                    problems.append("chain walk loop not found")
                else:
                    from .rules_parse import check_loop_progress

                    class _C:
                        def __init__(self): self.ok = True; self.rules_text = {}; self.minima = {}
                        def inst(self, rule, inst, ok, *a, **k):
                            self.ok = self.ok and ok
                    cc = _C()
                    check_loop_progress(cc, "x", f, lambda n: n.kind == "BinaryOperator" and n.op == "=" and
                                        n.children[0].strip().kind == "DeclRefExpr" and n.children[0].strip().d["d"] == prev and
                                        n.children[1].strip().kind == "DeclRefExpr" and n.children[1].strip().d["d"] == loopvar)
                    if not cc.ok:
                        problems.append("a path around the chain walk does not advance the predecessor variable to the current node")
                # both unlink forms exist
                ws = [n for n in f.events() if n.kind == "BinaryOperator" and n.op == "=" and "next" in canon(n.children[1])]
                heads = [n for n in ws if n.children[0].strip().kind == "ArraySubscriptExpr"]
                mids = [n for n in ws if path(n.children[0]) and path(n.children[0])[-1] == "next" and path(n.children[0])[0].endswith("#%d" % prev)]
                if not heads or not mids:
                    problems.append("unlink forms found: table slot %d, predecessor link %d" % (len(heads), len(mids)))
            ctx.inst(rule, f.sig, not problems, f.loc, "; ".join(problems) if problems else
                     "predecessor follows the walk; both unlink forms present", f)
