"""B — bounds: interval evaluation of index / shift expressions with branch refinement."""
from .ir import path, canon, std_unwrap, AnalysisBroken
from . import flow

INF = float("inf")


class Iv:
    __slots__ = ("lo", "hi")

    def __init__(self, lo, hi):
        self.lo, self.hi = lo, hi

    def __repr__(self):
        return "[%s, %s]" % (self.lo, self.hi)


def type_range(n):
    bits = n.get("bits")
    if not bits:
        return Iv(-INF, INF)
    if n.get("sgn"):
        return Iv(-(1 << (bits - 1)), (1 << (bits - 1)) - 1)
    return Iv(0, (1 << bits) - 1)


def _clamp(iv, n):
    """Result conversion to n's type: unsigned wraps (give up to full range if it may wrap);
    signed overflow is reported by the caller where relevant."""
    tr = type_range(n)
    if iv.lo >= tr.lo and iv.hi <= tr.hi:
        return iv
    return tr


def ieval(n, env, fn=None, depth=0):
    return _ieval(n, env, fn, depth)


def _ieval(n, env, fn=None, depth=0):
    """Interval of integer expression n. env: decl id -> Iv (parameters / locals with known range),
    or ('path', tuple) -> Iv for fields."""
    n0 = n
    n = n.strip(casts=False)
    k = n.kind
    if depth > 40:
        return type_range(n)
    c = n.cv() if k != "DeclRefExpr" else n.cv()
    if c is not None:
        return Iv(c, c)
    if n.d.get("inlined") and n.d.get("rets"):
        # the value of a folded helper: the hull of what it can return
        ivs = [ieval(n.fn.node(r_), env, fn, depth + 1) for r_ in n.d["rets"]]
        return _clamp(Iv(min(i.lo for i in ivs), max(i.hi for i in ivs)), n)
    if k in ("ImplicitCastExpr", "CStyleCastExpr", "CXXStaticCastExpr", "CXXFunctionalCastExpr"):
        ch = n.children
        if not ch:
            return type_range(n)
        inner = ieval(ch[0], env, fn, depth + 1)
        if n.get("ck") in ("LValueToRValue", "NoOp"):
            return inner
        return _clamp(inner, n)
    if k == "DeclRefExpr":
        if n.d["d"] in env:
            return env[n.d["d"]]
        lz0 = env.get("__inits__")
        if lz0 and n.d["d"] in lz0:
            return _clamp(ieval(lz0[n.d["d"]], env, fn, depth + 1), n)
        bm = n.fn.bind_map() if hasattr(n, "fn") and n.fn is not None else {}
        if n.d["d"] in bm:
            # a parameter of a folded helper: the range of its argument
            return _clamp(ieval(n.fn.node(bm[n.d["d"]]), env, fn, depth + 1), n)
        lz = env.get("__inits__")
        if lz and n.d["d"] in lz:
            return _clamp(ieval(lz[n.d["d"]], env, fn, depth + 1), n)
        return type_range(n)
    if k == "MemberExpr":
        p = path(n)
        if p is not None and ("path", p) in env:
            return env[("path", p)]
        return type_range(n)
    if k == "UnaryOperator":
        a = ieval(n.children[0], env, fn, depth + 1)
        if n.op == "-":
            return _clamp(Iv(-a.hi, -a.lo), n)
        if n.op == "+":
            return a
        if n.op == "~":
            return type_range(n)
        return type_range(n)
    if k == "BinaryOperator":
        op = n.op
        if op == ",":
            return ieval(n.children[1], env, fn, depth + 1)
        a = ieval(n.children[0], env, fn, depth + 1)
        b = ieval(n.children[1], env, fn, depth + 1)
        r = None
        if op == "+":
            r = Iv(a.lo + b.lo, a.hi + b.hi)
        elif op == "-":
            r = Iv(a.lo - b.hi, a.hi - b.lo)
        elif op == "*":
            c4 = [x * y for x in (a.lo, a.hi) for y in (b.lo, b.hi) if abs(x) != INF and abs(y) != INF]
            r = Iv(min(c4), max(c4)) if len(c4) == 4 else None
        elif op == "/":
            if b.lo > 0 and a.lo >= 0:
                r = Iv(a.lo // b.hi if b.hi != INF else 0, a.hi // b.lo if a.hi != INF else INF)
        elif op == "%":
            if b.lo > 0 and a.lo >= 0:
                r = Iv(0, min(a.hi, b.hi - 1))
        elif op == "&":
            if a.lo >= 0 and b.lo >= 0:
                r = Iv(0, min(a.hi, b.hi))
            elif b.lo >= 0:
                r = Iv(0, b.hi)
            elif a.lo >= 0:
                r = Iv(0, a.hi)
        elif op == ">>":
            if a.lo >= 0 and b.lo >= 0:
                r = Iv(0 if b.hi == INF else int(a.lo) >> int(min(b.hi, 4096)), a.hi if a.hi == INF else int(a.hi) >> int(b.lo))
        elif op == "<<":
            if a.lo >= 0 and b.lo >= 0 and b.hi < 128 and a.hi != INF:
                r = Iv(int(a.lo) << int(b.lo), int(a.hi) << int(b.hi))
        if r is None:
            return type_range(n)
        return _clamp(r, n)
    if k == "InitListExpr" and len(n.children) == 1:
        return _clamp(ieval(n.children[0], env, fn, depth + 1), n)
    if k == "ConditionalOperator":
        a = ieval(n.children[1], env, fn, depth + 1)
        b = ieval(n.children[2], env, fn, depth + 1)
        return Iv(min(a.lo, b.lo), max(a.hi, b.hi))
    return type_range(n)


def refine_env(env, cond, truth, keyof):
    """Narrow env by `cond == truth`. keyof(node) -> env key or None. Handles x, !x, x OP const,
    const OP x, x OP y (y's interval known), &&/|| via flow.refine_bool decomposition."""
    env = dict(env)

    def lookup(a):
        return None

    def assume(a, v):
        a = a.strip()
        if a.kind == "BinaryOperator" and a.op in ("<", "<=", ">", ">=", "==", "!="):
            l, r = a.children
            op = a.op
            if not v:
                op = {"<": ">=", "<=": ">", ">": "<=", ">=": "<", "==": "!=", "!=": "=="}[op]
            for x, y, o in ((l, r, op), (r, l, {"<": ">", "<=": ">=", ">": "<", ">=": "<=", "==": "==", "!=": "!="}[op])):
                kx = keyof(x)
                if kx is None:
                    continue
                cur = env.get(kx) or ieval(x, env)
                yi = ieval(y, env)
                lo, hi = cur.lo, cur.hi
                if o == "<":
                    hi = min(hi, yi.hi - 1)
                elif o == "<=":
                    hi = min(hi, yi.hi)
                elif o == ">":
                    lo = max(lo, yi.lo + 1)
                elif o == ">=":
                    lo = max(lo, yi.lo)
                elif o == "==":
                    lo, hi = max(lo, yi.lo), min(hi, yi.hi)
                elif o == "!=":
                    if yi.lo == yi.hi:
                        if lo == yi.lo:
                            lo += 1
                        if hi == yi.lo:
                            hi -= 1
                env[kx] = Iv(lo, hi)
            return
        kx = keyof(a)
        if kx is not None:
            cur = env.get(kx) or ieval(a, env)
            if v:   # x != 0
                if cur.lo == 0:
                    env[kx] = Iv(1, cur.hi)
            else:
                env[kx] = Iv(0, 0)

    flow.refine_bool(cond, truth, lookup, assume)
    return env


def param_keyof(fn):
    pids = {p["d"] for p in fn.params()}
    bm = fn.bind_map()

    def keyof(n):
        n = n.strip()
        hops = 0
        # a parameter of a folded helper that was handed one of fn's own parameters stands for it
        while n.kind == "DeclRefExpr" and n.d["d"] in bm and hops < 8:
            m = fn.node(bm[n.d["d"]]).strip()
            if m.kind != "DeclRefExpr":
                break
            n, hops = m, hops + 1
        if n.kind == "DeclRefExpr" and n.d["d"] in pids:
            return n.d["d"]
        return None
    return keyof


def check_shifts(ctx, rule, fn, domains, instance_prefix=None, only=None):
    """Every shift in fn: count in [0, width(promoted left operand)) for the given parameter domains
    (decl name -> Iv), refined by the branch facts that dominate the shift."""
    pmap = {p["n"]: p["d"] for p in fn.params()}
    env0 = {}
    for name, iv in domains.items():
        if name not in pmap:
            raise AnalysisBroken("anchor vanished: parameter %s of %s" % (name, fn.qn))
        env0[pmap[name]] = iv
    # once-initialised, never reassigned integer locals are evaluated lazily from their initialiser,
    # so that a branch fact on one local (offset != 0) also narrows locals derived from it (64 - offset)
    from . import rules_atomic as RA
    inits = RA.local_inits(fn)
    lz = {}
    for did, init in list(inits.items()) + list(RA.bound_value_params(fn).items()):
        if did in env0 or RA._reassigned(fn, did):
            continue
        if init.get("bits") or init.strip().get("bits"):
            lz[did] = init
    env0["__inits__"] = lz
    lids = set(lz)
    pk = param_keyof(fn)

    def keyof(n):
        k = pk(n)
        if k is not None:
            return k
        n = n.strip()
        if n.kind == "DeclRefExpr" and n.d["d"] in lids:
            return n.d["d"]
        return None
    shifts = [n for n in fn.events() if n.kind in ("BinaryOperator", "CompoundAssignOperator")
              and n.op in ("<<", ">>", "<<=", ">>=")]
    shifts.sort(key=lambda n: n.loc)
    out = []
    for i, s in enumerate(shifts):
        env = dict(env0)
        for cond, truth in flow.facts_at(fn, s.id):
            env = refine_env(env, cond, truth, keyof)
        if only is not None and not only(s):
            continue
        cnt = ieval(s.children[1], env, fn)
        width = s.children[0].get("bits") if s.op in ("<<=", ">>=") else s.get("bits")
        width = width or 64
        ok = cnt.lo >= 0 and cnt.hi < width
        name = "%s: shift #%d" % (instance_prefix or fn.uq, i + 1)
        ctx.inst(rule, name, ok, s.loc,
                 "shift count %s ranges over %s for %s; operand width %d" % (
                     canon(s.children[1]), cnt, {k: str(v) for k, v in domains.items()}, width), fn)
        out.append((s, cnt, ok))
    return out


def raw_sum(n, env, fn=None):
    """Interval of an unsigned `a + b` BEFORE it is reduced modulo 2^width."""
    a = ieval(n.children[0], env, fn)
    b = ieval(n.children[1], env, fn)
    return Iv(a.lo + b.lo, a.hi + b.hi)


def check_no_wrap_adds(ctx, rule, fn, domains, label=None, touching=None, signed=False):
    """Every unsigned addition in fn whose value depends on the given parameters stays below 2^width for all parameter
    values in `domains` (decl id -> Iv) that pass the branch facts dominating the addition."""
    from . import rules_atomic as RA
    env0 = dict(domains)
    inits = RA.local_inits(fn)
    lz = {}
    for did, init in list(inits.items()) + list(RA.bound_value_params(fn).items()):
        if did in env0 or RA._reassigned(fn, did):
            continue
        if init.get("bits") or init.strip().get("bits"):
            lz[did] = init
    env0["__inits__"] = lz
    pk = param_keyof(fn)

    bm = fn.bind_map()

    def through_binds(n):
        n = n.strip()
        hops = 0
        while n.kind == "DeclRefExpr" and n.d["d"] in bm and hops < 8:
            m = fn.node(bm[n.d["d"]]).strip()
            if m.kind != "DeclRefExpr":
                break
            n, hops = m, hops + 1
        return n

    def keyof(n):
        n = through_binds(n)
        k = pk(n)
        if k is not None:
            return k
        n = n.strip()
        if n.kind == "DeclRefExpr" and n.d["d"] in lz:
            return n.d["d"]
        return None
    def arith_refs(e):
        """declarations an expression is computed from by arithmetic: what a call of a function that is not folded in (the
        policy's map) returns is a value of its own, not arithmetic on its arguments"""
        out, work = [], [e]
        while work:
            x = work.pop()
            if x.is_call() and not x.d.get("inlined"):
                continue
            if x.kind == "DeclRefExpr":
                out.append(x.d.get("d"))
            work.extend(x.children)
            if x.d.get("inlined") and isinstance(x.d.get("rets"), list):
                work.extend(fn.node(r_) for r_ in x.d["rets"])
        return out
    dep = set(domains)
    grew = True
    while grew:
        grew = False
        for did, init in lz.items():
            if did not in dep and any(d_ in dep for d_ in arith_refs(init)):
                dep.add(did)
                grew = True
        for did, init_id in bm.items():
            if did not in dep and any(d_ in dep for d_ in arith_refs(fn.node(init_id))):
                dep.add(did)
                grew = True
    adds = [n for n in fn.events() if n.kind == "BinaryOperator" and n.op == "+" and (n.get("sgn") is False or signed) and n.get("bits")
            and any(d_ in dep for d_ in arith_refs(n))]
    adds.sort(key=lambda n: n.loc)
    res = []
    for i, a in enumerate(adds):
        env = dict(env0)
        for cond, truth in flow.facts_at(fn, a.id):
            env = refine_env(env, cond, truth, keyof)
        r = raw_sum(a, env, fn)
        top = (1 << a.get("bits")) - 1
        if a.get("sgn"):
            top = (1 << (a.get("bits") - 1)) - 1
        ok = r.hi <= top
        ctx.inst(rule, "%s: sum #%d" % (label or fn.uq, i + 1), ok, a.loc,
                 "%s ranges up to %s; %s" % (canon(a)[:70], ("2^%d%+d" % (a.get("bits") - (1 if a.get("sgn") else 0), r.hi - (top + 1))) if r.hi > top - 10 ** 6 else r.hi,
                                              ("overflows the signed type (undefined behaviour)" if a.get("sgn") else
                                               "wraps around for large arguments (the result is a small size the policy never sees the real request for)")
                                              if not ok else "cannot wrap"), fn)
        res.append((a, ok, ieval(a, env, fn)))
    return res
