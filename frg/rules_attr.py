"""Y: contracts stated to the optimiser in a declaration.  An attribute such as gnu::returns_nonnull changes no statement of
the library, yet it licenses the compiler to delete the caller's null test: the declaration has to be held against the body.

  Y.nonnull-contract   no function that may return null -- a `return nullptr`, or the result of a function that may -- is
                       declared returns_nonnull (directly or through a wrapper that forwards the result).

Counts zero on the unchanged tree; the positive example wit::probe_attr_nonnull must be recognised on every run."""
from .ir import AnalysisBroken, value_leaves, std_unwrap


def _is_null(x):
    hops = 0
    while x is not None and x.kind in ("ImplicitCastExpr", "ParenExpr", "CStyleCastExpr", "CXXStaticCastExpr", "CXXReinterpretCastExpr",
                                       "CXXFunctionalCastExpr") and x.children and hops < 8:
        x, hops = x.children[0], hops + 1
    if x is None:
        return False
    return x.kind in ("CXXNullPtrLiteralExpr", "GNUNullExpr") or (x.kind == "IntegerLiteral" and x.cv() == 0)


def may_return_null(unit):
    """dids of functions with a pointer result one of whose return values is a null literal or the result of such a function"""
    fns = [f for f in unit.functions if "*" in (f.d.get("ret") or "")]
    rets = {}
    for f in fns:
        leaves = []
        for r in f.return_nodes():
            leaves += value_leaves(f, r.child("val"))
        rets[f.d["did"]] = (f, leaves)
    null = {}
    for did, (f, leaves) in rets.items():
        for x in leaves:
            if _is_null(x):
                null[did] = "returns a null literal at %s" % x.loc
                break
    by_uq = {}
    for f in fns:
        by_uq.setdefault(f.uq, []).append(f.d["did"])
    changed = True
    while changed:
        changed = False
        for did, (f, leaves) in rets.items():
            if did in null:
                continue
            for x in leaves:
                c = std_unwrap(x)
                hops = 0
                while c.kind in ("ImplicitCastExpr", "ParenExpr", "CStyleCastExpr", "CXXStaticCastExpr", "CXXReinterpretCastExpr") and c.children and hops < 8:
                    c, hops = c.children[0], hops + 1
                if c.is_call() and c.callee:
                    tg = [c.callee.get("did")] if c.callee.get("did") in rets else by_uq.get(c.callee.get("uq"), [])
                    hit = [t for t in tg if t in null]
                    if hit:
                        null[did] = "returns the result of %s, which %s" % (c.callee["n"], null[hit[0]].split(" at ")[0] if "literal" in null[hit[0]] else "may be null")
                        changed = True
                        break
    return null


def check_attr_contracts(ctx, unit, classes, rule="Y.nonnull-contract"):
    ctx.rule(rule, "no function that may return null (a `return nullptr` or the forwarded result of such a function) is declared "
             "returns_nonnull: the attribute lets the compiler delete the caller's out-of-memory test", len(classes))
    null = may_return_null(unit)
    probe = [f for f in unit.functions if f.uq == "wit::probe_attr_nonnull"]
    if not probe or "returns_nonnull" not in (probe[0].d.get("attrs") or []) or probe[0].d["did"] not in null:
        raise AnalysisBroken("positive example wit::probe_attr_nonnull is not recognised (attribute or null return not seen)")
    for cls in classes:
        fns = [f for f in unit.functions if (f.owner_cls or "") == cls or (f.owner_cls or "").startswith(cls + "::")]
        if not fns:
            raise AnalysisBroken("anchor vanished: no function of %s in unit" % cls)
        nullable = [f for f in fns if f.d["did"] in null]
        bad = [(f.loc, "%s is declared returns_nonnull but %s" % (f.name, null[f.d["did"]])) for f in nullable
               if "returns_nonnull" in (f.d.get("attrs") or [])]
        ctx.inst(rule, cls, not bad, bad[0][0] if bad else fns[0].loc,
                 "; ".join(sorted(set(b[1] for b in bad))[:3]) if bad else
                 "%d functions, %d of them may return null, none of those declared returns_nonnull" % (len(fns), len({f.uq for f in nullable})), None)
