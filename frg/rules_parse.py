"""Parser rules (C20, C19): NUL-terminated cursor typestate, bounded view subscripts, API-only tokenizer,
argument consumption, length-modifier table, agent error discipline, logger chunking."""
from .ir import path, canon, std_unwrap, AnalysisBroken
from . import flow
from . import rules_atomic as RA
from .rules_guard import write_of


def _is_var(n, did):
    n = n.strip()
    if n.kind == "DeclRefExpr" and n.d["d"] == did:
        return True
    # a reference parameter of a virtually inlined helper (`const char *&s`) *is* the variable it is bound to
    if n.kind == "DeclRefExpr" and n.get("local") and n.d["d"] in n.fn.bind_map():
        t = str((n.get("t") or ""))
        m = std_unwrap(n)
        return m.id != n.id and m.kind == "DeclRefExpr" and m.d["d"] == did and _is_ref_param(n)
    return False


def _is_ref_param(n):
    for x in n.fn.all_nodes():
        if x.kind == "ParamBind" and x.d.get("d") == n.d["d"]:
            return str(x.d.get("t", "")).rstrip().endswith("&")
    return False


def _char_at(n, did):
    """n reads the character at cursor offset k: returns k (0 for *s, c for s[c]) or None; 'var' for s[n]."""
    n = n.strip()
    if n.kind == "UnaryOperator" and n.op == "*" and _is_var(n.children[0], did):
        return 0
    if n.kind == "ArraySubscriptExpr" and _is_var(n.children[0], did):
        c = n.children[1].strip().cv()
        return c if c is not None else "var"
    return None


def check_cursor(ctx, rule, fn, param="s"):
    """B7: every advance of the NUL-terminated cursor skips only characters known to be non-NUL, and
    every look-ahead s[k] is preceded by knowledge that s[0..k) are non-NUL."""
    ps = [p for p in fn.params() if p["t"].replace(" ", "") == "constchar*"]
    if not ps:
        raise AnalysisBroken("anchor vanished: cursor parameter %s of %s" % (param, fn.qn))
    did = ps[0]["d"]
    inits = RA.local_inits(fn)
    problems = {}
    sites = {}

    def guarded_counter(v):
        """local n: initialised to a constant and only incremented under the fact s[n] != 0."""
        v = v.strip()
        if v.kind != "DeclRefExpr" or not v.get("local"):
            return None
        c0 = inits[v.d["d"]].strip().cv() if v.d["d"] in inits else None
        for x in fn.all_nodes():
            if x.kind in ("UnaryOperator", "CompoundAssignOperator", "BinaryOperator") and x.get("op") in ("++", "--", "+=", "-=", "=", "*="):
                if x.kind == "BinaryOperator" and x.op != "=":
                    continue
                l = x.children[0].strip()
                if l.kind == "DeclRefExpr" and l.d["d"] == v.d["d"]:
                    if x.kind == "BinaryOperator" and x.op == "=" and x.children[1].strip().cv() is not None:
                        k0 = x.children[1].strip().cv()
                        c0 = k0 if c0 is None else max(c0, k0)      # constant (re)initialisation
                        continue
                    if not (x.kind == "UnaryOperator" and x.op == "++"):
                        return None
                    ok = False
                    for cond, truth in flow.facts_at(fn, x.id):
                        box = {}

                        def assume(a, val, box=box):
                            a = a.strip()
                            if val and a.kind == "ArraySubscriptExpr" and _is_var(a.children[0], did) and \
                                    _is_var(a.children[1], v.d["d"]):
                                box["ok"] = True
                        flow.refine_bool(cond, truth, lambda a: None, assume)
                        if box.get("ok"):
                            ok = True
                    if not ok:
                        return None
        return c0

    _gc = guarded_counter

    def transfer(n, K):
        k = n.kind
        if k == "BinaryOperator" and n.op == "=" and _is_var(n.children[0], did):
            return [0]
        if k == "UnaryOperator" and n.op in ("++", "--") and _is_var(n.children[0], did):
            sites[n.id] = n
            if n.op == "--":
                return [0]
            if K < 1:
                problems.setdefault(n.id, "cursor advanced past a character not known to be non-NUL")
            return [max(K - 1, 0)]
        if k == "CompoundAssignOperator" and n.op == "+=" and _is_var(n.children[0], did):
            sites[n.id] = n
            c = n.children[1].strip().cv()
            if c is None:
                c = flow.const_fold(fn, n.children[1])       # `advance(n = 1)`: the step is the parameter of a folded helper
            if c is not None:
                if K < c:
                    problems.setdefault(n.id, "cursor advanced by %d with only %d character(s) known non-NUL" % (c, K))
                return [max(K - c, 0)]
            c0 = guarded_counter(n.children[1])
            if c0 is None or K < c0:
                problems.setdefault(n.id, "cursor advanced by %s, which is not a count of characters verified non-NUL" % canon(n.children[1]))
            return [0]
        if k == "ArraySubscriptExpr" and _is_var(n.children[0], did):
            sites[n.id] = n
            c = n.children[1].strip().cv()
            if c is not None:
                if c > K:
                    problems.setdefault(n.id, "look-ahead s[%d] with only %d preceding character(s) known non-NUL" % (c, K))
            else:
                c0 = guarded_counter(n.children[1])
                if c0 is None or K < c0:
                    problems.setdefault(n.id, "look-ahead s[%s] is not covered by verified characters" % canon(n.children[1]))
        return [K]

    def refine(cond, truth, K):
        box = [K]

        def lookup(a):
            return None

        def nonnul(off):
            if off == 0:
                box[0] = max(box[0], 1)
            elif isinstance(off, int) and box[0] >= off:
                box[0] = max(box[0], off + 1)

        def assume(a, v):
            a = a.strip()
            off = _char_at(a, did)
            if off is not None and off != "var":
                if v:
                    nonnul(off)
                return
            if a.kind == "BinaryOperator" and a.op in ("==", "!=", ">=", ">", "<", "<="):
                l, r = a.children
                for x, y, op in ((l, r, a.op), (r, l, {"<": ">", "<=": ">=", ">": "<", ">=": "<=", "==": "==", "!=": "!="}[a.op])):
                    off = _char_at(x, did)
                    c = y.strip().cv()
                    if off is None or off == "var" or c is None:
                        continue
                    if not v:
                        op = {"==": "!=", "!=": "==", ">=": "<", ">": "<=", "<": ">=", "<=": ">"}[op]
                    if (op == "==" and c != 0) or (op == ">=" and c > 0) or (op == ">" and c >= 0) or (op == "!=" and c == 0):
                        nonnul(off)
        flow.refine_bool(cond, truth, lookup, assume)
        return [box[0]]

    flow.run(fn, [0], transfer, refine)
    if len(sites) < 10:
        raise AnalysisBroken("anchor vanished: cursor advances in %s (found %d)" % (fn.qn, len(sites)))
    order = sorted(sites.values(), key=lambda n: _lk(n.loc))
    for i, n in enumerate(order):
        what = "advance" if n.kind != "ArraySubscriptExpr" else "look-ahead"
        ctx.inst(rule, "%s: cursor %s #%d" % (fn.uq, what, i + 1), n.id not in problems, n.loc,
                 problems.get(n.id, "justified by the characters verified on every path"), fn)


def _lk(loc):
    p = loc.rsplit(":", 2)
    try:
        return (p[0], int(p[1]), int(p[2]))
    except Exception:
        return (loc, 0, 0)


def check_view_index_bounded(ctx, rule, fns):
    """Every basic_string_view::operator[] call in the given parser functions is dominated by
    index < view.size() for the same view and index expressions."""
    for f in fns:
        calls = sorted([n for n in f.events() if n.kind == "CXXOperatorCallExpr" and n.callee and n.callee.get("op") == "[]"
                        and n.callee.get("cls") == "frg::basic_string_view"], key=lambda n: _lk(n.loc))
        for i, n in enumerate(calls):
            view, idx = canon(n.args[0]), canon(n.args[1])
            ok = False
            for cond, truth in flow.facts_at(f, n.id):
                for x in cond.walk():
                    if x.kind == "BinaryOperator" and x.op == "<" and truth:
                        if canon(x.children[0]) == idx:
                            r = x.children[1].strip()
                            if r.kind == "CXXMemberCallExpr" and r.callee and r.callee["n"] == "size" and canon(r.child("obj")) == view:
                                ok = True
            why = "dominated by index < size()"
            if not ok:
                # any other way of writing it (the size in a local, `i != size` for a counter that starts below it,
                # an index copied around): relational bounds with L = size() of that view
                from .relbounds import RelBounds
                from . import rules_atomic as RA

                def is_len(x, view=view, f=f):
                    x = std_unwrap(RA.resolve_local(f, std_unwrap(x)))
                    return x.kind == "CXXMemberCallExpr" and x.callee is not None and x.callee["n"] == "size" \
                        and x.child("obj") is not None and canon(x.child("obj")) == view
                rb = RelBounds(f, is_len).run()
                r_ok, r_why = rb.index_ok(n, n.args[1])
                ok, why = bool(r_ok), "%s, L = size() of that view (relational bounds analysis)" % r_why
            ctx.inst(rule, "%s: view[%s] #%d" % (f.sig, idx.split("#")[0], i + 1), ok, n.loc,
                     "subscript %s of %s: %s" % (idx, view.split("#")[0], why), f)


def check_cmdline_api_only(ctx, rule, unit):
    fns = [f for f in unit.functions if f.uq.startswith("frg::parse_arguments")]
    if not any(not f.get("lambda") for f in fns):
        raise AnalysisBroken("anchor vanished: parse_arguments")
    ALLOWED = {"find_first", "sub_string", "size", "operator==", "operator!=", "operator=", "apply", "begin", "end", "data",
               "operator()", "operator*", "operator++", "<ctor>", "basic_string_view"}
    for f in fns:
        bad = []
        for n in f.events():
            if n.kind == "ArraySubscriptExpr":
                bad.append("raw subscript at %s" % n.loc)
            if n.kind == "BinaryOperator" and n.op in ("+", "-") and (n.get("t") or "").endswith("*"):
                bad.append("pointer arithmetic at %s" % n.loc)
            if n.kind == "UnaryOperator" and n.op == "*" and (n.children[0].get("t") or "").startswith("const char"):
                bad.append("character pointer dereference at %s" % n.loc)
            if n.is_call() and n.callee and (n.callee.get("cls") or "") == "frg::basic_string_view" and \
                    n.callee["n"] not in ALLOWED and n.callee["kind"] not in ("ctor",):
                bad.append("calls basic_string_view::%s at %s" % (n.callee["n"], n.loc))
        ctx.inst(rule, f.uq + (" <lambda>" if f.get("lambda") else ""), not bad, f.loc,
                 "; ".join(bad) if bad else "touches the command line only through find_first/sub_string/size/comparison", f)


def check_loop_progress(ctx, rule, fn, progress, default_vars=()):
    """Every natural loop makes progress: on every path from the loop header back to it (each back edge),
    some variable read by the header's condition is modified (for constant conditions: one of
    `default_vars`, decl ids), or — if `progress` is given and the header has no variables — a progress(node)
    event occurs."""
    dom = fn.dominators()
    rb = fn.reachable_blocks()
    backs = []
    for b in rb:
        for s_ in fn.blocks[b].live_succs():
            if s_ in dom.get(b, ()):
                backs.append((b, s_))
    backs.sort(key=lambda e: (-e[1], -e[0]))
    k = 0
    for (u, h) in backs:
        hb = fn.blocks[h]
        vars_ = set()
        # the controlling condition: at the header (while/for), or at the latch for a do/while loop
        ctl = hb
        lb_, hops_ = fn.blocks[u], 0
        while lb_.cond is None and not lb_.nodes() and len([p_ for p_ in lb_.preds if p_ in rb]) == 1 and hops_ < 3:
            lb_, hops_ = fn.blocks[[p_ for p_ in lb_.preds if p_ in rb][0]], hops_ + 1     # clang's empty loop-back block
        if lb_.id != h and lb_.cond is not None and len(lb_.live_succs()) == 2:
            ctl = lb_
        if ctl.cond is not None:
            for x in fn.node(ctl.cond).walk():
                if x.kind == "DeclRefExpr" and x.get("dk") in ("Var", "ParmVar") and x.get("local"):
                    y = std_unwrap(x)        # a reference parameter of a folded-in helper is its argument
                    if y.kind == "DeclRefExpr":
                        vars_.add(y.d["d"])
                    else:
                        vars_.add(x.d["d"])
        if not vars_:
            vars_ = set(default_vars)

        if not vars_ and progress is None:
            # `while(true)` style loop: the loop's cursor is whatever local it reassigns
            for b_ in rb:
                pass
        def modifies(n):
            if progress is not None:
                return bool(progress(n))
            if vars_:
                if n.kind in ("UnaryOperator",) and n.op in ("++", "--"):
                    t = std_unwrap(n.children[0])       # through the reference parameters of folded-in helpers
                    return t.kind == "DeclRefExpr" and t.d["d"] in vars_
                if n.kind in ("BinaryOperator", "CompoundAssignOperator") and n.op.endswith("=") and n.op not in ("==", "!=", "<=", ">="):
                    t = std_unwrap(n.children[0])
                    return t.kind == "DeclRefExpr" and t.d["d"] in vars_
                return False
            return bool(progress and progress(n))
        # loop body = blocks that reach u without leaving through h
        body = {u}
        st = [u]
        while st:
            x = st.pop()
            if x == h:
                continue
            for p in fn.blocks[x].preds:
                if p not in body and p in rb:
                    body.add(p)
                    st.append(p)
        body.add(h)
        if not vars_ and progress is None:
            for b_ in body:
                for n_ in fn.blocks[b_].nodes():
                    if n_.kind == "BinaryOperator" and n_.op == "=":
                        t_ = std_unwrap(n_.children[0])
                        if t_.kind == "DeclRefExpr" and t_.get("local"):
                            vars_.add(t_.d["d"])
        # a condition variable that is declared inside the loop (`while(T *next = step(cur))`) is re-computed from its
        # initialiser on every iteration: the loop advances when something that initialiser reads is modified
        grew = bool(vars_)
        while grew:
            grew = False
            for b_ in body:
                for n_ in fn.blocks[b_].nodes():
                    if n_.kind == "DeclStmt":
                        for d_ in n_.get("decls", []):
                            if d_["d"] in vars_ and "init" in d_:
                                for x_ in fn.node(d_["init"]).walk():
                                    if x_.kind == "DeclRefExpr" and x_.get("local") and x_.get("dk") in ("Var", "ParmVar"):
                                        y_ = std_unwrap(x_)
                                        dd = y_.d["d"] if y_.kind == "DeclRefExpr" else x_.d["d"]
                                        if dd not in vars_:
                                            vars_.add(dd)
                                            grew = True
        # a loop steered by a flag (`do { ... default: in_flags = false; ... } while(in_flags);`): the flag changes only on
        # the way out; a trip that leaves it alone advances when the default cursor does
        if vars_ and default_vars and progress is None:
            flag_only = True
            for d_ in vars_:
                for n_ in fn.all_nodes():
                    if n_.kind in ("BinaryOperator", "CompoundAssignOperator") and n_.get("op", "").endswith("=") and n_.op not in ("==", "!=", "<=", ">="):
                        t_ = std_unwrap(n_.children[0])
                        if t_.kind == "DeclRefExpr" and t_.d["d"] == d_:
                            if n_.op != "=" or std_unwrap(n_.children[1]).kind != "CXXBoolLiteralExpr":
                                flag_only = False
                    if n_.kind == "UnaryOperator" and n_.op in ("++", "--", "&") and std_unwrap(n_.children[0]).kind == "DeclRefExpr" \
                            and std_unwrap(n_.children[0]).d["d"] == d_:
                        flag_only = False
                    if n_.kind == "DeclStmt":
                        for dc_ in n_.get("decls", []):
                            if dc_["d"] == d_ and (dc_.get("t") or "") not in ("bool", "const bool", "_Bool"):
                                flag_only = False
            if flag_only:
                flags_ = set(vars_)
                vars_ = set(default_vars)
                # path-sensitive in the flag: start a trip with the flag true, follow only the edges its known value allows
                stuck_ = False
                seen_, work_ = set(), [(h, True, False)]
                while work_ and not stuck_:
                    b_, fv_, pg_ = work_.pop()
                    if (b_, fv_, pg_) in seen_:
                        continue
                    seen_.add((b_, fv_, pg_))
                    for n_ in fn.blocks[b_].nodes():
                        if n_.kind == "BinaryOperator" and n_.op == "=" and std_unwrap(n_.children[0]).kind == "DeclRefExpr" \
                                and std_unwrap(n_.children[0]).d["d"] in flags_:
                            fv_ = bool(std_unwrap(n_.children[1]).get("bv"))
                        if modifies(n_):
                            pg_ = True
                    for su_, cond_, truth_ in fn.branch_edges(b_):
                        if cond_ is not None and truth_ is not None and fv_ is not None:
                            c_, t_ = cond_.strip(), truth_
                            while c_.kind == "UnaryOperator" and c_.op == "!":
                                c_, t_ = c_.children[0].strip(), not t_
                            cu_ = std_unwrap(c_)
                            if cu_.kind == "DeclRefExpr" and cu_.d["d"] in flags_ and bool(fv_) != bool(t_):
                                continue
                        if su_ == h:
                            if not pg_ and fv_ is not False:        # (with the flag cleared the next test of it leaves the loop)
                                stuck_ = True
                        elif su_ in body:
                            work_.append((su_, fv_, pg_))
                k += 1
                ctx.inst(rule, "%s: loop #%d" % (fn.sig, k), not stuck_, fn.blocks[h].nodes()[0].loc if fn.blocks[h].nodes() else fn.loc,
                         "a trip round the flag-steered loop leaves its cursor where it was" if stuck_ else
                         "flag-steered loop: every trip that keeps the flag set advances the cursor", fn)
                continue
        prog_blocks = {b for b in body if any(modifies(n) for n in fn.blocks[b].nodes())}
        # can we go h -> ... -> u inside the body avoiding progress blocks?
        stuck = False
        if h not in prog_blocks:
            seen, st = set(), [h]
            while st:
                x = st.pop()
                if x in seen:
                    continue
                seen.add(x)
                if x == u and x not in prog_blocks:
                    stuck = True
                    break
                for y in fn.blocks[x].live_succs():
                    if y in body and y not in prog_blocks and y != h:
                        st.append(y)
        k += 1
        ns = hb.nodes()
        loc = ns[0].loc if ns else fn.loc
        ctx.inst(rule, "%s: loop #%d" % (fn.sig, k), not stuck, loc,
                 "a path around the loop modifies none of the variables its condition depends on" if stuck else
                 "every path around the loop makes progress", fn)


# ---- C19 --------------------------------------------------------------------------------------

INT_TYPES = {
    "signed char": (8, True), "char": (8, True), "unsigned char": (8, False),
    "short": (16, True), "unsigned short": (16, False), "int": (32, True), "unsigned int": (32, False),
    "long": (64, True), "unsigned long": (64, False), "long long": (64, True), "unsigned long long": (64, False),
}
MOD_WIDTH = {"char_size": 8, "short_size": 16, "long_size": 64, "longlong_size": 64, "native_size": 64,
             "intmax_size": 64, "default_size": 32}


def case_of(fn, node_id):
    """CaseStmt character(s) whose body contains the element: via the statement tree."""
    pm = fn.parent_map()
    cur = node_id
    hops = 0
    vals = []
    while cur in pm and hops < 200:
        cur = pm[cur]
        n = fn.node(cur)
        if n.kind == "CaseStmt":
            vals.append(int(n.get("casev")))
            # nested `case 'd': case 'i':`
            p = pm.get(cur)
            while p is not None and fn.node(p).kind == "CaseStmt":
                vals.append(int(fn.node(p).get("casev")))
                cur = p
                p = pm.get(cur)
            return tuple(sorted(vals))
        if n.kind == "SwitchStmt":
            return None
        hops += 1
    return None


def check_int_conversion_table(ctx, unit):
    ctx.rule("T.length-modifier-table", "in every integer conversion of do_printf_ints each length modifier the parser can "
             "produce is handled, pops an integer of the modifier's width (hh 8, h 16, l/ll/z/t/j 64, none 32), signed for "
             "d/i and unsigned otherwise; all conversions agree", 5)
    ctx.rule("T.one-pop-per-conversion", "every conversion arm pops exactly one variadic argument on every path", 3)
    fs = unit.fns(uq="frg::do_printf_ints")
    if not fs:
        raise AnalysisBroken("anchor vanished: do_printf_ints")
    for f in fs:
        szp = [p["d"] for p in f.params() if "printf_size_mod" in p["t"]]
        if not szp:
            raise AnalysisBroken("anchor vanished: szmod parameter")
        # conversion letter x size modifier -> popped type, by a path-sensitive enumeration of the two selector
        # parameters over the CFG (if/else chains, switches and new dispatch helpers all look the same there)
        chp = [p["d"] for p in f.params() if p["t"] == "char"]
        if not chp:
            raise AnalysisBroken("anchor vanished: conversion letter parameter")
        enum = {}
        for g in unit.functions:
            for x in g.all_nodes():
                if x.kind == "DeclRefExpr" and x.get("dk") == "EnumConstant" and x.get("t") == "frg::printf_size_mod" and x.cv() is not None:
                    enum[x.cv()] = x.n
        letters_dom = set()
        for b_ in f.blocks.values():
            if b_.termkind == "SwitchStmt" and b_.cond is not None and _is_var(f.node(b_.cond), chp[0]):
                for _s, v_, _all in flow.switch_edges(f, b_.id):
                    if v_ is not None:
                        letters_dom.add(v_)
        if not letters_dom:
            raise AnalysisBroken("anchor vanished: dispatch on the conversion letter")
        cell = {}

        def observe(n, st):
            if n.kind == "CallExpr" and n.callee and n.callee["uq"] == "frg::pop_arg" and not n.get("inlined"):
                t_, m_ = st[chp[0]], st[szp[0]]
                if t_ in letters_dom and m_ in enum:
                    cell.setdefault((t_, enum[m_]), set()).add(((n.callee.get("targs") or "").strip("<>"), n.loc, n.id))
        flow.value_states(f, {chp[0]: letters_dom, szp[0]: set(enum)}, observe)
        per_letter = {}
        for (t_, m_), tys in cell.items():
            per_letter.setdefault(t_, {})[m_] = sorted(tys)
        groups = {}
        for t_, m in per_letter.items():
            # letters that reach exactly the same pop sites form one conversion arm (`case 'd': case 'i':`)
            groups.setdefault(tuple(sorted((k, tuple(x[2] for x in v)) for k, v in m.items())), []).append(t_)
        table = {}
        for key, ls in groups.items():
            m = {}
            for k, v in per_letter[ls[0]].items():
                m[k] = ("/".join(sorted({x[0] for x in v})), v[0][1])
            table[tuple(sorted(ls))] = m
        if len(table) < 5:
            raise AnalysisBroken("anchor vanished: integer conversion arms (found %d)" % len(table))
        ref = None
        for cs, m in sorted(table.items(), key=lambda kv: str(kv[0])):
            letters = "".join(chr(c) for c in cs) if cs else "?"
            signed_conv = set(letters) <= set("di")
            problems = []
            for mod, w in MOD_WIDTH.items():
                if mod not in m:
                    problems.append("modifier %s not handled" % mod)
                    continue
                ty = m[mod][0]
                if ty not in INT_TYPES:
                    problems.append("%s pops non-integer type %s" % (mod, ty))
                    continue
                bits, sg = INT_TYPES[ty]
                if bits != w:
                    problems.append("%s pops %s (%d bits), expected %d bits" % (mod, ty, bits, w))
                if sg != signed_conv:
                    problems.append("%s pops %s, conversion is %s" % (mod, ty, "signed" if signed_conv else "unsigned"))
            shape = {mod: INT_TYPES.get(m[mod][0], (0, 0))[0] for mod in m}
            if ref is None:
                ref = shape
            elif shape != ref:
                problems.append("width per modifier differs from the other conversions: %s vs %s" % (shape, ref))
            ctx.inst("T.length-modifier-table", "frg::do_printf_ints: conversion %s" % letters, not problems, f.loc,
                     "; ".join(problems) if problems else "7 modifiers -> %s" % {k: v[0] for k, v in sorted(m.items())}, f)
    for uq in ("frg::do_printf_ints", "frg::do_printf_chars", "frg::do_printf_floats"):
        for f in unit.fns(uq=uq):
            def transfer(n, s):
                if n.kind == "CallExpr" and n.callee and n.callee["uq"] == "frg::pop_arg":
                    return [min(s + 1, 3)]
                return [s]
            _, ex = flow.run(f, [0], transfer, None)
            # (the placeholder arm of do_printf_floats for %e/%g must consume its argument too: otherwise every later
            # directive reads the argument of its predecessor, with the wrong type)
            allowed = {1}
            ctx.inst("T.one-pop-per-conversion", uq, bool(ex) and set(ex) <= allowed, f.loc,
                     "argument pops per path: %s" % sorted(ex), f)


def check_agent_discipline(ctx, unit):
    ctx.rule("N.agent-result", "every call of the printf agent returns an expected that is tested in the same step and "
             "propagated on failure before the cursor moves", 3)
    for f in unit.fns(uq="frg::printf_format"):
        ag = [f.params()[0]["d"]]
        calls = sorted([n for n in f.events() if n.kind == "CXXOperatorCallExpr" and n.args and _is_var(n.args[0], ag[0])],
                       key=lambda n: _lk(n.loc))
        if len(calls) < 3:
            raise AnalysisBroken("anchor vanished: agent calls in printf_format")
        pos = f.positions()
        for i, c in enumerate(calls):
            # bound variable
            rdid = None
            for x in f.all_nodes():
                if x.kind == "DeclStmt":
                    for d in x.get("decls", []):
                        if "init" in d and any(y.id == c.id for y in f.node(d["init"]).walk()):
                            rdid, decl = d["d"], x
            ok, why = False, "result not bound to a variable"
            if rdid is not None:
                blk = f.blocks[pos[decl.id][0]]
                cond = f.node(blk.cond) if blk.cond is not None else None
                tested = cond is not None and any(x.kind == "DeclRefExpr" and x.d["d"] == rdid for x in cond.walk())
                prop = False
                if tested:
                    for succ, cnd, truth in f.branch_edges(blk.id):
                        sb = f.blocks[succ]
                        for n in sb.nodes():
                            if n.kind == "ReturnStmt" and n.child("val") is not None and \
                                    any(x.kind == "DeclRefExpr" and x.d["d"] == rdid for x in n.child("val").walk()):
                                prop = True
                moved = any(n.kind in ("UnaryOperator", "CompoundAssignOperator") and n.get("op") in ("++", "+=")
                            for n in blk.nodes()[blk.elems.index(decl.id):])
                ok = tested and prop and not moved
                why = "tested in the same block: %s; failure arm returns it: %s; cursor moved before the test: %s" % (tested, prop, moved)
            ctx.inst("N.agent-result", "frg::printf_format: agent call #%d" % (i + 1), ok, c.loc, why, f)


def check_logger(ctx, unit):
    """Exact finite-state inductive invariant of the chunking logger item (witness: Limit = 16).
    Fields are found structurally: the buffer is the fixed-extent array member, the offset is the integer member
    that subscripts it.  Invariant I: 0 <= offset <= Limit-1 (room for the terminator).  The constructor establishes
    I; every non-private member function, entered in any state of I, (a) subscripts the buffer only inside
    [0, Limit), (b) calls the sink only directly after storing the terminator at the current offset, and (c)
    re-establishes I on every normal exit.  States are the concrete offset values, so loops, helper extraction
    (virtual inlining) and re-spelled conditions make no difference; a redundant assertion is not required."""
    ctx.rule("B.logger-buffer", "stack_buffer_logger::item keeps 0 <= offset < Limit as an inductive invariant of all its "
             "member functions: every buffer subscript is inside the array, every emit directly follows the terminator "
             "store, and the invariant holds again at every exit (exact enumeration of the offset for the witness Limit)", 3)
    recs = [r for r in unit.records if r["qn"].startswith("frg::stack_buffer_logger<") and r["qn"].endswith("::item")]
    if not recs:
        raise AnalysisBroken("anchor vanished: stack_buffer_logger::item")
    for rec in recs:
        bufs = [fl for fl in rec["fields"] if fl.get("extent")]
        if len(bufs) != 1:
            raise AnalysisBroken("anchor vanished: fixed buffer of %s" % rec["qn"])
        buf, limit = bufs[0]["n"], int(bufs[0]["extent"])
        fns = [f for f in unit.functions if f.owner_clsqn == rec["qn"] and f.blocks]
        off = None
        for f in fns:
            for n in f.events():
                if n.kind == "ArraySubscriptExpr" and path(n.children[0]) == ("this", buf):
                    for x in n.children[1].walk():
                        if x.kind == "MemberExpr" and x.get("mk") == "Field" and path(x) and path(x)[0] == "this" and len(path(x)) == 2:
                            off = path(x)[1]
        if off is None:
            raise AnalysisBroken("anchor vanished: offset member of %s" % rec["qn"])
        OFFP = ("this", off)

        def arith(node, cur):
            def val(x):
                x = x.strip()
                if path(x) == OFFP and x.kind == "MemberExpr":
                    return cur
                if x.kind == "BinaryOperator" and x.op in ("+", "-", "*"):
                    a_, b_ = flow.sem_eval(x.children[0], val), flow.sem_eval(x.children[1], val)
                    if a_ is None or b_ is None:
                        return None
                    return {"+": a_ + b_, "-": a_ - b_, "*": a_ * b_}[x.op]
                return None
            return flow.sem_eval(node, val)

        for f in fns:
            if f.kind == "ctor":
                inits = [n for n in f.events() if n.kind == "CtorInit" and n.get("field") == off]
                for n in inits:
                    iv = f.node(n.get("init")).strip() if n.get("init") is not None else None
                    if iv is not None and iv.kind == "InitListExpr" and iv.children:
                        iv = iv.children[0].strip()
                    c = iv.cv() if iv is not None else None
                    ctx.inst("B.logger-buffer", "%s: constructor establishes the invariant" % f.sig, c is not None and 0 <= c < limit,
                             n.loc, "offset initialised to %s, buffer extent %d" % (c, limit), f)
                continue
            if f.kind == "dtor" or f.get("access") == "private":
                continue
            touches = any((path(n) == OFFP and n.kind == "MemberExpr") or
                          (n.kind == "ArraySubscriptExpr" and path(n.children[0]) == ("this", buf)) for n in f.events())
            if not touches:
                continue
            bad = {}
            par = f.parent_map()

            def transfer(n, st):
                cur, term = st
                k = n.kind
                if k == "UnaryOperator" and n.op in ("++", "--") and path(n.children[0]) == OFFP:
                    new = cur + (1 if n.op == "++" else -1)
                    used = cur if n.get("post") else new
                    p_ = par.get(n.id)
                    hops = 0
                    while p_ is not None and f.node(p_).kind in ("ImplicitCastExpr", "ParenExpr") and hops < 4:
                        p_ = par.get(p_); hops += 1
                    if p_ is not None and f.node(p_).kind == "ArraySubscriptExpr" and path(f.node(p_).children[0]) == ("this", buf):
                        if not 0 <= used < limit:
                            bad.setdefault(n.id, (n, "buffer subscript %d outside [0, %d)" % (used, limit)))
                        return [(new, "idx:%d" % used)]
                    return [(new, False)]
                if k == "ArraySubscriptExpr" and path(n.children[0]) == ("this", buf):
                    if isinstance(term, str):
                        return [(cur, term)]          # index was produced by the ++/-- just handled
                    i_ = arith(n.children[1], cur)
                    if i_ is None or not 0 <= i_ < limit:
                        bad.setdefault(n.id, (n, "buffer subscript %s outside [0, %d)" % (i_, limit)))
                    return [(cur, "idx:%s" % i_)]
                w = write_of(n)
                if w and w[0] == OFFP and n.kind in ("BinaryOperator", "CompoundAssignOperator"):
                    if n.kind == "BinaryOperator":
                        v_ = arith(w[1], cur) if w[1] is not None else None
                    else:
                        r_ = arith(n.children[1], cur)
                        v_ = None if r_ is None else (cur + r_ if n.op == "+=" else cur - r_ if n.op == "-=" else None)
                    if v_ is None:
                        bad.setdefault(n.id, (n, "offset assigned a value the analysis cannot evaluate"))
                        return []
                    return [(v_, False)]
                if w and w[0] and w[0][:2] == ("this", buf) and n.kind == "BinaryOperator":
                    idx = int(term[4:]) if isinstance(term, str) and term[4:].lstrip("-").isdigit() else None
                    zero = w[1] is not None and w[1].strip().cv() == 0
                    return [(cur, True if (zero and idx == cur) else False)]
                if n.is_call() and n.callee and n.callee.get("cls") == "frg::stack_buffer_logger" and not n.callee.get("const") \
                        and any(path(a) == ("this", buf) for a in n.args):
                    if term is not True:
                        bad.setdefault(n.id, (n, "buffer handed to the sink without a terminator stored at the current offset"))
                    return [(cur, False)]
                return [(cur, term)]

            def refine(cond, truth, st):
                v = arith(cond, st[0])
                if v is None or bool(v) == truth:
                    return [st]
                return []
            try:
                _, ex = flow.run(f, [(v, False) for v in range(limit)], transfer, refine, limit=200000)
            except flow.TooManyStates:
                raise AnalysisBroken("logger invariant analysis of %s exceeded its state budget" % f.qn)
            out = sorted({e[0] for e in ex if not 0 <= e[0] < limit})
            msgs = ["%s at %s" % (t, n.loc) for n, t in bad.values()]
            if out:
                msgs.append("leaves offset = %s at exit (invariant 0 <= offset < %d broken; the next call overruns or traps)" % (out, limit))
            ctx.inst("B.logger-buffer", f.sig, not msgs, f.loc, "; ".join(msgs) if msgs else
                     "entered with offset in [0,%d): all subscripts in range, emits terminated, invariant restored" % limit, f)


def check_fmt_spec(ctx, unit):
    ctx.rule("T.fmt-conversions", "parse_fmt_spec accepts exactly the conversion letters b c o d i x X, rejects anything "
             "after the conversion, and all three echo sites of format_object pass sub-strings of the format view delimited by "
             "the recorded start of the spec", 2)
    ps = [f for f in unit.functions if f.name == "parse_fmt_spec"]
    if not ps:
        raise AnalysisBroken("anchor vanished: parse_fmt_spec")
    for f in ps[:1]:
        # the scan character: a `char` local initialised from an element of the spec view; the accepted conversion letters
        # are the values of that character under which a store to <options>.conversion is reached -- by a path-sensitive
        # enumeration over the CFG (a switch, an if-chain or a dispatch helper look the same there)
        inits_ = RA.local_inits(f)
        chars = [canon(i.strip()) for d, i in inits_.items() if (i.get("t") or i.strip().get("t") or "") in ("char", "const char")
                 and any(x.kind in ("CXXOperatorCallExpr", "ArraySubscriptExpr") or (x.kind == "UnaryOperator" and x.op == "*") for x in i.walk())]
        cand = set()
        for b_ in f.blocks.values():
            if b_.termkind == "SwitchStmt" and b_.cond is not None:
                for _s, v_, _all in flow.switch_edges(f, b_.id):
                    if v_ is not None:
                        cand.add(v_)
        for n in f.all_nodes():
            if n.kind == "BinaryOperator" and n.op in ("==", "!="):
                for x in n.children:
                    c_ = x.strip().cv()
                    if c_ is not None and x.strip().kind in ("CharacterLiteral", "IntegerLiteral", "ImplicitCastExpr") and 32 <= c_ < 127:
                        cand.add(c_)
        if not chars or not cand:
            raise AnalysisBroken("anchor vanished: scan character / conversion dispatch in parse_fmt_spec")
        OTHER = -99999
        letters, rej_other, acc_other = set(), [False], [False]

        def observe(n, st):
            w = write_of(n)
            v = st[chars[0]]
            if w and w[0] and w[0][-1] == "conversion":
                if v == OTHER:
                    acc_other[0] = True
                else:
                    letters.add(chr(v))
            if n.kind == "ReturnStmt" and n.child("val") is not None and n.child("val").strip().cv() == 0 and v == OTHER:
                rej_other[0] = True
        flow.value_states(f, {chars[0]: cand}, observe, other=OTHER)
        want = set("bcodixX")
        rej = rej_other[0] and not acc_other[0]
        ctx.inst("T.fmt-conversions", "frg::detail_::fmt_impl::parse_fmt_spec: letters", letters == want and rej, f.loc,
                 "accepted letters %s, expected %s; other letters rejected: %s" % ("".join(sorted(letters)), "".join(sorted(want)), rej), f)
    # every conversion the spec parser can select is rendered by format_integer (not met by an assertion): enumerated
    # path-sensitively over the value of <options>.conversion
    fi = [f for f in unit.functions if f.name == "format_integer" and f.uq.startswith("frg::_fmt_basics")]
    if not fi:
        raise AnalysisBroken("anchor vanished: _fmt_basics::format_integer")
    enum_vals = {}
    for g in unit.functions:
        for x in g.all_nodes():
            if x.kind == "DeclRefExpr" and x.get("dk") == "EnumConstant" and x.get("t") == "frg::format_conversion" and x.cv() is not None:
                enum_vals[x.cv()] = x.n
    done_fi = set()
    for f in fi:
        optp = [p_ for p_ in f.params() if "format_options" in p_["t"]]
        if not optp or not enum_vals:
            raise AnalysisBroken("anchor vanished: format_options parameter / format_conversion enumerators")
        sig = f.sig.split("(")[0] + "<" + f.params()[0]["t"] + ">"
        if sig in done_fi:
            continue
        done_fi.add(sig)
        keys = {canon(x) for x in f.all_nodes() if x.kind == "MemberExpr" and x.m == "conversion"
                and std_unwrap(x.children[0]).kind == "DeclRefExpr" and std_unwrap(x.children[0]).d["d"] == optp[0]["d"]}
        if len(keys) != 1:
            raise AnalysisBroken("anchor vanished: reads of <options>.conversion in format_integer")
        key = next(iter(keys))
        handled = set()

        def observe(n, st, key=key):
            if n.is_call() and n.callee and (n.callee["n"] in ("print_int", "print_digits") or
                                             (n.callee["n"] == "append" and n.kind == "CXXMemberCallExpr")):
                handled.add(st[key])
        flow.value_states(f, {key: set(enum_vals)}, observe)
        missing = sorted(enum_vals[v] for v in enum_vals if v not in handled)
        ctx.inst("T.fmt-conversions", "%s: every conversion is rendered" % sig, not missing, f.loc,
                 ("conversion(s) %s reach no output call: the {}-spec parser accepts them for every argument type, format_integer "
                  "meets them with an assertion" % missing) if missing else "all %d conversions reach an output call" % len(enum_vals), f)
    fo = [f for f in unit.functions if f.name == "format_object" and "fmt_impl" in (f.owner_cls or "")]
    if not fo:
        raise AnalysisBroken("anchor vanished: format_object(fmt_impl)")
    from .poly import Poly, to_poly
    for f in fo[:1]:
        def is_sub(x):
            x = x.strip()
            return x.is_call() and x.callee and x.callee["n"] == "sub_string" and x.callee.get("cls") == "frg::basic_string_view"
        echo = [n for n in f.events() if n.is_call() and n.callee and n.callee["n"] == "format_object" and n.args and is_sub(n.args[0])]
        if not echo:
            raise AnalysisBroken("anchor vanished: echo of a specifier in format_object(fmt_impl)")
        loops = flow.natural_loops(f)
        ivars = {}
        for lp in loops:
            for v, info in flow.induction(f, lp).items():
                ivars[v] = lp
        if not ivars:
            raise AnalysisBroken("anchor vanished: scanning loop of format_object(fmt_impl)")
        # locals that record a position of the scan: assigned (only) from an induction variable inside its loop
        recorded = {}
        for n in f.events():
            tgt, val = None, None
            if n.kind == "BinaryOperator" and n.op == "=":
                tgt, val = flow._var_of(n.children[0]), n.children[1]
            elif n.kind == "DeclStmt":
                for d in n.get("decls", []):
                    if "init" in d:
                        tgt, val = d["d"], f.node(d["init"])
            if tgt is None or tgt in ivars:
                continue
            src = flow._var_of(val)
            if src in ivars and ivars[src].contains(n):
                recorded.setdefault(tgt, []).append(n)
            elif val is not None and val.strip().cv() != 0:
                recorded.setdefault(tgt, []).append(None)
        recorded = {k: v for k, v in recorded.items() if all(x is not None for x in v)}

        def leaf(x, depth=0):
            x = x.strip()
            v = flow._var_of(x)
            if v is not None and v not in recorded and v not in ivars and depth < 6:
                # a named intermediate (`const size_t spec_size = i - start - 1;`) stands for its initialiser
                i0 = RA.local_inits(f).get(v)
                if i0 is not None and not RA._reassigned(f, v):
                    p0 = to_poly(i0, lambda y: leaf(y, depth + 1))
                    if p0 is not None:
                        return p0
            if v is not None:
                return Poly.sym("v%d" % v)
            if x.is_call() and x.callee and x.callee["n"] == "size" and x.callee.get("cls") == "frg::basic_string_view":
                return Poly.sym("size")
            xs = std_unwrap(x)
            if xs.id != x.id and depth < 6:
                # a by-value parameter of a virtually inlined helper / lambda stands for its argument expression
                return to_poly(xs, lambda y: leaf(y, depth + 1))
            return None
        problems, starts = [], set()
        for e in echo:
            ss = e.args[0].strip()
            sargs = ss.args
            st = flow._var_of(sargs[0]) if sargs else None
            if st is None or st not in recorded:
                problems.append("echo at %s does not start at a recorded scan position" % e.loc)
                continue
            starts.add(st)
            ln = to_poly(sargs[1], leaf) if len(sargs) > 1 else None
            if ln is None:
                problems.append("echo length at %s is not an expression over recorded positions / size()" % e.loc)
                continue
            end = ln + Poly.sym("v%d" % st)       # one past the last echoed index
            inside = any(lp.contains(e) for lp in loops)
            if inside:
                # closed specifier: echoes [start, close] where close is a recorded position or the induction variable
                ok = any(end == Poly.sym("v%d" % v) + Poly.const(1) for v in list(recorded) + list(ivars) if v != st)
                if not ok:
                    problems.append("echo at %s does not end at the closing brace (start + length != close + 1)" % e.loc)
            else:
                if not end == Poly.sym("size"):
                    problems.append("echo of the unclosed specifier at %s does not end at size()" % e.loc)
        if len(starts) > 1:
            problems.append("echo sites start at different variables")
        # every failed parse / failed argument print is followed by an echo before the scan continues
        fails = 0
        deciders = {}
        for blk in f.blocks.values():
            if blk.cond is None or blk.noret or len(f.branch_edges(blk.id)) != 2 or f.branch_edges(blk.id)[0][1] is None:
                continue
            for c in f.node(blk.cond).walk():
                if c.kind == "CXXMemberCallExpr" and c.callee and c.callee.get("cls") == "frg::detail_::fmt_impl" and (c.get("t") or "") == "bool" \
                        and not c.get("inlined"):
                    deciders.setdefault(c.id, []).append(blk.id)
        for cid, bl in sorted(deciders.items()):
            c = f.node(cid)
            # the first branch (in dominance order) whose condition mentions the call decides on it
            first = [b_ for b_ in bl if all(b_ == o or f.dominates_block(b_, o) for o in bl)]
            for bid_ in first[:1]:
                    blk = f.blocks[bid_]
                    cn = f.node(blk.cond)
                    v = flow.sem_eval(cn, lambda x: 0 if x.strip().id == c.id else None)
                    if v is None:
                        continue
                    fails += 1
                    for succ, _cnd, truth in f.branch_edges(blk.id):
                        if truth != bool(v):
                            continue
                        seen, stack, miss = set(), [succ], False
                        hdrs = {lp.header for lp in loops} | {f.exit}
                        while stack and not miss:
                            b_ = stack.pop()
                            if b_ in seen:
                                continue
                            seen.add(b_)
                            if any(x.id in {e.id for e in echo} for x in f.blocks[b_].nodes()):
                                continue
                            if b_ in hdrs:
                                miss = True
                                break
                            # later branches that still depend on the failed call are decided by its value
                            nxt = None
                            if f.blocks[b_].cond is not None:
                                be = f.branch_edges(b_)
                                if len(be) == 2 and be[0][1] is not None:
                                    v2 = flow.sem_eval(f.node(f.blocks[b_].cond), lambda x: 0 if x.strip().id == c.id else None)
                                    if v2 is not None:
                                        nxt = [s_ for s_, _c, t_ in be if t_ == bool(v2)]
                            stack.extend(nxt if nxt is not None else f.blocks[b_].live_succs())
                        if miss:
                            problems.append("%s fails at %s and a path continues the scan without echoing the specifier" % (c.callee["n"], c.loc))
        if fails < 2:
            raise AnalysisBroken("anchor vanished: tested parse_fmt_spec / format_nth results (found %d)" % fails)
        # the options object handed to parse_fmt_spec is constructed afresh for every specifier
        fresh_bad = []
        pcs = [n for n in f.events() if n.kind == "CXXMemberCallExpr" and n.callee and n.callee["n"] == "parse_fmt_spec" and not n.get("inlined")]
        for pc in pcs:
            pts = pc.callee.get("ptypes", [])
            for a_, t_ in zip(pc.args, pts):
                if "format_options" in t_ and t_.rstrip().endswith("&") and not t_.startswith("const"):
                    v_ = flow._var_of(a_)
                    inner = [lp for lp in loops if lp.contains(pc)]
                    inner.sort(key=lambda lp: len(lp.body))
                    decl = [n for n in f.events() if n.kind == "DeclStmt" and any(d.get("d") == v_ for d in n.get("decls", []))]
                    reinit = [n for n in f.events() if n.kind in ("BinaryOperator", "CXXOperatorCallExpr") and n.children and flow._var_of(n.children[0] if n.kind == "BinaryOperator" else (n.args[0] if n.args else n)) == v_
                              and f.dominates(n.id, pc.id) and inner and inner[0].contains(n)] if v_ is not None else []
                    ok_ = v_ is not None and inner and ((decl and inner[0].contains(decl[0]) and f.dominates(decl[0].id, pc.id)) or bool(reinit))
                    if not ok_:
                        fresh_bad.append("the format_options passed to parse_fmt_spec at %s is not constructed (or reset) inside the scanning "
                                         "loop: flags of one {}-spec leak into the next" % pc.loc)
        if not pcs:
            raise AnalysisBroken("anchor vanished: parse_fmt_spec call in format_object(fmt_impl)")
        ctx.inst("T.fmt-conversions", "frg::detail_::format_object: per-spec options", not fresh_bad, f.loc,
                 "; ".join(fresh_bad) if fresh_bad else "options object is a fresh local of the loop iteration", f)
        ctx.inst("T.fmt-conversions", "frg::detail_::format_object: echo sites", not problems, f.loc,
                 "; ".join(problems) if problems else "%d echo sites start at the recorded '{', end at the recorded '}' / at size(); "
                 "%d failure edges each lead to an echo" % (len(echo), fails), f)


def check_positional_fetch(ctx, unit, rule="E.positional-fetch-type"):
    """pop_arg<T> for a positional directive %N$: the va_list is consumed in order, so positions below N that were not
    seen yet are pulled as well and cached -- but pulled with the type T of the CURRENT directive.  "%2$d %1$s" pulls the
    char* of position 1 with va_arg(int).  A position may only be pulled with its own directive's type (which needs a
    pre-scan of the format string)."""
    ctx.rule(rule, "pop_arg: no variadic argument is pulled from the va_list inside a loop over argument positions (every "
             "position is pulled with the type of its own directive)", 1)
    fs = [f for f in unit.functions if f.uq == "frg::pop_arg"]
    if not fs:
        raise AnalysisBroken("anchor vanished: pop_arg")
    from .inline import inline_variant
    bad = {}
    for f0 in fs:
        f = inline_variant(unit, f0, lambda cal: cal.get("kind") == "op" and cal.get("op") == "()" and "pop_arg" in (cal.get("uq") or ""))
        loops = flow.natural_loops(f)
        for n in f.all_nodes():
            if n.kind == "VAArgExpr":
                pos = f.positions()
                for lp in loops:
                    if lp.contains(n):
                        bad.setdefault(f0.get("targs", ""), n.loc)
    ctx.inst(rule, "frg::pop_arg: positional cache fill", not bad, fs[0].loc,
             ("va_arg inside the loop over positions num_args..arg_pos (%d instantiations, e.g. pop_arg%s at %s): lower positions are pulled with "
              "the current directive's type" % (len(bad), sorted(bad)[0], bad[sorted(bad)[0]])) if bad else
             "no position is pulled on behalf of another directive", fs[0])


def check_magnitude_unsigned(ctx, unit, rule="B.magnitude-unsigned"):
    """print_int<T>: on the negative arm the magnitude handed to print_digits must have an UNSIGNED type.  For T narrower
    than int, `~static_cast<make_unsigned_t<T>>(x) + 1` is computed in (signed) int after integer promotion: the
    "magnitude" is negative and print_digits indexes its digit table with a negative remainder."""
    ctx.rule(rule, "print_int: for every signed argument type the value passed to print_digits on the negative arm has an unsigned "
             "type (integer promotion must not turn the two's-complement magnitude back into a negative int)", 3)
    fs = [f for f in unit.functions if f.name == "print_int" and f.uq.startswith("frg::_fmt_basics")]
    if not fs:
        raise AnalysisBroken("anchor vanished: _fmt_basics::print_int")
    for f in fs:
        ps = f.params()
        num = ps[1] if len(ps) > 1 else None
        if num is None:
            continue
        tnode = None
        for n in f.all_nodes():
            if n.kind == "DeclRefExpr" and n.d.get("d") == num["d"]:
                tnode = n
                break
        if tnode is None or tnode.get("sgn") is not True:
            continue           # unsigned argument types never take the negative arm
        calls = [n for n in f.events() if n.is_call() and n.callee and n.callee["n"] == "print_digits" and len(n.args) > 2]
        k = 0
        for c in calls:
            neg = const_bool_arg(c.args[2])
            if neg is not True:
                continue
            k += 1
            a = c.args[1].strip()
            ok = a.get("sgn") is False
            ctx.inst(rule, "%s: negative arm" % f.sig.split("(")[0] + "<%s>" % num["t"], ok, c.loc,
                     "magnitude has type %s (%s) for argument type %s" % (a.get("t"), "unsigned" if ok else "SIGNED: negative after promotion",
                                                                         num["t"]), f)
        if k == 0:
            raise AnalysisBroken("anchor vanished: negative arm of print_int<%s>" % num["t"])


def check_float_lengths(ctx, unit, rule="B6.float-length"):
    """print_float adds the caller's precision (anything the printf parser accepts, up to INT_MAX) to the digit count:
    the sums must not overflow int."""
    from . import rules_bounds as RB
    ctx.rule(rule, "print_float: no signed addition involving the width / precision parameters can overflow for any value "
             "in [0, INT_MAX] that the directive parser lets through", 1)
    fs = [f for f in unit.functions if f.name == "print_float" and f.uq.startswith("frg::_fmt_basics")]
    if not fs:
        raise AnalysisBroken("anchor vanished: _fmt_basics::print_float")
    for f in fs[:1]:
        dom = {p["d"]: RB.Iv(0, (1 << 31) - 1) for p in f.params() if p["t"] == "int"}
        res = RB.check_no_wrap_adds(ctx, rule, f, dom, label="frg::_fmt_basics::print_float", signed=True)
        if not res:
            raise AnalysisBroken("anchor vanished: length arithmetic of print_float")


def check_sized_text(ctx, unit, rule="T.sized-text-complete"):
    """Code that holds text together with its length (a string, a string_view: a parameter, a member such as fmt_impl::fmt)
    hands the sink that length: it never passes <text>.data() (possibly offset) to a callee without a length derived from
    <text>.size() in the same call (a C-string append rediscovers the length with strlen: the text is cut at an embedded NUL,
    a view that is not NUL-terminated is overrun, and a default-constructed string hands over a null pointer)."""
    ctx.rule(rule, "formatters of sized text (string, string_view) never drop the length: <text>.data() is passed on only "
             "together with <text>.size()", 2)
    seen = set()
    TEXT = ("frg::basic_string_view", "frg::basic_string")
    for f in unit.functions:
        if not f.uq.startswith("frg::") or f.get("lambda"):
            continue
        sized = [p_ for p_ in f.params() if "string" in p_["t"] and "fmt_impl" not in p_["t"]]
        datas = [n for n in f.events() if n.kind == "CXXMemberCallExpr" and n.callee and n.callee["n"] == "data"
                 and (n.callee.get("cls") or "") in TEXT]
        if not ((sized and f.name in ("format_object", "format")) or datas):
            continue
        label = "%s(%s)" % (f.uq, ", ".join(p_["t"] for p_ in f.params())[:90])
        if label in seen:
            continue
        seen.add(label)
        bad = None
        for c in f.all_nodes():
            if not c.is_call() or c.d.get("inlined"):
                continue
            if c.callee and c.callee["n"] in ("data", "size") and c.kind == "CXXMemberCallExpr":
                continue
            args = c.args
            pts = (c.callee or {}).get("ptypes", [])
            for k_, a in enumerate(args):
                ds = [y for y in a.walk() if y.kind == "CXXMemberCallExpr" and y.callee and y.callee["n"] == "data"
                      and (y.callee.get("cls") or "") in TEXT and not any(
                          z.is_call() and z is not y and z.id != y.id and y.id in [w.id for w in z.walk()] for z in a.walk() if z.id != a.id)]
                if not ds:
                    continue
                # a pointer parameter receives it (not e.g. a comparison of the pointer)
                pt = pts[k_ - (len(args) - len(pts))] if pts and 0 <= k_ - (len(args) - len(pts)) < len(pts) else ""
                if pts and "*" not in pt:
                    continue
                with_len = any(y.kind == "CXXMemberCallExpr" and y.callee and y.callee["n"] == "size"
                               for b in args if b is not a for y in b.walk())
                if not with_len:
                    # ... or a count computed from size() earlier: a local or a member that was initialised / assigned from it
                    # (`: _length{view.size()} { memcpy(_buffer, view.data(), sizeof(Char) * _length); }`)
                    sized = set()
                    for y in f.all_nodes():
                        w_ = write_of(y)
                        tgt_, src_ = None, None
                        if w_ and w_[0] is not None and w_[1] is not None:
                            tgt_, src_ = w_[0], w_[1]
                        elif y.kind == "DeclStmt":
                            for d_ in y.get("decls", []):
                                if "init" in d_ and any(z.kind == "CXXMemberCallExpr" and z.callee and z.callee["n"] == "size"
                                                        for z in [f.node(d_["init"])] + list(f.node(d_["init"]).walk())):
                                    sized.add(("v", d_["d"]))
                        if tgt_ is not None and any(z.kind == "CXXMemberCallExpr" and z.callee and z.callee["n"] == "size"
                                                    for z in [src_] + list(src_.walk())):
                            sized.add(tuple(tgt_))
                    for b in args:
                        if b is a:
                            continue
                        for z in [b] + list(b.walk()):
                            if z.kind == "DeclRefExpr" and ("v", z.d.get("d")) in sized:
                                with_len = True
                            if z.kind == "MemberExpr" and path(z) and tuple(path(z)) in sized:
                                with_len = True
                if not with_len:
                    bad = (c, ds[0])
        ctx.inst(rule, label, bad is None, (bad[0] if bad else f).loc,
                 ("%s is passed to %s without a length: the callee rediscovers it as a C string" %
                  (canon(bad[1]).split("#")[0][:60], bad[0].callee["n"] if bad[0].callee else "a callee")) if bad else "length travels with the characters", f)


def check_digits_length(ctx, unit, rule="B6.digits-length"):
    """print_digits computes the length of the field from the digit count, the caller's precision (up to INT_MAX) and the
    bytes of the thousands separators.  A sum that is computed in a 64-bit type and then narrowed to int loses its upper
    bits: the padding arithmetic that follows overflows (signed overflow) or pads by billions of characters."""
    ctx.rule(rule, "print_digits: no sum of lengths is narrowed from a 64-bit type to int (the field length is kept in the wide type)", 1)
    fs = [f for f in unit.functions if f.name == "print_digits" and f.uq.startswith("frg::_fmt_basics")]
    if not fs:
        raise AnalysisBroken("anchor vanished: _fmt_basics::print_digits")
    done = set()
    for f in fs:
        key = f.sig.split("(")[0] + "<" + (f.params()[1]["t"] if len(f.params()) > 1 else "?") + ">"
        if key in done:
            continue
        done.add(key)
        bad = []
        n_sum = 0
        for n in f.all_nodes():
            if n.kind == "BinaryOperator" and n.op == "+" and (n.get("bits") or 0) >= 32 and not (n.get("t") or "").endswith("*"):
                n_sum += 1
            if n.kind == "ImplicitCastExpr" and n.get("ck") == "IntegralCast" and (n.get("bits") or 0) == 32 and n.children:
                c = n.children[0]
                if (c.get("bits") or c.strip().get("bits") or 0) == 64 and any(
                        x.kind == "BinaryOperator" and x.op in ("+", "-", "*") for x in c.walk()):
                    bad.append("%s (64 bit) is narrowed to int at %s" % (canon(c)[:60], n.loc))
        ctx.inst(rule, key, not bad and n_sum > 0, f.loc, "; ".join(sorted(set(bad))[:2]) if bad else
                 "%d length sums, none narrowed from a 64-bit type to int" % n_sum, f)


def check_grouping_cursor(ctx, unit, rule="B.grouping-cursor"):
    """print_digits walks locale_opts.grouping (a NUL-terminated string of group sizes) with an index.  The index starts
    at 0, may only move forward past an entry known to be non-NUL, and may move back only to an entry it has already
    visited: exactly as many decrements as increments on every path, never below its start.  Decided by a path-sensitive
    count of the index relative to its start (bounded abstract counter) together with the dominating test of the next
    entry before each increment."""
    ctx.rule(rule, "print_digits: the index into the locale's grouping string never drops below 0 (each decrement is matched by an "
             "earlier increment on every path) and only advances past entries tested non-zero", 2)
    fs = [f for f in unit.functions if f.name == "print_digits" and f.uq.startswith("frg::_fmt_basics")]
    if not fs:
        raise AnalysisBroken("anchor vanished: _fmt_basics::print_digits")
    done = set()
    for f in fs:
        # the lambdas of print_digits capture the index by reference: analyse print_digits with them folded in
        from .inline import inline_variant
        fi = inline_variant(unit, f, lambda cal: cal.get("kind") == "op" and cal.get("op") == "()" and "print_digits" in (cal.get("uq") or ""), rounds=40)
        subs = [n for n in fi.events() if n.kind == "ArraySubscriptExpr" and path(n.children[0]) and path(n.children[0])[-1] == "grouping"]
        if not subs:
            raise AnalysisBroken("anchor vanished: subscripts of the grouping string in print_digits")
        idx = set()
        for n in subs:
            for x in n.children[1].walk():
                if x.kind == "DeclRefExpr" and x.get("local"):
                    idx.add(std_unwrap(x).d["d"] if std_unwrap(x).kind == "DeclRefExpr" else x.d["d"])
        key = f.sig.split("(")[0] + "<" + (f.params()[1]["t"] if len(f.params()) > 1 else "?") + ">"
        if key in done:
            continue
        done.add(key)
        bad = []
        CAP = 3

        def transfer(n, st, fi=fi):
            if n.kind == "UnaryOperator" and n.op in ("++", "--"):
                t = std_unwrap(n.children[0])
                if t.kind == "DeclRefExpr" and t.d["d"] in idx:
                    if n.op == "++":
                        return [min(st + 1, CAP)]
                    guarded = False
                    for cond, truth in flow.facts_at(fi, n.id):
                        rel = flow.fact_relation(cond, truth)
                        if rel is None:
                            continue
                        a_, op_, b_ = rel
                        ua, ub = std_unwrap(a_), std_unwrap(b_)
                        # 0 < g, 1 <= g, g != 0
                        if op_ == "<" and ua.cv() == 0 and ub.kind == "DeclRefExpr" and ub.d["d"] in idx:
                            guarded = True
                        if op_ == "<=" and ua.cv() == 1 and ub.kind == "DeclRefExpr" and ub.d["d"] in idx:
                            guarded = True
                        if op_ == "!=" and ((ua.cv() == 0 and ub.kind == "DeclRefExpr" and ub.d["d"] in idx) or
                                            (ub.cv() == 0 and ua.kind == "DeclRefExpr" and ua.d["d"] in idx)) and not (n.children[0].get("sgn")):
                            guarded = True
                    if guarded:
                        return [max(st - 1, 0)] if st < CAP else [CAP, CAP - 1]
                    if st == 0:
                        bad.append("index decremented at %s on a path where it is still at its start: grouping[-1] is read next" % n.loc)
                        return [0]
                    # a capped counter may stand for any larger value: stay conservative
                    return [st - 1] if st < CAP else [CAP, CAP - 1]
            if n.kind == "CompoundAssignOperator":
                t = std_unwrap(n.children[0])
                if t.kind == "DeclRefExpr" and t.d["d"] in idx:
                    bad.append("index changed by %s at %s" % (n.op, n.loc))
            return [st]
        flow.run(fi, [0], transfer, None, limit=100000)
        # increments only past an entry known non-zero
        for n in fi.events():
            if n.kind == "UnaryOperator" and n.op == "++":
                t = std_unwrap(n.children[0])
                if t.kind == "DeclRefExpr" and t.d["d"] in idx:
                    ok = False
                    for cond, truth in flow.facts_at(fi, n.id):
                        for x in cond.walk():
                            if x.kind == "ArraySubscriptExpr" and path(x.children[0]) and path(x.children[0])[-1] == "grouping" and "+" in canon(x.children[1]):
                                v = flow.sem_eval(cond, lambda y: 1 if y.strip().id == x.id or (y.strip().kind == "ArraySubscriptExpr" and canon(y.strip()) == canon(x)) else None)
                                if v is not None and bool(v) == truth:
                                    ok = True
                    if not ok:
                        bad.append("index advanced at %s without the next entry known to be non-zero (could run past the terminator)" % n.loc)
        ctx.inst(rule, key, not bad, f.loc, "; ".join(sorted(set(bad))[:3]) if bad else
                 "%d subscripts of grouping; index never below its start, advances only past non-zero entries" % len(subs), f)


def check_group_size_current(ctx, unit, rule="K.group-size-current"):
    """print_digits counts digits against the size of the CURRENT group, grouping[g], and g moves as groups are opened and
    closed.  A local that holds a value read from grouping[g] (directly or through the group_size closure) describes the
    group g pointed at when it was read: once g has moved it must not be used again without being read anew.  Decided on
    print_digits with its closures folded in, by a forward dataflow over the set of such locals that are still current."""
    ctx.rule(rule, "print_digits: a local read from grouping[g] is not used after the grouping index g moved (the size of a group "
             "is re-read for every group, it is not cached across groups)", 1)
    from .inline import inline_variant
    from .ir import value_leaves
    fs = [f for f in unit.functions if f.name == "print_digits" and f.uq.startswith("frg::_fmt_basics")]
    if not fs:
        raise AnalysisBroken("anchor vanished: _fmt_basics::print_digits")
    done = set()
    for f in fs:
        key = f.sig.split("(")[0] + "<" + (f.params()[1]["t"] if len(f.params()) > 1 else "?") + ">"
        if key in done:
            continue
        done.add(key)
        fi = inline_variant(unit, f, lambda cal: cal.get("kind") == "op" and cal.get("op") == "()" and "print_digits" in (cal.get("uq") or ""), rounds=40)
        subs = [n for n in fi.all_nodes() if n.kind == "ArraySubscriptExpr" and path(n.children[0]) and path(n.children[0])[-1] == "grouping"]
        idx = set()
        for n in subs:
            for x in n.children[1].walk():
                if x.kind == "DeclRefExpr" and x.get("local"):
                    idx.add(x.d["d"])
        if not subs or not idx:
            raise AnalysisBroken("anchor vanished: subscripts of the grouping string in print_digits")
        sub_ids = {n.id for n in subs if any(x.kind == "DeclRefExpr" and x.d.get("d") in idx for x in n.children[1].walk())
                   and not any(x.kind == "BinaryOperator" and x.op == "+" for x in [n.children[1]] + list(n.children[1].walk()))}
        inits = RA.local_inits(fi)
        derived = set()
        changed = True
        while changed:
            changed = False
            for d, init in inits.items():
                if d in derived or d in idx:
                    continue
                leaves = value_leaves(fi, init) or [init]
                if any(x.id in sub_ids or (x.kind == "DeclRefExpr" and x.d.get("d") in derived)
                       for l in leaves for x in [l] + list(l.walk())):
                    derived.add(d)
                    changed = True
        bad, uses = [], set()

        def transfer(n, st, fi=fi):
            if n.kind == "DeclStmt":
                for d in n.get("decls", []):
                    if d["d"] in derived:
                        st = st | {d["d"]}
                return [st]
            if n.kind in ("UnaryOperator", "CompoundAssignOperator", "BinaryOperator") and n.op in ("++", "--", "+=", "-=", "="):
                t = std_unwrap(n.children[0])
                if t.kind == "DeclRefExpr" and t.d.get("d") in idx:
                    return [frozenset()]
                if t.kind == "DeclRefExpr" and t.d.get("d") in derived and n.op == "=":
                    # re-read: current again if the new value is itself a current read
                    return [st | {t.d["d"]}]
            if n.kind == "DeclRefExpr" and n.d.get("d") in derived:
                par = fi.parent(n)
                if par is not None and par.kind == "BinaryOperator" and par.op == "=" and par.children[0].id == n.id:
                    return [st]
                uses.add(n.id)
                if n.d["d"] not in st:
                    bad.append("%s holds a size read from grouping[%s] and is used at %s after the index moved to another group" % (
                        n.n, "/".join(sorted({str(fi_n) for fi_n in [x.n for x in fi.all_nodes() if x.kind == "DeclRefExpr" and x.d.get("d") in idx][:1]})), n.loc))
            return [st]
        flow.run(fi, [frozenset()], transfer, None, limit=400000)
        ctx.inst(rule, key, not bad, f.loc, "; ".join(sorted(set(bad))[:2]) if bad else
                 "%d uses of %d locals read from grouping[g], each before g moves again" % (len(uses), len(derived)), f)


def const_bool_arg(n):
    x = std_unwrap(n)           # (through parameters of folded helpers and closures)
    if x.kind == "CXXBoolLiteralExpr":
        return bool(x.get("bv"))
    v = flow.const_fold(n.fn, n)
    return None if v is None else bool(v)


def check_pop_arg(ctx, unit):
    """printf's positional-argument cache (pop_arg): the cache index is a real position, and the count of
    arguments already pulled from the va_list never goes down (lowering it makes a later directive pull
    arguments the caller never supplied)."""
    ctx.rule("B.arg-cache-index", "pop_arg: every use of opts->arg_pos as an index into the argument cache is dominated by "
             "arg_pos != -1 (the 'no position' sentinel)", 3)
    ctx.rule("E.arg-count-monotone", "pop_arg: vsp->num_args is only incremented, or assigned under a test that the new value "
             "is larger (re-reading a lower position must not shrink the number of arguments already consumed)", 3)
    fs = [f for f in unit.functions if f.uq == "frg::pop_arg"]
    if not fs:
        raise AnalysisBroken("anchor vanished: pop_arg")
    for f in fs:
        ta = f.get("targs", "").strip("<>")
        # the requested position: opts->arg_pos, or a once-initialised local that holds it
        inits_ = RA.local_inits(f)
        snaps = {d for d, i in inits_.items() if std_unwrap(i).kind == "MemberExpr" and std_unwrap(i).m == "arg_pos" and not RA._reassigned(f, d)}
        snap_inits = {std_unwrap(inits_[d]).id for d in snaps}

        def is_pos(x):
            return (x.kind == "MemberExpr" and x.m == "arg_pos") or (x.kind == "DeclRefExpr" and x.get("local") and x.d["d"] in snaps)
        uses = [n for n in f.events() if is_pos(n) and n.id not in snap_inits]
        bad = []
        nidx = 0
        for n in uses:
            # is this read inside a condition? then it is the test itself
            par = f.parent(n)
            inside_cond = False
            q = n
            hops = 0
            while q is not None and hops < 12:
                if any(b.cond == q.id for b in f.blocks.values()):
                    inside_cond = True
                q = f.parent(q)
                hops += 1
            if inside_cond:
                # loop bound `i <= arg_pos` counts as an index use too, but it is harmless when arg_pos is -1
                continue
            nidx += 1
            ok = False
            for cond, truth in flow.facts_at(f, n.id):
                c, t = cond.strip(), truth
                while c.kind == "UnaryOperator" and c.op == "!":
                    c, t = c.children[0].strip(), not t
                if c.kind == "BinaryOperator" and c.op in ("==", "!=") and any(is_pos(x) for x in c.walk()):
                    k = [x.strip().cv() if not is_pos(x.strip()) else None for x in c.children]
                    if -1 in k and ((c.op == "==" and not t) or (c.op == "!=" and t)):
                        ok = True
                if c.kind == "BinaryOperator" and c.op in (">=", ">") and t and any(is_pos(x) for x in c.children[0].walk()):
                    ok = True
            if not ok:
                bad.append(n.loc)
        ctx.inst("B.arg-cache-index", "frg::pop_arg<%s>" % ta, not bad and nidx > 0, bad[0] if bad else f.loc,
                 ("arg_pos is used as a cache position at %s without having been compared against -1" % bad[0]) if bad else
                 "%d index uses, all under arg_pos != -1" % nidx, f)
        bad = []
        nw = 0
        for n in f.events():
            w = write_of(n)
            if not (w and w[0] and w[0][-1] == "num_args"):
                continue
            nw += 1
            if n.kind == "UnaryOperator" and n.op == "++":
                continue
            if n.kind == "BinaryOperator" and n.op == "=":
                # the new value is at least the old one: as linear forms over the count and the position, with once-
                # initialised locals expanded (`pos = num_args; num_args = pos + 1`) and the dominating comparisons as
                # hypotheses (`if(!(wanted < num_args)) num_args = wanted + 1`)
                ok = _grows(f, n.children[1], "num_args")
                if not ok:
                    bad.append(n.loc)
        ctx.inst("E.arg-count-monotone", "frg::pop_arg<%s>" % ta, not bad and nw > 0, bad[0] if bad else f.loc,
                 ("num_args is overwritten at %s without a test that it grows: a directive naming a lower position shrinks "
                  "the count and the next positional directive reads past the supplied arguments" % bad[0]) if bad else
                 "%d writes of num_args, all increments or guarded" % nw, f)


def _grows(f, new_value, field):
    """new_value >= current value of the field `field`, provably: difference of linear forms is a non-negative constant,
    possibly after subtracting a form that a dominating comparison makes non-negative."""
    from .poly import Poly, to_poly
    from . import rules_atomic as RA
    inits = RA.local_inits(f)

    def leaf(x, depth=0):
        x = std_unwrap(x)
        if x.kind == "DeclRefExpr" and x.get("local"):
            d = x.d["d"]
            if d in inits and not RA._reassigned(f, d) and depth < 6:
                r = to_poly(inits[d], lambda y: leaf(y, depth + 1))
                if r is not None:
                    return r
            return Poly.sym("v#%d" % d)
        if x.kind == "MemberExpr":
            return Poly.sym("." + x.m)
        if x.kind in ("ImplicitCastExpr", "CStyleCastExpr", "CXXStaticCastExpr", "ParenExpr") and x.children:
            return to_poly(x.children[0], lambda y: leaf(y, depth))
        return Poly.sym("e:" + canon(x))
    T = to_poly(new_value, leaf)
    if T is None:
        return False
    T = T - Poly.sym("." + field)

    def const_nonneg(p_):
        return all(k == () for k in p_.t) and p_.t.get((), 0) >= 0
    if const_nonneg(T):
        return True
    for cond, truth in flow.facts_at(f, new_value.id if new_value.id in f.positions() else f.parent(new_value).id):
        rel = flow.fact_relation(cond, truth)
        if rel is None:
            continue
        a, op, b = rel
        pa, pb = to_poly(a, leaf), to_poly(b, leaf)
        if pa is None or pb is None:
            continue
        forms = [pb - pa - Poly.const(1)] if op == "<" else [pb - pa] if op == "<=" else [pb - pa, pa - pb] if op == "==" else []
        for F in forms:
            if const_nonneg(T - F):
                return True
    return False


# ---- T.field-layout: the integer field is laid out as ISO C prescribes (structural clauses) ------------------------------

def _char_may_be_zero(f, call, arg):
    """May the character appended by `call` be '0'?  Literals decide themselves; a variable needs a dominating decision that
    excludes '0' (directly, or through a once-initialised bool local that holds the comparison)."""
    from . import rules_atomic as RA
    hops = 0
    while std_unwrap(arg).kind == "DeclRefExpr" and std_unwrap(arg).d.get("d") in f.bind_map() and hops < 6:
        # the character is the parameter of a folded helper (append_repeated(sink, c, n)): what it was bound to
        arg, hops = f.node(f.bind_map()[std_unwrap(arg).d["d"]]), hops + 1
    if std_unwrap(arg).kind == "ConditionalOperator":
        arg = std_unwrap(arg)          # (std_unwrap looks through parameter bindings of folded helpers)
    for v, facts in flow.value_arms(f, arg, call):
        x = std_unwrap(v)
        c = x.cv() if x.kind not in ("DeclRefExpr", "MemberExpr") else None
        if c is not None:
            if c == ord("0"):
                return True
            continue
        excluded = False
        for cond, truth in list(facts) + list(flow.facts_at(f, call.id)):
            c_, t_ = cond.strip(), truth
            while c_.kind == "UnaryOperator" and c_.op == "!":
                c_, t_ = c_.children[0].strip(), not t_
            c_ = std_unwrap(RA.resolve_local(f, c_))
            while c_.kind == "UnaryOperator" and c_.op == "!":
                c_, t_ = c_.children[0].strip(), not t_
            if c_.kind == "BinaryOperator" and c_.op in ("==", "!="):
                l, r = c_.children[0].strip(), c_.children[1].strip()
                for a, b in ((l, r), (r, l)):
                    if canon(std_unwrap(a)) == canon(x) and b.cv() == ord("0") and ((c_.op == "!=") == t_):
                        excluded = True
        if not excluded:
            return True
    return False


def check_field_layout(ctx, unit):
    """Structural clauses of the ISO C layout of an integer field, [spaces][sign][prefix][zeros]digits[spaces]:
    (W) every path of an integer conversion hands its argument to the field routine (an explicit precision of zero with the
        value zero suppresses the digits, not the field);
    (Z) the '0' flag reaches the field routine as zero padding only when no precision was given;
    (S) the '+' and ' ' flags reach it only for the signed conversions;
    (L) inside the field routine: the length compared with the width depends on the sign; characters that may be '0' are
        appended as padding only after the sign and before the digits."""
    from . import rules_atomic as RA
    ctx.rule("T.field-layout", "integer fields are laid out as ISO C prescribes: every path of a conversion reaches the field routine; "
             "'0' padding only without a precision; '+'/' ' only for signed conversions; the width accounts for the sign; zero "
             "padding sits between the sign and the digits and never to the right of a left-justified field", 4)
    fs = unit.fns(uq="frg::do_printf_ints")
    if not fs:
        raise AnalysisBroken("anchor vanished: do_printf_ints")
    by_did = {g.did: g for g in unit.functions}
    FIELD = ("print_int", "print_digits")
    for f in fs:
        # (W)
        def transfer(n, st):
            if n.kind == "CallExpr" and n.callee and n.callee["uq"] == "frg::pop_arg" and not n.get("inlined"):
                return ["popped"]
            if n.is_call() and n.callee and n.callee["n"] in FIELD and not n.get("inlined"):
                return ["printed"]
            return [st]
        _, ex = flow.run(f, ["none"], transfer, None)
        ctx.inst("T.field-layout", "frg::do_printf_ints: every conversion path reaches the field routine", "popped" not in ex, f.loc,
                 "a path pops the argument and returns without calling print_int: the field (width padding, sign) is dropped with the digits"
                 if "popped" in ex else "every path that pops an argument prints a field", f)
        calls = [n for n in f.all_nodes() if n.is_call() and n.callee and n.callee["n"] == "print_int" and not n.get("inlined")]
        if not calls:
            raise AnalysisBroken("anchor vanished: print_int calls in do_printf_ints")
        bad_z, bad_s = [], []
        for c in calls:
            g = by_did.get(c.callee.get("did"))
            if g is None:
                continue
            names = [p_["n"] for p_ in g.params()]
            args = c.args
            def arg_of(nm):
                return args[names.index(nm)] if nm in names and names.index(nm) < len(args) else None
            pa = arg_of("padding")
            if pa is not None and pa.kind != "CXXDefaultArgExpr":
                v = RA.resolve_local(f, std_unwrap(pa))
                for val, facts in flow.value_arms(f, v, c):
                    x = std_unwrap(val)
                    cv_ = x.cv() if x.kind not in ("DeclRefExpr", "MemberExpr") else None
                    if cv_ == ord("0"):
                        no_prec = False
                        for cond, truth in facts:
                            c_, t_ = cond.strip(), truth
                            while c_.kind == "UnaryOperator" and c_.op == "!":
                                c_, t_ = c_.children[0].strip(), not t_
                            if not t_ and any(y.kind == "MemberExpr" and y.m == "precision" for y in c_.walk()) \
                                    and not any(y.kind == "BinaryOperator" and y.op in ("&&", "||") for y in c_.walk()):
                                no_prec = True
                        if not no_prec:
                            bad_z.append(c.loc)
            num = arg_of("number")
            unsigned_conv = num is not None and (num.strip().get("sgn") is False)
            if unsigned_conv:
                for nm in ("always_sign", "plus_becomes_space"):
                    a = arg_of(nm)
                    if a is not None and a.kind != "CXXDefaultArgExpr" and flow.const_fold(f, a) != 0:
                        bad_s.append("%s at %s" % (nm, c.loc))
        ctx.inst("T.field-layout", "frg::do_printf_ints: '0' padding only without a precision", not bad_z, (bad_z[0] if bad_z else f.loc),
                 ("the padding character handed to print_int at %s is '0' although a precision may be given (ISO C: the 0 flag is then "
                  "ignored)" % bad_z[0]) if bad_z else "zero padding is selected only where no precision is engaged", f)
        ctx.inst("T.field-layout", "frg::do_printf_ints: sign flags for signed conversions only", not bad_s, f.loc,
                 ("unsigned conversion passes %s: '+' / ' ' would print a sign for an unsigned value" % bad_s[0]) if bad_s else
                 "unsigned conversions pass constant false for both sign flags", f)
    # (L) inside print_digits
    seen = set()
    n_l = 0
    for f in unit.functions:
        if f.name != "print_digits" or not f.uq.startswith("frg::_fmt_basics"):
            continue
        key = f.params()[1]["t"] if len(f.params()) > 1 else f.sig
        if key in seen:
            continue
        seen.add(key)
        wp = [p_ for p_ in f.params() if p_["n"] == "width"]
        if not wp:
            raise AnalysisBroken("anchor vanished: width parameter of print_digits")
        cyc = set()
        from .rules_own import in_cycle_blocks
        cyc = in_cycle_blocks(f)
        pos = f.positions()
        appends = [n for n in f.events() if n.kind == "CXXMemberCallExpr" and n.callee and n.callee["n"] == "append" and n.args
                   and not (n.args[0].get("t") or "").rstrip().endswith("*") and n.id in pos]
        digit_ev = [n for n in appends if std_unwrap(n.args[0]).kind == "ArraySubscriptExpr"]

        inits0 = RA.local_inits(f)

        def values_of(x, depth=0):
            """constants an expression may evaluate to (None in the set: something else): through locals (initialiser and
            assignments), parameters of folded helpers, conditional arms and the returns of folded helpers"""
            if depth > 8:
                return {None}
            x = x.strip()
            if x.d.get("inlined") and x.d.get("rets"):
                out = set()
                for r_ in x.d["rets"]:
                    out |= values_of(f.node(r_), depth + 1)
                return out
            if x.kind == "ConditionalOperator" and len(x.children) == 3:
                return values_of(x.children[1], depth + 1) | values_of(x.children[2], depth + 1)
            if x.kind == "DeclRefExpr":
                bm = f.bind_map()
                if x.d["d"] in bm:
                    return values_of(f.node(bm[x.d["d"]]), depth + 1)
                if x.get("local"):
                    out = set()
                    if x.d["d"] in inits0:
                        out |= values_of(inits0[x.d["d"]], depth + 1)
                    for w in f.all_nodes():
                        if w.kind == "BinaryOperator" and w.op == "=" and w.children[0].strip().kind == "DeclRefExpr" \
                                and w.children[0].strip().d["d"] == x.d["d"]:
                            out |= values_of(w.children[1], depth + 1)
                    return out or {None}
                return {None}
            c = x.cv()
            if c is not None:
                return {c}
            if x.kind in ("ImplicitCastExpr", "ParenExpr", "CStyleCastExpr", "CXXStaticCastExpr", "CXXFunctionalCastExpr") and x.children:
                return values_of(x.children[0], depth + 1)
            return {None}

        def is_sign(n):
            return ord("-") in values_of(n.args[0])
        sign_ev = [n for n in appends if is_sign(n)]

        def refs_of(cond):
            """declarations a condition depends on, through once-initialised locals and parameters of folded helpers"""
            out, work, hops = set(), [y for y in cond.walk() if y.kind == "DeclRefExpr"], 0
            bm = f.bind_map()
            while work and hops < 400:
                y = work.pop(); hops += 1
                d = y.d["d"]
                if d in out:
                    continue
                out.add(d)
                if d in bm:
                    work += [z for z in f.node(bm[d]).walk() if z.kind == "DeclRefExpr"]
                elif d in inits0:
                    work += [z for z in inits0[d].walk() if z.kind == "DeclRefExpr"]
            return out
        # padding events: character appends inside a loop whose dominating decisions depend on the width
        def mentions_width(n):
            for cond, truth in flow.facts_at(f, n.id):
                if wp[0]["d"] in refs_of(cond):
                    return True
            return False
        pad_ev = [n for n in appends if pos[n.id][0] in cyc and n not in digit_ev and not is_sign(n) and mentions_width(n)]
        if not sign_ev or not digit_ev or not pad_ev:
            raise AnalysisBroken("anchor vanished: sign / digit / padding output of print_digits (%d/%d/%d)" % (len(sign_ev), len(digit_ev), len(pad_ev)))
        problems = []
        # the length compared with the width depends on the sign: the variables that decide the sign character (the local
        # that is appended, and what its assignments are decided by -- or, for literal signs, their innermost decisions) must
        # be among what the length side of a `length < width` decision is computed from
        signdeps = set()
        for s_ in sign_ev:
            x = s_.args[0].strip()
            if x.kind == "DeclRefExpr":
                sd_ = x.d["d"]
                signdeps.add(sd_)
                for y in f.all_nodes():
                    if y.kind == "BinaryOperator" and y.op == "=" and std_unwrap(y.children[0]).kind == "DeclRefExpr" \
                            and std_unwrap(y.children[0]).d.get("d") == sd_:
                        for cond, truth in flow.facts_at(f, y.id):
                            # (the flags that select the sign are bool parameters; an int that merely dominates the
                            # assignment, such as the precision of an earlier loop, does not decide it)
                            signdeps |= {z.d["d"] for z in cond.walk() if z.kind == "DeclRefExpr" and z.get("dk") == "ParmVar"
                                         and (z.get("t") or "").replace("const ", "") in ("bool", "_Bool")}
                if sd_ in inits0:
                    signdeps |= refs_of(inits0[sd_])
            else:
                facts_ = flow.facts_at(f, s_.id)
                for cond, truth in facts_[-2:]:
                    signdeps |= {z.d["d"] for z in cond.walk() if z.kind == "DeclRefExpr"}
        signdeps.discard(wp[0]["d"])
        lenvars = set()
        for p_ in pad_ev:
            for cond, truth in flow.facts_at(f, p_.id):
                rs = refs_of(cond)
                if wp[0]["d"] in rs:
                    lenvars |= rs
        import os as _os
        if _os.environ.get("FRG_DEBUG_LAYOUT"):
            nm = {}
            for y in f.all_nodes():
                if y.kind == "DeclRefExpr":
                    nm[y.d["d"]] = y.d.get("n")
            print("DEBUG lenvars", sorted(str(nm.get(d, d)) for d in lenvars), "signdeps", sorted(str(nm.get(d, d)) for d in signdeps))
        if not (lenvars & signdeps):
            problems.append("the length compared with the width does not depend on whether a sign is printed: a signed field is one "
                            "character wider than asked for")
        for p_ in pad_ev:
            if not _char_may_be_zero(f, p_, p_.args[0]):
                continue
            if any(f.reaches(p_.id, s_.id) for s_ in sign_ev):
                problems.append("padding that may be '0' is appended at %s before the sign (000-7 instead of -0007)" % p_.loc)
            elif not any(f.reaches(p_.id, d_.id) for d_ in digit_ev):
                problems.append("padding that may be '0' is appended at %s behind the digits of a left-justified field" % p_.loc)
        n_l += 1
        ctx.inst("T.field-layout", "frg::_fmt_basics::print_digits<%s>: sign, zero padding and width" % key, not problems, f.loc,
                 "; ".join(sorted(set(problems))[:3]) if problems else
                 "the width accounts for the sign; possibly-zero padding sits between sign and digits only", f)
    if n_l == 0:
        raise AnalysisBroken("anchor vanished: print_digits")


def check_star_width(ctx, unit, rule="B6.star-width-nonneg"):
    """A '*' width comes from the argument list and may be any int.  ISO C reads a negative one as the '-' flag plus its
    magnitude; the conversions compute `width - 1`, `width - length` in int.  Per path of printf_format: after the width
    has been assigned from pop_arg<int>, it reaches the agent only through a test `width < 0` whose true arm re-assigns it
    (to its magnitude) -- so no conversion ever sees a negative width."""
    ctx.rule(rule, "printf_format hands a '*' width on only after normalising a negative value (the '-' flag plus the magnitude): "
             "the conversions' width arithmetic never starts from a negative int", 1)
    fs = unit.fns(uq="frg::printf_format")
    if not fs:
        raise AnalysisBroken("anchor vanished: printf_format")
    from .rules_guard import write_of
    for f in fs[:1]:
        n_star = [0]
        bad = []

        # the popped value may rest in a local first (`const int width_arg = pop_arg<int>(...)`): a local that is initialised
        # from pop_arg and from which the width field is assigned stands for the width until then
        from . import rules_atomic as RA_
        holders_ = set()
        for d_, i_ in RA_.local_inits(f).items():
            iv = std_unwrap(i_)
            if iv.kind == "CallExpr" and iv.callee and iv.callee["uq"] == "frg::pop_arg":
                for y in f.events():
                    wy = write_of(y) if y.kind == "BinaryOperator" else None
                    if wy and wy[0] and wy[0][-1] == "minimum_width" and wy[1] is not None and \
                            any(z.kind == "DeclRefExpr" and z.d.get("d") == d_ for z in wy[1].walk()):
                        holders_.add(d_)

        def is_width(x):
            p_ = path(x)
            if bool(p_) and p_[-1] == "minimum_width":
                return True
            xs = std_unwrap(x)
            return xs.kind == "DeclRefExpr" and xs.d.get("d") in holders_

        def transfer(n, st):
            if n.kind == "DeclStmt" and any(d_.get("d") in holders_ for d_ in n.get("decls", [])):
                n_star[0] += 1
                return ["raw"]
            if n.kind == "BinaryOperator" and n.op == "=" and std_unwrap(n.children[0]).kind == "DeclRefExpr" \
                    and std_unwrap(n.children[0]).d.get("d") in holders_:
                # the popped value normalised in place (`if(width < 0) { ...; width = -width; }`)
                return ["ok" if st in ("neg", "ok") else st] if st != "raw" else ["raw"]
            w = write_of(n) if n.kind in ("BinaryOperator", "CompoundAssignOperator") else None
            if w and w[0] and w[0][-1] == "minimum_width" and w[1] is not None:
                v = std_unwrap(w[1])
                if v.kind == "CallExpr" and v.callee and v.callee["uq"] == "frg::pop_arg":
                    n_star[0] += 1
                    return ["raw"]
                if v.kind == "DeclRefExpr" and v.d.get("d") in holders_:
                    return [st]         # a plain copy of the popped value: as tested (or untested) as the value is
                return ["ok" if st in ("neg",) or st == "ok" else st] if st != "raw" else ["raw"]
            if st in ("raw", "neg") and n.is_call() and n.kind == "CXXOperatorCallExpr" and n.callee and n.callee.get("op") == "()" \
                    and len(n.args) >= 3:
                bad.append(n.loc)
            return [st]

        def refine(cond, truth, st):
            if st != "raw":
                return [st]
            rel = flow.fact_relation(cond, truth)
            if rel is None:
                return [st]
            a, op, b = rel
            # width < 0  (true: negative, must be re-assigned; false: fine)
            if op == "<" and is_width(a) and b.strip().cv() == 0:
                return ["neg"]
            if op == "<=" and is_width(b) and a.strip().cv() == 0:
                return ["ok"]
            return [st]
        flow.run(f, ["ok"], transfer, refine)
        if n_star[0] == 0:
            raise AnalysisBroken("anchor vanished: '*' width popped in printf_format")
        ctx.inst(rule, "frg::printf_format: '*' width", not bad, (bad[0] if bad else f.loc),
                 ("the agent is called at %s with a width taken from the argument list that was never tested for being negative" % bad[0])
                 if bad else "a negative '*' width is re-assigned before any conversion sees it", f)


# ---- every directive starts from fresh options -------------------------------------------------------------------------

def check_directive_state(ctx, unit, rule="I.directive-options-fresh", sticky=("dollar_arg_pos",)):
    """ISO C: flags, width, precision and conversion belong to ONE directive; the only thing a directive inherits from the
    ones before it is positional mode.  In printf_format the options object the agent receives is therefore either declared
    inside the directive loop (a fresh object per directive), or every field of format_options that the parser writes at all,
    other than the positional-mode flag, is assigned on every path from the head of the loop to each call of the agent (a must-assigned analysis over the
    loop body, restarted at the loop head)."""
    ctx.rule(rule, "printf_format: the options handed to the agent are a fresh object per directive, or every field except the "
             "positional-mode flag is re-assigned on every path from the loop head to the agent (no width, precision or flag of an "
             "earlier directive survives into the next)", 1)
    fs = unit.fns(uq="frg::printf_format")
    if not fs:
        raise AnalysisBroken("anchor vanished: printf_format")
    recs = [r for r in unit.records if r["uq"] == "frg::format_options"]
    if not recs:
        raise AnalysisBroken("anchor vanished: record frg::format_options")
    fields = [fl["n"] for fl in recs[0]["fields"]]
    for f in fs[:1]:
        agent_calls = [n for n in f.events() if n.is_call() and n.kind == "CXXOperatorCallExpr" and n.callee and n.callee.get("op") == "()"
                       and len(n.args) >= 3]
        if not agent_calls:
            raise AnalysisBroken("anchor vanished: agent calls in printf_format")
        loops = [lp for lp in flow.natural_loops(f) if all(lp.contains(c) for c in agent_calls)]
        if not loops:
            raise AnalysisBroken("anchor vanished: directive loop of printf_format")
        lp = max(loops, key=lambda l: len(l.body))
        # the options objects the agent receives
        odids = set()
        for c in agent_calls:
            for a in c.args:
                x = std_unwrap(a)
                for y in x.walk():
                    if y.kind == "DeclRefExpr" and y.get("local") and "format_options" in (y.get("t") or ""):
                        odids.add(y.d["d"])
        if not odids:
            raise AnalysisBroken("anchor vanished: format_options argument of the agent calls")
        bad = []
        for od in sorted(odids):
            decl = [n for n in f.all_nodes() if n.kind == "DeclStmt" and any(d.get("d") == od for d in n.get("decls", []))]
            if decl and lp.contains(decl[0]):
                continue        # declared in the loop: constructed anew for each directive

            def gen(n, od=od):
                out = set()
                tgt = None
                if n.kind in ("BinaryOperator",) and n.op == "=":
                    tgt = n.children[0]
                elif n.kind == "CXXOperatorCallExpr" and n.callee and n.callee.get("op") == "=" and n.args:
                    tgt = n.args[0]
                elif n.kind == "CXXMemberCallExpr" and n.callee and n.callee["n"] in ("reset", "emplace") and n.child("obj") is not None:
                    tgt = n.child("obj")
                if tgt is None:
                    return out
                t = std_unwrap(tgt)
                if t.kind == "MemberExpr" and t.children:
                    b = std_unwrap(t.children[0])
                    if b.kind == "DeclRefExpr" and b.d.get("d") == od:
                        out.add(t.get("m"))
                elif t.kind == "DeclRefExpr" and t.d.get("d") == od:
                    out |= set(fields)
                return out
            # must-assigned over the loop body, IN[header] = {}
            allf = frozenset(fields)
            gens = {b: [(n, gen(n)) for n in f.blocks[b].nodes()] for b in lp.body}
            OUT = {b: allf for b in lp.body}
            at_call = {}
            changed, rounds = True, 0
            while changed and rounds < 500:
                changed, rounds = False, rounds + 1
                for b in sorted(lp.body):
                    if b == lp.header:
                        cur = set()
                    else:
                        ps = [p for p in f.blocks[b].preds if p in lp.body]
                        cur = set(allf)
                        for p in ps:
                            cur &= OUT[p]
                        if not ps:
                            cur = set()
                    for n, g in gens[b]:
                        if any(n.id == c.id for c in agent_calls):
                            at_call[n.id] = frozenset(cur)
                        cur |= g
                    if OUT[b] != frozenset(cur):
                        OUT[b], changed = frozenset(cur), True
            for c in agent_calls:
                if not any(y.kind == "DeclRefExpr" and y.d.get("d") == od for a in c.args for y in a.walk()):
                    continue
                # (a field the parser never writes keeps its constructed value: nothing can leak through it)
                touched = set()
                for b in lp.body:
                    for _n, g in gens[b]:
                        touched |= g
                miss = [x for x in fields if x in touched and x not in at_call.get(c.id, frozenset()) and x not in sticky]
                if miss:
                    bad.append("the options object lives across directives and %s %s not re-assigned on every path to the agent call at %s"
                               % (", ".join(miss), "is" if len(miss) == 1 else "are", c.loc))
        ctx.inst(rule, "frg::printf_format", not bad, f.loc, sorted(set(bad))[0] + ": an earlier directive's value leaks into this one" if bad else
                 "%d agent call(s); the options object is declared inside the directive loop" % len(agent_calls), f)


# ---- %.Ns reads at most N characters ----------------------------------------------------------------------------------

def check_strnlen_bounded(ctx, unit, rule="B.strnlen-bounded"):
    """ISO C lets the argument of %.Ns be an array without a terminator as long as the precision does not exceed it:
    do_printf_chars measures it with generic_strnlen(s, precision), so that function reads a character only after it has
    established that fewer than `max` characters were read -- every dereference or subscript of its pointer parameter is
    dominated by a test `counter < max` that holds."""
    ctx.rule(rule, "generic_strnlen reads a character of its argument only under a dominating test `n < max` (max = its bound "
             "parameter): it never touches the character at index max", 1)
    fs = [f for f in unit.functions if f.uq == "frg::generic_strnlen"]
    if not fs:
        raise AnalysisBroken("anchor vanished: frg::generic_strnlen (instantiated by do_printf_chars)")
    for f in fs[:1]:
        ps = f.params()
        if len(ps) != 2:
            raise AnalysisBroken("anchor vanished: generic_strnlen(pointer, bound) signature")
        cp, mx = ps[0]["d"], ps[1]["d"]
        reads = []
        for n in f.events():
            if (n.kind == "UnaryOperator" and n.op == "*") or n.kind == "ArraySubscriptExpr":
                b = n.children[0]
                if any(y.kind == "DeclRefExpr" and y.d.get("d") == cp for y in b.walk()):
                    reads.append(n)
        if not reads:
            # the scan is delegated to a library routine: bounded when that routine is handed a count made from `max`
            from .rules_bytes import bytewise_calls
            dele = [c for c in bytewise_calls(f) if any(y.kind == "DeclRefExpr" and y.d.get("d") == cp for y in c[0].args[0].walk())]
            if not dele:
                raise AnalysisBroken("anchor vanished: character reads in generic_strnlen")
            bad = ["%s() at %s is not handed a count made from `%s`" % (c[1], c[0].loc, ps[1]["n"]) for c in dele
                   if len(c[0].args) < 2 or not any(y.kind == "DeclRefExpr" and y.d.get("d") == mx for y in c[0].args[-1].walk())]
            ctx.inst(rule, "frg::generic_strnlen", not bad, f.loc, "; ".join(bad[:2]) if bad else
                     "the scan is delegated to %s() with a count made from `max`" % dele[0][1], f)
            continue
        bad = []
        for n in reads:
            ok = False
            for cond, truth in flow.facts_at(f, n.id):
                rel = flow.fact_relation(cond, truth)
                if rel is not None and rel[1] == "<" and std_unwrap(rel[2]).kind == "DeclRefExpr" and std_unwrap(rel[2]).d.get("d") == mx:
                    ok = True
            if not ok:
                bad.append("the character read at %s is not dominated by a test `n < %s`" % (n.loc, ps[1]["n"]))
        ctx.inst(rule, "frg::generic_strnlen", not bad, f.loc, "; ".join(bad[:2]) + ": for an array of exactly `max` characters without a "
                 "terminator this reads one element past it" if bad else "%d character read(s), each under `n < max`" % len(reads), f)
