"""L — lockset / guard typestate analysis over the event CFG.

State: (frozenset of (guard var key, mutex path, locked?), frozenset of fresh locals).
Guards are the classes of props.GUARD_TABLE whose own conformance is decided by
rule G; here their constructors/lock()/unlock()/destructor are transfer functions.
"""
from .ir import path, canon, std_unwrap, AnalysisBroken
from . import flow
from .rules_guard import write_of
from . import rules_atomic as RA

GUARD_CLASSES = ("frg::unique_lock", "frg::shared_lock", "frg::lock_guard")
TOP = "<unknown>"


def guard_ctor_state(ce):
    """CXXConstructExpr of a guard class -> (mutex path or None, locked) or TOP."""
    cal = ce.callee
    if not cal:
        return TOP
    pt = cal.get("ptypes", [])
    args = ce.args
    if cal.get("default") or not pt:
        return (None, False)
    if cal.get("move") or cal.get("copy"):
        return TOP
    mp = None
    for a, t in zip(args, pt):
        if "dont_lock_t" in t or "adopt_lock_t" in t:
            continue
        mp = path(a)
    if any("dont_lock_t" in t for t in pt):
        return (mp, False)
    if any("adopt_lock_t" in t for t in pt):
        return (mp, True)
    if len(pt) == 1:
        return (mp, True)
    return TOP


class LockAnalysis:
    """Runs the lockset analysis on one function and lets rules observe every
    CFG element together with the set of abstract states that reach it."""

    def __init__(self, fn, fresh_sources=(), publish_ok=()):
        self.fn = fn
        self.fresh_sources = set(fresh_sources)   # callee uq names whose result is an unpublished object
        self.publish_ok = set(publish_ok)         # method names callable on a fresh object without publishing it
        self.at = {}                              # node id -> set of states
        self.problems = []
        self._run()

    def _decl_of(self, n):
        n = std_unwrap(n)
        if n.kind == "DeclRefExpr" and n.get("local"):
            return n.d["d"]
        return None

    def _transfer(self, n, s):
        guards, fresh = s
        self.at.setdefault(n.id, set()).add(s)
        k = n.kind
        if k == "DeclStmt":
            for d in n.get("decls", []):
                if d.get("rt") in GUARD_CLASSES:
                    init = self.fn.node(d["init"]).strip() if "init" in d else None
                    st = TOP
                    if init is not None and init.kind in ("CXXConstructExpr", "CXXTemporaryObjectExpr"):
                        st = guard_ctor_state(init)
                        # guard(g) = frg::guard(&m) style: elided copy of a call result
                        if st is TOP and init.args:
                            inner = init.args[0].strip()
                            if inner.kind == "CallExpr" and inner.callee and inner.callee["uq"] == "frg::guard":
                                init = inner
                    if init is not None and init.kind == "CallExpr" and init.callee and init.callee["uq"] == "frg::guard":
                        pt = init.callee.get("ptypes", [])
                        mp = path(init.args[-1]) if init.args else None
                        st = (mp, not any("dont_lock_t" in t for t in pt))
                    if st is TOP:
                        self.problems.append("guard %s initialised in a way the analysis does not model at %s" % (d["n"], n.loc))
                        st = (TOP, None)
                    guards = frozenset(g for g in guards if g[0] != d["d"]) | {(d["d"], st[0], st[1])}
                elif "init" in d:
                    init = self.fn.node(d["init"]).strip()
                    if (init.is_call() and init.callee and init.callee["uq"] in self.fresh_sources) \
                            or init.kind == "CXXNewExpr":
                        fresh = fresh | {d["d"]}
            return [(guards, fresh)]
        if k == "CXXMemberCallExpr" and n.callee and n.callee.get("cls") in GUARD_CLASSES:
            obj = n.child("obj")
            did = self._decl_of(obj) if obj is not None else None
            nm = n.callee["n"]
            if did is not None and nm in ("lock", "unlock"):
                cur = [g for g in guards if g[0] == did]
                if not cur:
                    self.problems.append("guard method on a variable the analysis does not track at %s" % n.loc)
                    return [(guards, fresh)]
                g = cur[0]
                want = (nm == "lock")
                if g[2] is None:
                    new = (g[0], g[1], want)
                elif g[2] == want:
                    # lock() on a locked guard / unlock() on an unlocked one: FRG_ASSERT traps
                    self.problems.append("%s() on a guard that is already %s at %s" % (
                        nm, "locked" if want else "unlocked", n.loc))
                    return []
                else:
                    new = (g[0], g[1], want)
                guards = (guards - {g}) | {new}
                return [(guards, fresh)]
        if k == "AutoDtor" and n.get("rt") in GUARD_CLASSES:
            guards = frozenset(g for g in guards if g[0] != n.d["d"])
            return [(guards, fresh)]
        # a local that is (re)assigned the result of a fresh source holds an unpublished object from there on; assigned
        # anything else it no longer does (`if(auto slb = head; slb) ... else { slb = _construct_slab(index); ... }`)
        if k == "BinaryOperator" and n.op == "=":
            l = n.children[0].strip()
            if l.kind == "DeclRefExpr" and l.get("local"):
                r = n.children[1].strip()
                if (r.is_call() and r.callee and r.callee["uq"] in self.fresh_sources) or r.kind == "CXXNewExpr":
                    return [(guards, fresh | {l.d["d"]})]
                if l.d["d"] in fresh:
                    fresh = fresh - {l.d["d"]}
        # publication of fresh objects: passed as an argument or stored somewhere
        if fresh:
            if n.is_call():
                for a in n.args:
                    did = self._decl_of(a)
                    if did in fresh:
                        fresh = fresh - {did}
            w = write_of(n)
            if w and w[1] is not None:
                did = self._decl_of(w[1])
                if did in fresh:
                    fresh = fresh - {did}
            if k == "ReturnStmt":
                v = n.child("val")
                did = self._decl_of(v) if v is not None else None
                if did in fresh:
                    fresh = fresh - {did}
        return [(guards, fresh)]

    def _run(self):
        init = (frozenset(), frozenset())
        self.ins, self.exit_states = flow.run(self.fn, [init], self._transfer, None)

    @staticmethod
    def lockset(state):
        return {g[1] for g in state[0] if g[2] is True}

    @staticmethod
    def maybe_lockset(state):
        return {g[1] for g in state[0] if g[2] is not False}


# ---- summaries over the call graph -------------------------------------------

def call_targets(unit, n):
    """Resolved callee Fn (in this unit) of a call element, if any."""
    c = n.callee
    if not c:
        return None
    return unit.by_did.get(c["did"])


def reach_summary(unit, fns, is_seed):
    """Set of function dids (among fns) from which a call satisfying is_seed(node) is reachable."""
    direct = set()
    calls = {}
    for f in fns:
        cs = []
        for n in f.events():
            if n.is_call() or n.kind in ("AutoDtor", "TempDtor"):
                if is_seed(n):
                    direct.add(f.did)
                t = call_targets(unit, n)
                if t is not None:
                    cs.append(t.did)
        calls[f.did] = cs
    reach = set(direct)
    changed = True
    while changed:
        changed = False
        for f in fns:
            if f.did not in reach and any(c in reach for c in calls[f.did]):
                reach.add(f.did)
                changed = True
    return reach


def acquire_summary(unit, fns):
    """did -> set of mutex classes (last path component) acquired inside, transitively."""
    own = {}
    calls = {}
    for f in fns:
        acq = set()
        cs = []
        for n in f.events():
            if n.kind in ("CXXConstructExpr", "CXXTemporaryObjectExpr") and n.callee and n.callee.get("cls") in GUARD_CLASSES:
                st = guard_ctor_state(n)
                if st is not TOP and st[1] and st[0]:
                    acq.add(st[0][-1])
            t = call_targets(unit, n) if (n.is_call()) else None
            if t is not None:
                cs.append(t.did)
        own[f.did] = acq
        calls[f.did] = cs
    changed = True
    while changed:
        changed = False
        for f in fns:
            for c in calls[f.did]:
                if c in own and not own[c] <= own[f.did]:
                    own[f.did] |= own[c]
                    changed = True
    return own
